"""X25 (extra, beyond the listed properties; not registered in MANIFEST.json) - iora::storage::ConcreteStateStore
(include/iora/storage/concrete_state_store.hpp; tests/storage/iora_test_state.cpp): a case-insensitive in-memory string map,
every member function one critical section under one std::mutex.

  1. spec/extra/StateStore.tla (Impl: the hash table as a set of entries with the spelling kept + the case-insensitive lookup;
     Abs map as history variable; invariants Unique / Agree / RetOk) is model-checked exhaustively (MCStateStore: 5 spellings of
     3 keys, 2 values, 5 prefixes); every Dev_* flag must make TLC report a violation.
  2. EVERY EDGE of its state graph is replayed on the real object (transition cover, single thread under the scheduler), then
     seeded random 2-3 thread programs run under seeded random schedules of the deterministic scheduler.
  3. TLC validates all recorded executions against spec/extra/StoreTrace.tla (linearizability w.r.t. the Abs map: TLC searches
     for the linearization; results, returned key lists and matcher call counts must fit).  The as-built case-sensitive
     findKeysWithPrefix is accepted as the NAMED deviation Dev_PrefixCaseSensitive and reported as OBSERVATION; so is the
     self-deadlock of a matcher that calls back into the store (Dev_MatcherUnderLock, directed probes).
"""
import os, re, json, concurrent.futures as cf
import vf
from checks import xtext_common as xc

SPECDIR = xc.SPECDIR
DEVS = {"Dev_CaseSensitiveKeys": ("Unique", "RetOk", "Agree"), "Dev_SetKeepsOld": ("RetOk", "Agree"), "Dev_RemoveExactCase": ("RetOk", "Agree", "Unique"),
        "Dev_SizeStale": ("RetOk",), "Dev_PrefixCaseSensitive": ("RetOk",)}
ACTIONS = ["Set", "Get", "Remove", "Contains", "Size", "IsEmpty", "Keys", "Prefix", "ByValue", "Matching"]
SPELL = ["a", "A", "ab", "Ab", "b", "B", "aB"]
LABEL = re.compile(r'^(\w+)(?:\((.*)\))?$')


def cfg_for(ck, name, dev=None):
    p = os.path.join(ck.work, name + ".cfg")
    c = {"Spellings": "<- MCSpellings", "Prefixes": "<- MCPrefixes", "Chars": "<- MCChars", "Vals": "{1, 2}"}
    for d in DEVS:
        c[d] = (d == dev)
    vf.write_cfg(p, constants=c, invariants=["Unique", "Agree", "RetOk"])
    return p


def op_of(label):
    m = LABEL.match(label.strip())
    if not m:
        raise vf.Infra("cannot parse edge label %r" % label)
    a, args = m.group(1), [x.strip().strip('"') for x in (m.group(2) or "").split(",")] if m.group(2) is not None else []
    key = lambda s: s if s else "_"
    if a == "Set":
        return "set:%s:%s" % (key(args[0]), args[1])
    if a in ("Get", "Remove", "Contains"):
        return "%s:%s" % (a.lower(), key(args[0]))
    if a == "Prefix":
        return "prefix:%s" % key(args[0])
    if a == "ByValue":
        return "byvalue:%s" % args[0]
    return {"Size": "size", "IsEmpty": "empty", "Keys": "keys", "Matching": "matching"}[a]


def rand_op(rng):
    o = rng.choice(["set", "set", "set", "get", "get", "remove", "remove", "contains", "size", "empty", "keys", "prefix", "byvalue", "matching"])
    if o == "set":
        return "set:%s:%d" % (rng.choice(SPELL), rng.randint(1, 3))
    if o in ("get", "remove", "contains"):
        return "%s:%s" % (o, rng.choice(SPELL))
    if o == "prefix":
        return "prefix:%s" % rng.choice(["a", "A", "Ab", "_", "b", "ab"])
    if o == "byvalue":
        return "byvalue:%d" % rng.randint(1, 3)
    return o


def validate_execs(ck, tag, execs_text, known):
    """execs_text: list of ndjson texts (one per execution).  Returns (rejected [(index, line json)], obs count)"""
    n = len(execs_text)
    nsh = min(4, max(1, n // 50))
    cuts = [n * s // nsh for s in range(nsh)] + [n]
    jobs = []
    for i in range(nsh):
        if cuts[i + 1] > cuts[i]:
            p = os.path.join(ck.work, "%s.v%d.ndjson" % (tag, i))
            open(p, "w").write("".join(execs_text[cuts[i]:cuts[i + 1]]))
            jobs.append((p, cuts[i], cuts[i + 1]))

    def go(job):
        return job, vf.validate_trace(os.path.join(SPECDIR, "StoreTrace.tla"), os.path.join(SPECDIR, "StoreTrace.cfg"), job[0], tag=ck.prop + "_val", xmx="3g")
    with cf.ThreadPoolExecutor(max_workers=4) as ex:
        res = list(ex.map(go, jobs))
    rejected, nobs = [], 0
    for (p, a, b), v in res:
        if v.error or v.violated:
            raise vf.Infra("trace validation error (StoreTrace): %s %s" % (v.violated, (v.error or "")[-1200:]))
        ck.states += v.states
        nobs += len(set(xc.OBS_RE.findall(v.out)))
        for d, _ in xc.OBS_RE.findall(v.out):
            if d not in known:
                raise vf.Infra("unknown deviation name %s printed by StoreTrace" % d)
        if v.accepted:
            ck.traces += b - a
            continue
        # first line no behaviour could match -> the execution it belongs to
        lines = open(p).read().splitlines()
        upto, idx = 0, a
        for k in range(a, b):
            upto += execs_text[k].count("\n")
            if v.maxl <= upto:
                idx = k
                break
        ck.traces += idx - a
        rejected.append((idx, lines[v.maxl - 1] if 0 < v.maxl <= len(lines) else "?"))
    return rejected, nobs


def drive(ck, tag, cases):
    cp = os.path.join(ck.work, tag + ".cases")
    op = os.path.join(ck.work, tag + ".ndjson")
    open(cp, "w").write("\n".join(cases) + "\n")
    rc, out = vf.run_driver("drv_s_statestore", ["run", cp, op], timeout=900)
    m = re.search(r"executions=(\d+) crashed=(\d+) timedout=(\d+)", out)
    if rc != 0 or not m:
        raise vf.Infra("drv_s_statestore failed: " + out[-1000:])
    events = vf.read_ndjson(op)
    execs = vf.split_executions(events)
    if len(execs) != len(cases):
        raise vf.Infra("drv_s_statestore: %d executions for %d cases (%s)" % (len(execs), len(cases), out.strip()[-200:]))
    texts = ["".join(json.dumps(e) + "\n" for e in ex[1]) + '{"e":"Reset"}\n' for ex in execs]
    return execs, texts, int(m.group(2)), int(m.group(3))


def judge(ck, tag, cases, known, what):
    execs, texts, crashed, timedout = drive(ck, tag, cases)
    ck.evaluations += len(execs)
    rejected, nobs = validate_execs(ck, tag, texts, known)
    # a rejection is re-checked alone (the search restarts at a Reset, so this only guards against sharding slips)
    while rejected:
        idx, line = rejected[0]
        r2, _ = validate_execs(ck, tag + "_re", [texts[idx]], known)
        if r2:
            rp = ck.save_replay("%s_reject_%d" % (tag, idx), {"trace.ndjson": texts[idx], "cases.txt": cases[idx] + "\n"})
            ck.violation("%s: execution not explained by the Abs map at %s (case: %s)" % (what, r2[0][1][:300], cases[idx]), rp)
        rest = [i for i in range(idx + 1, len(texts))]
        if not rest or r2:
            break
        rejected, n2 = validate_execs(ck, tag + "_rest", [texts[i] for i in rest], known)
        rejected = [(rest[i], ln) for i, ln in rejected]
        nobs += n2
    return execs, nobs


def run(ck):
    thorough = ck.tier == "thorough"
    ck.make("drv_s_statestore")
    known = xc.load_observations("X25")
    ck.rule = ("(a) every edge of the TLC state graph of StateStore.tla (75 stores x every operation instance) replayed on the real object; "
               "(b) seeded random programs (2-3 threads x 2-4 operations over 7 spellings of 3 keys) under seeded random schedules; "
               "non-trivial = distinct recorded event sequences")
    dev_handle = xc.dev_selftests_start(ck, [(d, os.path.join(SPECDIR, "MCStateStore.tla"), cfg_for(ck, "dev_" + d, dev=d), exp) for d, exp in DEVS.items()], parallel=2)
    dot = os.path.join(ck.work, "g.dot")
    r = vf.run_tlc(os.path.join(SPECDIR, "MCStateStore.tla"), os.path.join(SPECDIR, "MCStateStore.cfg"), tag="X25_mc", workers=2, coverage=True,
                   dump_dot=dot, timeout=600, lib_dirs=[SPECDIR])
    if r.error:
        raise vf.Infra("TLC failed: " + r.error)
    xc.account(ck, r, "StateStore.")
    if r.violated:
        ck.violation("StateStore.tla violates %s" % r.violated, ck.save_replay("impl", {"tlc.out": r.out[-20000:]}))
        return
    for a in ACTIONS:
        if r.coverage.get(a, (0, 0))[1] == 0:
            raise vf.Infra("self-test: action %s of StateStore.tla never taken" % a)
    g = vf.Graph.load(dot)
    os.remove(dot)
    paths, covered, total = g.transition_cover(ck.rng, maxlen=14)
    if covered != total:
        raise vf.Infra("transition cover incomplete: %d/%d" % (covered, total))
    ck.note("StateStore.tla: %s; %d behaviours cover %d/%d edges" % (r.summary(), len(paths), covered, total))
    seq_cases = ["a=%s | random %d" % (",".join(op_of(l) for l in p), ck.seed) for p in paths]
    execs, nobs1 = judge(ck, "seq", seq_cases, known, "sequential conformance")
    distinct = {json.dumps(e[1]) for e in execs}
    ck.sample({"kind": "state-graph behaviour", "case": seq_cases[0], "events": execs[0][1][:6]})
    if ck.violations:
        xc.dev_selftests_join(ck, dev_handle)
        return
    con_cases = []
    for i in range(3000 if thorough else 500):
        progs = []
        for name in ("a", "b", "c")[: ck.rng.randint(2, 3)]:
            progs.append(name + "=" + ",".join(rand_op(ck.rng) for _ in range(ck.rng.randint(2, 4))))
        con_cases.append("%s | random %d" % (";".join(progs), ck.seed * 7919 + i))
    execs2, nobs2 = judge(ck, "con", con_cases, known, "concurrent use")
    distinct |= {json.dumps(e[1]) for e in execs2}
    ck.nontrivial = len(distinct)
    ck.sample({"kind": "concurrent execution", "case": con_cases[0], "events": execs2[0][1][:8]})
    if nobs1 + nobs2:
        ck.note("OBSERVATION Dev_PrefixCaseSensitive: %d findKeysWithPrefix answer(s) miss entries because the stored spelling is compared "
                "case-sensitively - %s" % (nobs1 + nobs2, known.get("Dev_PrefixCaseSensitive", "")))
    elif not ck.violations:
        raise vf.Infra("self-test: the as-built case-sensitive prefix search never showed up as OBS (generator lost its witness)")
    # directed probe: a matcher that calls back into the store (findKeysMatching runs it under the non-recursive mutex)
    probes = ["a=reenter,set:a:1,size | random 1", "a=set:a:1,reenter | random 1", "a=set:a:1,set:b:2;b=reenter,size | random 5",
              "a=set:Ab:1,reenter;b=get:ab,remove:AB | random 9"]
    execs3, _ = judge(ck, "probe", probes, known, "re-entrant matcher probe")
    stuck = sum(1 for e in execs3 if e[1][-1].get("outcome") == "stuck")
    if stuck:
        ck.note("OBSERVATION Dev_MatcherUnderLock: %d of %d probe executions never finish (the scheduler reports every thread blocked) - %s"
                % (stuck, len(probes), known.get("Dev_MatcherUnderLock", "")))
    xc.dev_selftests_join(ck, dev_handle)

    # oracle self-test on synthesised executions (independent of the code under test)
    def ex(*evs):
        return "".join(json.dumps(e) + "\n" for e in ({"e": "Begin"},) + evs + ({"e": "End", "outcome": "done"},)) + '{"e":"Reset"}\n'

    def call(t, op, k="", v=0):
        return {"e": "Call", "t": t, "op": op, "k": [ord(c) for c in k], "v": v}

    def ret(t, op, ok=True, rv=-1, ks=(), calls=-1):
        return {"e": "Ret", "t": t, "op": op, "ok": ok, "rv": rv, "ks": [[ord(c) for c in k] for k in ks], "calls": calls}
    good = [ex(call("a", "set", "Ab", 1), ret("a", "set"), call("a", "get", "aB"), ret("a", "get", True, 1), call("a", "keys"), ret("a", "keys", ks=["Ab"])),
            ex(call("a", "set", "x", 1), call("b", "get", "X"), ret("b", "get", False), ret("a", "set")),
            ex(call("a", "set", "x", 1), call("b", "get", "X"), ret("b", "get", True, 1), ret("a", "set")),
            ex(call("a", "set", "ab", 1), ret("a", "set"), call("a", "set", "b", 2), ret("a", "set"), call("a", "matching"), ret("a", "matching", ks=["ab"], calls=2))]
    corrupt = [ex(call("a", "set", "Ab", 1), ret("a", "set"), call("a", "get", "aB"), ret("a", "get", True, 2)),
               ex(call("a", "set", "Ab", 1), ret("a", "set"), call("a", "set", "ab", 2), ret("a", "set"), call("a", "size"), ret("a", "size", rv=2)),
               ex(call("a", "set", "x", 1), ret("a", "set"), call("a", "remove", "X"), ret("a", "remove", True), call("a", "get", "x"), ret("a", "get", True, 1)),
               ex(call("a", "set", "x", 1), ret("a", "set"), call("a", "keys"), ret("a", "keys", ks=["x", "X"])),
               ex(call("a", "set", "x", 1), ret("a", "set"), call("a", "byvalue", "", 2), ret("a", "byvalue", ks=["x"])),
               ex(call("a", "set", "b", 1), ret("a", "set"), call("a", "set", "a", 1), ret("a", "set"), call("a", "matching"), ret("a", "matching", ks=[], calls=1)),
               ex(call("a", "set", "ab", 1), ret("a", "set"), call("a", "prefix", "a"), ret("a", "prefix", ks=[])),
               ex(call("a", "get", "x"), ret("a", "get", False), call("b", "set", "x", 1), ret("b", "set"), call("a", "get", "x"), ret("a", "get", False)),
               "".join(json.dumps(e) + "\n" for e in [{"e": "Begin"}, call("a", "matching"), {"e": "End", "outcome": "stuck"}]) + '{"e":"Reset"}\n',
               "".join(json.dumps(e) + "\n" for e in [{"e": "Begin"}, call("a", "reenter"), {"e": "End", "outcome": "stuck"}]) + '{"e":"Reset"}\n']
    rej, _ = validate_execs(ck, "self_good", good, known)
    if rej:
        raise vf.Infra("self-test: StoreTrace rejects a correct synthesised execution: %s" % (rej,))
    for i, c in enumerate(corrupt):
        rej, _ = validate_execs(ck, "self_bad", [c], known)
        if not rej:
            raise vf.Infra("self-test: StoreTrace accepts corrupted execution #%d" % i)
    asb = ex(call("a", "set", "Ab", 1), ret("a", "set"), call("a", "prefix", "a"), ret("a", "prefix", ks=[]))
    rej, no = validate_execs(ck, "self_asbuilt", [asb], known)
    if rej or no != 1:
        raise vf.Infra("self-test: the as-built prefix answer is not reported as OBS (rejected=%s obs=%d)" % (rej, no))
    ck.note("self-test: StoreTrace accepts %d synthesised correct executions, rejects %d corrupted ones, reports the as-built prefix answer as OBS" % (len(good), len(corrupt)))


def replay(ck, path):
    ck.make("drv_s_statestore")
    cases = [ln.strip() for ln in open(os.path.join(path, "cases.txt")) if ln.strip()]
    execs, nobs = judge(ck, "replay", cases, xc.load_observations("X25"), "replay")
    for e in execs[:3]:
        print("\n".join(json.dumps(x) for x in e[1]))
