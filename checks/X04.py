"""X04 (extra, not in MANIFEST.json) — iora::core::ConcurrentHashMap: per-key operations are linearizable w.r.t. a plain map.
Random 2-3 thread programs over 3 keys under the scheduler (exercises the emulated pthread_rwlock paths); traces validated
against MapTrace.tla (TLC searches for a linearization)."""
import os, json
import vf
SPECDIR = os.path.join(vf.SPEC, "extra")
OPS = ["insert", "insertOrAssign", "erase", "find", "contains", "findOrInsert", "addOne", "size"]


def run(ck):
    ck.make("drv_s_chm")
    ck.rule = "random programs (2-3 threads x 2-5 operations over 3 keys, 2 shards) under random schedules; distinct event sequences"
    lines = []
    for i in range(1500 if ck.tier == "thorough" else 300):
        progs = []
        for name in ("a", "b", "c")[: ck.rng.randint(2, 3)]:
            ops = []
            for _ in range(ck.rng.randint(2, 5)):
                o = ck.rng.choice(OPS)
                ops.append(o if o == "size" else "%s:%d:%d" % (o, ck.rng.randint(1, 3), ck.rng.randint(10, 12)))
            progs.append(name + "=" + ",".join(ops))
        lines.append("%s | random %d" % (";".join(progs), ck.seed * 17 + i))
    cp = os.path.join(ck.work, "cases.txt"); open(cp, "w").write("\n".join(lines) + "\n")
    outp = os.path.join(ck.work, "m.ndjson")
    rc, out = vf.run_driver("drv_s_chm", ["run", cp, outp], timeout=900)
    if rc != 0:
        raise vf.Infra("drv_s_chm failed: " + out[-1000:])
    events = vf.read_ndjson(outp); execs = vf.split_executions(events)
    ck.evaluations += len(execs); ck.nontrivial = len({json.dumps(e[1]) for e in execs})
    ck.level = "model_checking"
    v = ck.validate(os.path.join(SPECDIR, "MapTrace.tla"), os.path.join(SPECDIR, "MapTrace.cfg"), outp, n_exec=len(execs))
    ck.states += v.states; ck.transitions += v.states
    ck.sample({"kind": "map execution", "case": lines[0], "events": execs[0][1][:10]})
    if not v.accepted:
        x = vf.exec_index_of_line(events, v.maxl)
        rp = ck.save_replay("reject_%d" % x, {"trace.ndjson": "\n".join(json.dumps(e) for e in execs[x][1]) + "\n", "case.txt": lines[x] + "\n"})
        ck.violation("map execution not linearizable at %s (%s)" % (json.dumps(events[v.maxl - 1]), lines[x]), rp)


def replay(ck, path):
    run(ck)
