"""X12 (extra, beyond the listed properties; not registered in MANIFEST.json) - live-update channels and SSE framing.
  (a) framing: SseStream::formatEvent / formatComment / formatRetry (network/sse_stream.hpp).  SseFrame.tla is a GENERATOR
      (every payload up to k bytes over {letter, space, colon, CR, LF} x injecting event names / comment texts / retry
      values) and an Impl model of the formatter; the reference is the client side, SseWire.tla = the WHATWG EventSource
      stream interpretation written in TLA+.  TLC enumerates the cases and checks Impl against the reference (Refines); the
      real formatter runs every case (ASan+UBSan, exact-size heap buffers) and TLC validates the recorded bytes against
      SseFrameTrace.tla: exactly the intended event (type, data with CRLF/CR/LF -> LF, leading spaces kept), nothing
      injected through name / payload / comment, stream left at an event boundary.
  (b) publish/subscribe: iora::web::SseChannel + the SseStream close-latch, and iora::web::WsChannel (web/channel.hpp).
      Channel.tla (Impl, one action per critical section / relaxed flag access / hand-over) is model-checked per program;
      its state graph is covered by behaviours replayed on the real objects under the scheduler (recording server doubles,
      every hand-over to the server is a schedule point), Dev_* counterexamples as directed probes, seeded random schedules
      of fixed and random programs (SSE and WS), preemption-bounded DFS; ChanTrace.tla (Abs) judges every execution.
Named deviations (accepted, reported as OBSERVATION notes): LateWrite, DoubleSubscribe (see ChanTrace.tla)."""
import os, json, re
import concurrent.futures as cf
import vf

SPECDIR = os.path.join(vf.SPEC, "extra")
ASAN_ENV = {"ASAN_OPTIONS": "detect_leaks=0:abort_on_error=0", "UBSAN_OPTIONS": "print_stacktrace=1"}
FRAME_FLAGS = ["Dev_NoCrSplit", "Dev_CrLfTwoBreaks", "Dev_NameNotStripped", "Dev_NoSeparatorSpace", "Dev_EmptyNoLine"]
FRAME_ACTIONS = ["HeadStep", "Plain", "Break", "TailLine"]
CHAN_FLAGS = ["Dev_PruneInverted", "Dev_MarkKeepsOpen", "Dev_CloseSessionBeforeLatch", "Dev_LatchUnlocked", "Dev_NoImmediateFire"]
CHAN_ACTIONS = ["Sub", "Rm", "Count", "PubSnap", "PubCheck", "PubSend", "Close1", "Latch", "CloseSess", "Fire", "OnClose", "FireNow"]
CHAN_INV = ["AtMostOnce", "MustDeliver", "NoLateStart", "CloseSessionOnce", "FiredOnce", "Terminates"]
OBSERVATIONS = {
    "LateWrite": "a publish already past its open-check hands bytes to the server for a stream/session whose close()/unsubscribe() "
                 "has meanwhile RETURNED (snapshot-then-write; 'no delivery after unsubscribe returned' holds only for publishes "
                 "that begin afterwards)",
    "DoubleSubscribe": "SseChannel::subscribe does not deduplicate: a stream subscribed twice is handed every event twice "
                       "(WsChannel keeps a set and delivers once)"}
NAMES_Q = [[], [101], [101, 10, 100], [13], [32, 101, 58], [101, 13, 10, 100, 97, 116, 97, 58, 120]]
NAMES_T = NAMES_Q + [[10], [105, 100, 58, 49], [101, 10, 10, 100, 97, 116, 97, 58, 32, 122], [58]]
# SSE programs for Channel.tla: (streams, {thread: [ops]});  ops as the driver spells them
SSE_PROGS = [
    (2, {"a": ["sub1", "pub1", "pub2"], "b": ["sub2", "onc1", "close1", "count"], "c": ["mark1", "pub3", "rm"]}),
    (2, {"a": ["sub1", "sub2", "pub1"], "b": ["close1", "close1", "pub2"], "c": ["onc1", "mark2", "onc2"]}),
    (1, {"a": ["sub1", "pub1", "close1"], "b": ["pub2", "mark1", "pub3"], "c": ["onc1", "rm", "count"]}),
]
SSE_PROGS_T = [
    (2, {"a": ["sub1", "pub1", "pub2", "close2"], "b": ["sub2", "pub3", "mark1"], "c": ["onc1", "onc2", "close1"]}),
]
WS_PROGS = [
    (2, {"a": ["sub1", "pub1", "pub2"], "b": ["sub2", "unsub1", "pub3", "count"], "c": ["deact2", "pub4", "sub1"]}),
    (2, {"a": ["sub1", "sub2", "pub1", "unsub2"], "b": ["pub2", "subB1", "pub3"], "c": ["unsub1", "sub1", "deact1"]}),
]


def prog_text(prog):
    return ";".join("%s=%s" % (t, ",".join(ops)) for t, ops in prog.items())


def split_op(op):
    m = re.match(r"([a-zA-Z]+)(\d*)$", op)
    return m.group(1), int(m.group(2) or 0)


def tla_prog(prog):
    names = {"onc": "onclose"}
    def one(op):
        n, a = split_op(op)
        return vf.Rec(op=names.get(n, n), s=0 if n == "pub" else a, m=a if n == "pub" else 0)
    return vf.tla({t: [one(o) for o in ops] for t, ops in prog.items()})


# ------------------------------------------------------------------------------------------------ (a) framing
def frame_cfg(ck, tag, maxdata, names, flag=None, emit=True):
    d = os.path.join(ck.work, "frame_" + tag)
    os.makedirs(d, exist_ok=True)
    mod = "MCSseFrame_" + tag
    with open(os.path.join(d, mod + ".tla"), "w") as f:
        f.write("---- MODULE %s ----\nEXTENDS SseFrame\nMCNames == %s\nMCRetries == %s\n====\n" % (
            mod, "{" + ", ".join(vf.tla(n) for n in names) + "}", "{<<48>>, <<51, 48, 48, 48>>, <<52, 50, 57, 52, 57, 54, 55, 50, 57, 53>>}"))
    consts = {"DataAlphabet": {97, 32, 58, 13, 10}, "MaxData": maxdata, "Names": "<- MCNames", "Retries": "<- MCRetries"}
    for fl in FRAME_FLAGS:
        consts[fl] = (fl == flag)
    cfg = os.path.join(d, mod + ".cfg")
    vf.write_cfg(cfg, constants=consts, invariants=["Refines"] + (["Emit"] if emit else []))
    return os.path.join(d, mod + ".tla"), cfg


def run_framing(ck, thorough):
    t, cfg = frame_cfg(ck, "gen", 5 if thorough else 4, NAMES_T if thorough else NAMES_Q)
    r = vf.run_tlc(t, cfg, tag="X12_frame", workers=4, coverage=True, lib_dirs=[SPECDIR], timeout=1200)
    if r.error:
        raise vf.Infra("TLC failed on SseFrame: " + r.error)
    ck.states += r.distinct; ck.transitions += r.generated
    if r.violated:
        ck.violation("SseFrame.tla violates %s" % r.violated, ck.save_replay("impl_frame", {"tlc.out": r.out}))
        return
    for a in FRAME_ACTIONS:
        if r.coverage.get(a, (0, 0))[1] == 0:
            raise vf.Infra("self-test: SseFrame action %s never taken" % a)
        ck.cov["frame." + a] = r.coverage[a][1]
    cases = []
    for ln in r.prints:
        if ln.startswith('"'):
            try:
                cases.append(json.loads(json.loads(ln)))
            except Exception:
                pass
    kinds = {}
    for c in cases:
        kinds[c["kind"]] = kinds.get(c["kind"], 0) + 1
    if len(cases) < 1000 or any(kinds.get(k, 0) == 0 for k in ("event", "comment", "retry")):
        raise vf.Infra("self-test: the SseFrame generator produced too few cases: %s" % kinds)
    ck.note("SseFrame.tla: %s; generated cases %s" % (r.summary(), kinds))
    # self-test: every slip of the formatter model violates Refines
    def dev(flag):
        tt, cc = frame_cfg(ck, flag, 3, NAMES_Q, flag=flag, emit=False)
        return flag, vf.run_tlc(tt, cc, tag="X12_" + flag, workers=1, lib_dirs=[SPECDIR], timeout=600)
    with cf.ThreadPoolExecutor(max_workers=3) as ex:
        for flag, rr in ex.map(dev, FRAME_FLAGS):
            if rr.violated != "Refines":
                raise vf.Infra("self-test: %s = TRUE is not reported by TLC (%r %s)" % (flag, rr.violated, rr.error))
            ck.states += rr.distinct; ck.transitions += rr.generated
    ck.note("self-test, formatter slips caught by TLC: " + ", ".join(FRAME_FLAGS))
    # run the real formatter
    cp = os.path.join(ck.work, "frame_cases.txt")
    with open(cp, "w") as f:
        for c in cases:
            f.write("%s %s | %s\n" % (c["kind"], " ".join(map(str, c["name"])), " ".join(map(str, c["data"]))))
    outp = os.path.join(ck.work, "frame.ndjson")
    rc, out = vf.run_driver("drv_sseframe.asan", ["run", cp, outp], timeout=900, env=ASAN_ENV)
    if rc != 0:
        rp = ck.save_replay("frame_sanitizer", {"driver.out": out[-6000:], "cases.txt": cp})
        if "Sanitizer" in out or "runtime error" in out:
            ck.violation("SSE formatter: sanitizer report / crash on a generated case: %s" % out[-300:].replace("\n", " "), rp)
            return
        raise vf.Infra("drv_sseframe.asan failed: " + out[-1500:])
    events = vf.read_ndjson(outp)
    got = [e for e in events if e["e"] == "Case"]
    if len(got) != len(cases):
        raise vf.Infra("framing driver returned %d results for %d cases" % (len(got), len(cases)))
    ck.evaluations += len(got)
    ck.nontrivial += len({json.dumps(e["out"]) for e in got if 13 in e["data"] or 10 in e["data"] or 13 in e["name"] or 10 in e["name"]})
    drift = [(c, e) for c, e in zip(cases, got) if c["out"] != e["out"]]
    if drift:
        ck.note("model drift: %d cases where the real bytes differ from SseFrame.tla's prediction (judged by the reference only), first: %s" % (
            len(drift), json.dumps(drift[0][1])[:300]))
    ck.sample({"kind": "SSE framing case", "case": got[len(got) // 2]})
    v = ck.validate(os.path.join(SPECDIR, "SseFrameTrace.tla"), os.path.join(SPECDIR, "SseFrameTrace.cfg"), outp, n_exec=0)
    if v.accepted:
        ck.traces += len(got)
    else:
        bad = events[v.maxl - 1]
        rp = ck.save_replay("frame_reject", {"case.ndjson": json.dumps(bad) + "\n"})
        ck.violation("SSE framing: an EventSource client does not decode the intended event from the real formatter's bytes: %s" % json.dumps(bad), rp)
        return
    # self-test of the oracle: a corrupted result must be rejected
    bad = dict(got[len(got) // 3]); bad["out"] = bad["out"][:-1] + [13, 100, 97, 116, 97, 58, 120, 10, 10]
    bp = os.path.join(ck.work, "frame_bad.ndjson")
    open(bp, "w").write(json.dumps(got[0]) + "\n" + json.dumps(bad) + "\n")
    vb = vf.validate_trace(os.path.join(SPECDIR, "SseFrameTrace.tla"), os.path.join(SPECDIR, "SseFrameTrace.cfg"), bp, tag="X12_fbad")
    if vb.accepted or vb.maxl != 2:
        raise vf.Infra("self-test: SseFrameTrace.tla accepted a forged data line (maxl=%s)" % vb.maxl)


# ------------------------------------------------------------------------------------------------ (b) publish / subscribe
def chan_cfg(ck, tag, n, prog, flag=None, extra_inv=()):
    d = os.path.join(ck.work, "chan_" + tag)
    os.makedirs(d, exist_ok=True)
    mod = "MCChannel_" + tag
    with open(os.path.join(d, mod + ".tla"), "w") as f:
        f.write("---- MODULE %s ----\nEXTENDS Channel\nMCThreads == %s\nMCProg == %s\n====\n" % (mod, vf.tla(set(prog.keys())), tla_prog(prog)))
    consts = {"Threads": "<- MCThreads", "Streams": set(range(1, n + 1)), "Prog": "<- MCProg"}
    for fl in CHAN_FLAGS:
        consts[fl] = (fl == flag)
    cfg = os.path.join(d, mod + ".cfg")
    vf.write_cfg(cfg, constants=consts, invariants=CHAN_INV + list(extra_inv))
    return os.path.join(d, mod + ".tla"), cfg, os.path.join(d, "graph.dot"), os.path.join(d, "cex.json")


def labels_to_plan(labels):
    """Channel.tla behaviour -> scheduler plan (extra schedule point "resume" after every unlock; see drv_s_channel.cpp)"""
    acts = [vf.label_thread(l) for l in labels]
    acts = [(a, args[0]) for a, args in acts if args]
    plan = []
    for i, (a, t) in enumerate(acts):
        nxt = next((b for b, u in acts[i + 1:] if u == t), None)
        prv = next((b for b, u in reversed(acts[:i]) if u == t), None)
        if a in ("Sub", "Rm", "Count"):
            plan += [t, t + "*point:call"]
        elif a == "PubSnap":
            plan += [t, t + ("*resume" if nxt == "PubCheck" else "*point:call")]
        elif a == "PubCheck":
            plan += [t] if prv == "PubSnap" else []      # later checks run in the step that performed the previous hand-over
        elif a == "PubSend":
            plan += [t]
        elif a == "Close1":
            plan += [t]
        elif a in ("Latch", "LatchTest"):
            plan += [t + "*resume"] + ([] if nxt in ("CloseSess", "Fire", "LatchSet") else [t + "*point:call"])
        elif a == "CloseSess":
            plan += [t + "*point:closeSession", t]
        elif a in ("Fire", "FireNow"):
            plan += [t + "*point:call"]
        elif a == "OnClose":
            plan += [t, t + "*resume"] + ([] if nxt == "FireNow" else [t + "*point:call"])
    return plan


def cex_labels(trace_json):
    out = []
    for a in trace_json["counterexample"]["action"]:
        t = a[1].get("context", {}).get("t")
        if t is not None:
            out.append('%s("%s")' % (a[1]["name"], t))
    return out


def random_program(rng, kind):
    nthr = rng.randint(2, 4)
    n = rng.randint(1, 3)
    prog = {}
    mid = [0]
    def pub():
        mid[0] += 1
        return "pub%d" % mid[0]
    for t in ["a", "b", "c", "d"][:nthr]:
        ops = []
        for _ in range(rng.randint(2, 5)):
            s = rng.randint(1, n)
            if kind == "sse":
                c = rng.choice(["sub", "pub", "pub", "close", "mark", "onc", "rm", "count"])
                if c == "onc" and any(("onc%d" % s) in o for o in sum(prog.values(), ops)):
                    c = "pub"      # one registration per stream (the slot is last-wins by contract)
                ops.append(pub() if c == "pub" else c if c in ("rm", "count") else "%s%d" % (c, s))
            else:
                c = rng.choice(["sub", "sub", "pub", "pub", "unsub", "deact", "subB", "count"])
                ops.append(pub() if c == "pub" else c if c == "count" else "%s%d" % (c, s))
        prog[t] = ops
    return kind, n, prog


def run_channels(ck, thorough):
    jobs = [("s%d" % i, n, p) for i, (n, p) in enumerate(SSE_PROGS + (SSE_PROGS_T if thorough else []))]
    cases = []   # (head, policy, kind)

    def head(kind, n, prog):
        return "%s %d | %s" % (kind, n, prog_text(prog))

    def mc(job):
        tag, n, prog = job
        t, cfg, dot, _ = chan_cfg(ck, tag, n, prog)
        return job, vf.run_tlc(t, cfg, tag="X12_" + tag, workers=2, coverage=True, dump_dot=dot, lib_dirs=[SPECDIR], timeout=900), dot
    with cf.ThreadPoolExecutor(max_workers=3) as ex:
        results = list(ex.map(mc, jobs))
    cov = {}
    for (tag, n, prog), r, dot in results:
        if r.error:
            raise vf.Infra("TLC failed on %s: %s" % (tag, r.error))
        ck.states += r.distinct; ck.transitions += r.generated
        for a, (tk, gn) in r.coverage.items():
            cov[a] = cov.get(a, 0) + gn
        if r.violated:
            ck.violation("Channel.tla violates %s for program %s" % (r.violated, prog_text(prog)), ck.save_replay("impl_%s" % tag, {"tlc.out": r.out}))
            continue
        g = vf.Graph.load(dot); os.remove(dot)
        paths, covered, total = g.transition_cover(ck.rng, limit=400 if thorough else 90)
        paths += g.random_walks(ck.rng, 30 if thorough else 10)
        ck.note("%s sse n=%d (%s): %d states, %d edges, %d behaviours (%d/%d edges)" % (tag, n, prog_text(prog), r.distinct, g.n_edges(), len(paths), covered, total))
        for p in paths:
            cases.append((head("sse", n, prog), "replay au " + " ".join(labels_to_plan(p)), "replay"))
    if ck.violations:
        return
    for a in CHAN_ACTIONS:
        if cov.get(a, 0) == 0:
            raise vf.Infra("self-test: Channel action %s never taken in any model-checked program" % a)
        ck.cov["chan." + a] = cov[a]

    # self-test: Dev_* slips are caught by TLC; counterexamples become probes; the design-level LateWrite counterexample too
    def dev(flag):
        for tag, n, prog in jobs:
            if flag == "LateWrite":
                t, cfg, _, cex = chan_cfg(ck, tag + "_late", n, prog, extra_inv=["NoWriteAfterCloseReturned"])
            else:
                t, cfg, _, cex = chan_cfg(ck, tag + "_" + flag, n, prog, flag=flag)
            r = vf.run_tlc(t, cfg, tag="X12_" + flag, workers=1, dump_trace=cex, lib_dirs=[SPECDIR], timeout=600)
            if r.violated:
                return flag, (n, prog), r
        return flag, None, None
    with cf.ThreadPoolExecutor(max_workers=3) as ex:
        devres = list(ex.map(dev, CHAN_FLAGS + ["LateWrite"]))
    caught = []
    for flag, where, r in devres:
        if r is None:
            raise vf.Infra("self-test: %s is not reported by TLC for any program" % flag)
        if flag == "LateWrite" and r.violated != "NoWriteAfterCloseReturned":
            raise vf.Infra("self-test: expected the LateWrite counterexample, got %s" % r.violated)
        ck.states += r.distinct; ck.transitions += r.generated
        caught.append("%s->%s" % (flag, r.violated))
        if r.trace_json:
            n, prog = where
            plan = labels_to_plan(cex_labels(r.trace_json))
            cases.append((head("sse", n, prog), "replay au " + " ".join(plan), "probe:" + flag))
            ck.sample({"kind": "directed probe from the counterexample of " + flag, "program": prog_text(prog), "plan": plan[:24]})
    ck.note("self-test, slips caught by TLC: " + ", ".join(caught))

    # directed cases for the two observations (always reached)
    cases.append(("sse 1 | a=sub1,pub1;b=close1", "replay a a a*point:send b*point:call b* a*", "directed"))
    cases.append(("sse 1 | a=sub1,sub1,pub1,close1,pub2", "replay a*", "directed"))
    cases.append(("ws 1 | a=sub1,pub1;b=unsub1", "replay a a a*point:send b*point:call b* a*", "directed"))
    # seeded random schedules: fixed programs + random programs, SSE and WS
    fixed = [("sse", n, p) for _, n, p in jobs] + [("ws", n, p) for n, p in WS_PROGS]
    for kind, n, prog in fixed:
        for i in range(60 if thorough else 15):
            cases.append((head(kind, n, prog), "random %d%s" % (ck.seed * 7919 + i, " au" if i % 2 else ""), "random"))
    for i in range(2000 if thorough else 400):
        kind, n, prog = random_program(ck.rng, "sse" if i % 2 == 0 else "ws")
        cases.append((head(kind, n, prog), "random %d%s" % (ck.seed * 104729 + i, " au" if i % 3 else ""), "randprog"))
    cp = os.path.join(ck.work, "chan_cases.txt")
    with open(cp, "w") as f:
        f.write("\n".join("%s | %s" % (h, pol) for h, pol, _ in cases) + "\n")
    outp = os.path.join(ck.work, "chan.ndjson")
    rc, out = vf.run_driver("drv_s_channel", ["run", cp, outp, 12], timeout=1500)
    if rc != 0:
        raise vf.Infra("drv_s_channel failed: " + out[-1500:])
    dfs = [("sse", SSE_PROGS[0][0], SSE_PROGS[0][1]), ("sse", SSE_PROGS[1][0], SSE_PROGS[1][1]), ("ws", WS_PROGS[0][0], WS_PROGS[0][1]), ("ws", WS_PROGS[1][0], WS_PROGS[1][1])]
    for i, (kind, n, prog) in enumerate(dfs):
        dout = os.path.join(ck.work, "chan_dfs%d.ndjson" % i)
        rc, out = vf.run_driver("drv_s_channel", ["dfs", head(kind, n, prog), 2, 1500 if thorough else 250, dout, 12], timeout=1500)
        if rc != 0:
            raise vf.Infra("drv_s_channel dfs failed: " + out[-1500:])
        ck.note("DFS (<=2 preemptions) %s %s: %s" % (kind, prog_text(prog), out.strip().splitlines()[-1]))
        with open(outp, "a") as f:
            f.write(open(dout).read())
        os.remove(dout)
    judge_channels(ck, outp, cases)


def judge_channels(ck, outp, cases):
    events = vf.read_ndjson(outp)
    execs = vf.split_executions(events)
    ck.evaluations += len(execs)
    kinds, drift, nontrivial = {}, 0, set()
    for i, (_, evs) in enumerate(execs):
        kind = (cases[i][2] if i < len(cases) else "dfs").split(":")[0]
        kinds[kind] = kinds.get(kind, 0) + 1
        for e in evs:
            if e["e"] == "HarnessTimeout":
                raise vf.Infra("execution %d exceeded the harness time limit" % i)
            if e["e"] == "End" and e["outcome"] != "done":
                if e["outcome"] in ("steplimit", "external"):
                    raise vf.Infra("execution %d inconclusive: %s" % (i, e["outcome"]))
            if e["e"] == "End" and e.get("drift") and kind == "replay":
                drift += 1
        if any(e["e"] == "Deliver" for e in evs) and any(e["e"] == "Call" and e["op"] in ("close", "mark", "unsub", "deact") for e in evs):
            nontrivial.add(json.dumps(evs))
    ck.nontrivial += len(nontrivial)
    ck.note("channel executions: %s; replayed behaviours that left their plan (drift, judged all the same): %d" % (kinds, drift))

    def case_of(x):
        return ("%s | %s" % (cases[x][0], cases[x][1])) if x < len(cases) else "(DFS execution)"
    for i, e in enumerate(events):
        if e["e"] == "Crashed":
            x = vf.exec_index_of_line(events, i + 1)
            rp = ck.save_replay("chan_crash_%d" % x, {"trace.ndjson": "\n".join(json.dumps(v) for v in execs[x][1]) + "\n", "case.txt": case_of(x) + "\n"})
            ck.violation("channel execution crashed (%s)" % case_of(x), rp)
            return
    v = ck.validate(os.path.join(SPECDIR, "ChanTrace.tla"), os.path.join(SPECDIR, "ChanTrace.cfg"), outp, n_exec=len(execs))
    ck.states += v.states
    ck.sample({"kind": "channel execution", "case": case_of(0), "events": execs[0][1][:10]})
    devs = {}
    for m in re.finditer(r'<<"DEV", "(\w+)", (\d+)>>', v.out):
        devs.setdefault(m.group(1), set()).add(int(m.group(2)))
    for name, ls in sorted(devs.items()):
        first = min(ls)
        x = vf.exec_index_of_line(events, first)
        ck.note("OBSERVATION %s: %s - seen in %d hand-overs, first: %s at %s" % (name, OBSERVATIONS.get(name, "?"), len(ls), case_of(x)[:300], json.dumps(events[first - 2])))
    if not v.accepted:
        x = vf.exec_index_of_line(events, v.maxl)
        bad = events[v.maxl - 1] if v.maxl - 1 < len(events) else {}
        rp = ck.save_replay("chan_reject_%d" % x, {"trace.ndjson": "\n".join(json.dumps(e) for e in execs[x][1]) + "\n", "case.txt": case_of(x) + "\n"})
        ck.violation("channel execution rejected by ChanTrace.tla at %s (%s)" % (json.dumps(bad), case_of(x)[:600]), rp)


def run(ck):
    thorough = ck.tier == "thorough"
    ck.make("drv_sseframe.asan", "drv_s_channel")
    ck.rule = ("(a) framing: every payload up to k bytes over {a, space, colon, CR, LF} x injecting names / comments / retry values "
               "enumerated by TLC (SseFrame.tla), run on the real formatter (ASan), judged by the EventSource reference; non-trivial "
               "= distinct outputs of cases containing CR/LF.  (b) channels: state-graph cover of Channel.tla replayed on the real "
               "objects + Dev_* probes + random schedules of fixed/random SSE and WS programs + DFS; non-trivial = distinct "
               "executions with a hand-over and a close/unsubscribe")
    run_framing(ck, thorough)
    if ck.violations:
        return
    run_channels(ck, thorough)


def replay(ck, path):
    cp = os.path.join(path, "case.txt")
    line = open(cp).read().strip() if os.path.exists(cp) else ""
    if not line or line.startswith("("):
        return run(ck)
    ck.make("drv_s_channel")
    outp = os.path.join(ck.work, "replay.ndjson")
    rc, out = vf.run_driver("drv_s_channel", ["run", cp, outp, 1], timeout=300)
    if rc != 0:
        raise vf.Infra("drv_s_channel failed: " + out[-1500:])
    parts = line.split("|")
    judge_channels(ck, outp, [("|".join(parts[:2]).strip(), parts[2].strip(), "replay")])
