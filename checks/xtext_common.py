"""Shared by the input-shaped extras X13..X17 (base64, html escape / htmx, http auth, minimal toml, mustache).

Pattern (same as C13/C14/C19): a TLA+ generator/Impl specification whose terminal states are the cases (printed with
PrintT(ToJson(..)) by an invariant `Emit`), a plain ASan+UBSan driver that runs every case on the real code and logs one
ndjson event per call, and an Abs trace specification that judges every event with an evaluator written in TLA+.
The oracles report   <<"BAD", line, "clause">>   for an event the Abs specification does not allow and
                     <<"OBS", "Dev_Name", line>> for an event that is exactly the behaviour of a NAMED deviation
(documented in checks/Xnn.meta.json 'observations'); python only moves data and counts."""
import os, re, json, concurrent.futures as cf
from collections import Counter, defaultdict
import vf

SPECDIR = os.path.join(vf.SPEC, "extra")
ASAN_ENV = {"ASAN_OPTIONS": "detect_leaks=0:abort_on_error=0:allocator_may_return_null=1",
            "UBSAN_OPTIONS": "print_stacktrace=1"}
# TLC pretty-prints a long tuple over several lines: the patterns must not depend on the layout
BAD_RE = re.compile(r'<<\s*"BAD",\s*(\d+)(?:,\s*"([^"]*)")?\s*>>')
OBS_RE = re.compile(r'<<\s*"OBS",\s*"(\w+)",\s*(\d+)\s*>>')
TLC_WORKERS = 4          # the machine is shared: generator runs use <= 4 workers, validation <= 5 single-worker JVMs


def tlc_json_prints(r):
    out = []
    for ln in r.prints:
        if ln.startswith('"'):
            try:
                out.append(json.loads(json.loads(ln)))
            except Exception:
                pass
    return out


def account(ck, r, prefix):
    ck.states += r.distinct
    ck.transitions += r.generated
    for a, (tk, gn) in r.coverage.items():
        ck.cov[prefix + a] = ck.cov.get(prefix + a, 0) + gn


def write_mc(ck, name, base, defs):
    """generated MC module  ---- MODULE name ---- EXTENDS base  <defs>  in ck.work; returns its path"""
    p = os.path.join(ck.work, name + ".tla")
    with open(p, "w") as f:
        f.write("---- MODULE %s ----\nEXTENDS %s\n%s\n====\n" % (name, base, "\n".join(defs)))
    return p


def run_gen(ck, module, cfg, tag, prefix, actions, workers=TLC_WORKERS, timeout=900, invariant_is_violation=True, what="", env=None):
    """model-check a generator/Impl specification exhaustively with coverage; every action in `actions` must be taken.
    returns (TlcResult, cases) - cases are the JSON values printed by the invariant Emit"""
    r = vf.run_tlc(module, cfg, tag=ck.prop + "_" + tag, workers=workers, coverage=True, timeout=timeout, lib_dirs=[SPECDIR], xmx="4g", env=env)
    if r.error:
        raise vf.Infra("TLC failed on %s: %s" % (os.path.basename(module), r.error))
    account(ck, r, prefix)
    ck.note("TLC %s/%s: %s" % (os.path.basename(module), os.path.basename(cfg), r.summary()))
    if r.violated:
        rp = ck.save_replay(tag + "_impl_spec", {"tlc.out": r.out[-30000:]})
        if invariant_is_violation:
            ck.violation("%s (%s) violates its invariant %s" % (os.path.basename(module), what or "Impl specification", r.violated), rp)
            return r, []
        raise vf.Infra("%s violates %s" % (os.path.basename(module), r.violated))
    for a in actions:
        if r.coverage.get(a, (0, 0))[1] == 0:
            raise vf.Infra("self-test: action %s of %s never taken" % (a, os.path.basename(module)))
    return r, tlc_json_prints(r)


def dev_selftests_start(ck, jobs, parallel=2, env=None):
    """jobs: list of (dev name, module, cfg, expected invariant names or None).  Every deviation flag set TRUE must make TLC
    report a violation of the Impl specification (of one of the expected invariants).  The runs are started in the background
    (`parallel` single-worker JVMs at a time) so that they overlap with the driver / validation; join with dev_selftests_join."""
    ex = cf.ThreadPoolExecutor(max_workers=parallel)

    def go(job):
        dev, module, cfg, exp = job
        return job, vf.run_tlc(module, cfg, tag=ck.prop + "_" + dev, workers=1, timeout=600, lib_dirs=[SPECDIR], xmx="2g", env=env)
    return ex, [ex.submit(go, j) for j in jobs]


def dev_selftests_join(ck, handle):
    ex, futs = handle
    res = [f.result() for f in futs]
    ex.shutdown()
    for (dev, module, cfg, exp), d in res:
        if d.violated is None or (exp and d.violated not in exp):
            raise vf.Infra("self-test: %s with %s = TRUE should violate %s, got %r %s" % (
                os.path.basename(module), dev, exp or "an invariant", d.violated, (d.error or "")[-400:]))
        ck.states += d.distinct
        ck.transitions += d.generated
    ck.note("self-test: each of %d deviation flags makes TLC report a violation (%s)" % (len(res), ", ".join(j[0][0] for j in res)))


def dev_selftests(ck, jobs, parallel=3, env=None):
    dev_selftests_join(ck, dev_selftests_start(ck, jobs, parallel, env))


def run_drv(binary, cases_path, out_path, batch=400, parallel=8, extra=(), timeout=1500):
    for p in (out_path,):
        if os.path.exists(p):
            os.remove(p)
    rc, out = vf.run_driver(binary, ["run", cases_path, out_path, batch, parallel] + list(extra), timeout=timeout, env=ASAN_ENV)
    m = re.search(r"cases=(\d+) crashed=(\d+) hung=(\d+)", out)
    if rc != 0 or not m:
        raise vf.Infra("%s failed (rc=%s): %s" % (binary, rc, out[-1500:]))
    return int(m.group(1)), int(m.group(2)), int(m.group(3))


def worker_stderr(out_path, limit=5000):
    d = out_path + ".d"
    txt = []
    if os.path.isdir(d):
        for fn in sorted(os.listdir(d)):
            if fn.endswith(".err"):
                t = open(os.path.join(d, fn), errors="replace").read()
                if t.strip():
                    txt.append(t)
    return "\n".join(txt)[:limit]


def validate_sharded(ck, spec, trace_path, nshards=4, cfg=None, timeout=900):
    """validate an ndjson trace of INDEPENDENT events with `nshards` single-worker TLC processes.
    returns (lines, bad[(line, clause)], obs[(name, line)]) with global 1-based line numbers.  A shard that is not consumed
    completely is an infrastructure problem (unknown event / evaluation error), never a verdict."""
    lines = open(trace_path).read().splitlines()
    n = len(lines)
    if n == 0:
        raise vf.Infra("empty trace " + trace_path)
    cuts = sorted({n * s // nshards for s in range(nshards)} | {n})
    jobs = []
    for i in range(len(cuts) - 1):
        if cuts[i + 1] == cuts[i]:
            continue
        p = "%s.v%d" % (trace_path, i)
        with open(p, "w") as f:
            f.write("\n".join(lines[cuts[i]:cuts[i + 1]]) + "\n")
        jobs.append((p, cuts[i]))
    mod = os.path.join(SPECDIR, spec + ".tla")
    cfg = cfg or os.path.join(SPECDIR, spec + ".cfg")

    def go(job):
        return job, vf.validate_trace(mod, cfg, job[0], tag=ck.prop + "_val", xmx="3g", timeout=timeout)
    with cf.ThreadPoolExecutor(max_workers=min(5, len(jobs))) as ex:
        res = list(ex.map(go, jobs))
    bad, obs, wall = [], [], 0.0
    for (p, base), v in res:
        wall = max(wall, v.wall)
        if v.error or v.violated:
            raise vf.Infra("trace validation error (%s): %s %s" % (spec, v.violated, (v.error or "")[-1500:]))
        if not v.accepted:
            ln = lines[base + v.maxl - 1] if 0 <= base + v.maxl - 1 < n else "?"
            raise vf.Infra("%s cannot consume line %d of %s (no action for this event / evaluation failed): %s" % (
                spec, base + v.maxl, os.path.basename(trace_path), ln[:400]))
        found = BAD_RE.findall(v.out)
        if len(found) != v.out.count('"BAD"') or len(OBS_RE.findall(v.out)) != v.out.count('"OBS"'):
            raise vf.Infra("could not parse every BAD / OBS line printed by %s" % spec)
        for x, why in found:
            bad.append((base + int(x), why))
        for d, x in OBS_RE.findall(v.out):
            obs.append((d, base + int(x)))
        os.remove(p)
    ck.states += n
    ck.note("validate %s against %s: %d events in %d shards, %.1fs, BAD=%d OBS=%d" % (
        os.path.basename(trace_path), spec, n, len(jobs), wall, len(bad), len(obs)))
    return lines, sorted(set(bad)), sorted(set(obs), key=lambda x: (x[1], x[0]))


def judge_lines(ck, spec, events, name="selftest", cfg=None):
    """validate a small list of event dicts; returns (set of BAD line numbers, list of (dev, line))"""
    p = os.path.join(ck.work, "%s_%s.ndjson" % (name, spec))
    with open(p, "w") as f:
        for e in events:
            f.write((e if isinstance(e, str) else json.dumps(e)) + "\n")
    v = vf.validate_trace(os.path.join(SPECDIR, spec + ".tla"), cfg or os.path.join(SPECDIR, spec + ".cfg"), p, tag=ck.prop + "_self", xmx="2g")
    if v.error or v.violated or not v.accepted:
        raise vf.Infra("self-test validation (%s): %s %s maxl=%d" % (spec, v.violated, (v.error or "")[-800:], v.maxl))
    if len(BAD_RE.findall(v.out)) != v.out.count('"BAD"') or len(OBS_RE.findall(v.out)) != v.out.count('"OBS"'):
        raise vf.Infra("could not parse every BAD / OBS line printed by %s" % spec)
    bad = {int(x) for x, _ in BAD_RE.findall(v.out)}
    obs = [(d, int(x)) for d, x in OBS_RE.findall(v.out)]
    return bad, obs


def selftest_oracle(ck, spec, good, corrupt, cfg=None):
    """`good` events must all be accepted silently, every `corrupt` event must be flagged BAD (oracle self-test,
    independent of the code under test); one TLC run over good + corrupt"""
    bad, obs = judge_lines(ck, spec, list(good) + list(corrupt), "selftest", cfg)
    g = len(good)
    if any(x <= g for x in bad) or any(x <= g for _, x in obs):
        raise vf.Infra("self-test: %s flags correct synthesised observations: BAD=%s OBS=%s" % (spec, sorted(x for x in bad if x <= g), obs))
    want = set(range(g + 1, g + len(corrupt) + 1))
    if bad != want:
        miss = sorted(want - bad)
        raise vf.Infra("self-test: %s accepted corrupted observations (lines %s): %s" % (
            spec, miss, "; ".join(json.dumps(corrupt[i - g - 1])[:200] for i in miss[:3])))
    ck.note("self-test: %s accepts %d synthesised correct events, rejects %d corrupted ones" % (spec, len(good), len(corrupt)))


def hexs(b):
    return bytes(b).hex() or "-"


def report_bad(ck, spec, lines, bad, case_of_line, limit=300):
    """group BAD lines by clause and report each group as one violation with a replay directory (cases.txt = the driver case
    lines, events.json = the recorded events)"""
    groups = defaultdict(list)
    for ln, why in bad:
        groups[why or "result not allowed by the Abs specification"].append(ln)
    for why, lns in sorted(groups.items()):
        name = re.sub(r"\W+", "_", "%s_%s" % (spec, why))[:70]
        evs = [lines[x - 1] for x in lns[:limit]]
        cases = [case_of_line(x) for x in lns[:limit]]
        rp = ck.save_replay(name, {"events.ndjson": "\n".join(evs) + "\n", "cases.txt": "\n".join(c for c in cases if c) + "\n",
                                   "why.txt": "%s: %s (%d events)\n" % (spec, why, len(lns))})
        ck.violation("%s: %s - %d event(s), e.g. %s" % (spec, why, len(lns), evs[0][:300]), rp)


def report_obs(ck, lines, obs, known, limit=3):
    """OBS lines: behaviour of a named, documented deviation -> note 'OBSERVATION ...' (the check stays green).
    A deviation name that is not in `known` (meta.json observations) is a violation."""
    by = defaultdict(list)
    for d, ln in obs:
        by[d].append(ln)
    for d, lns in sorted(by.items()):
        ex = "; ".join(lines[x - 1][:220] for x in lns[:limit])
        if d in known:
            ck.note("OBSERVATION %s: %d case(s) - %s  e.g. %s" % (d, len(lns), known[d], ex))
        else:
            rp = ck.save_replay("unknown_deviation_" + d, {"events.ndjson": "\n".join(lines[x - 1] for x in lns[:300]) + "\n"})
            ck.violation("deviation %s is not a documented observation (%d events), e.g. %s" % (d, len(lns), ex), rp)
    return by


def load_observations(prop):
    p = os.path.join(vf.ROOT, "checks", prop + ".meta.json")
    if not os.path.exists(p):
        return {}
    m = json.load(open(p))
    return {o["id"]: o.get("what", "") for o in m.get("observations", []) if isinstance(o, dict) and "id" in o}
