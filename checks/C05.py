"""C05 — stopping or destroying a transport never strands, crashes or races.

1. TLC checks spec/transport/Teardown.tla (Impl of the fence / park-guard counters / wait-out gate) exhaustively:
   NoFreeWhileInside (the model-level form of "no use after free") and NoStuck.  Self-tests: dropping any one of the three
   counters from the gate must violate NoFreeWhileInside.
2. Programs in which receiveSync / connectSync / setReadMode callers are parked or in flight while another thread stops or
   destroys the transport (also: the sole owner releases it inside its own close callback) run on the real Transport over the
   scripted engine under seeded random schedules and preemption-bounded DFS; the same programs run again in AddressSanitizer
   and ThreadSanitizer builds of the driver (the scheduler itself is not instrumented, so its baton passing adds no
   happens-before edges).  Traces are validated against TransportTrace.tla: every call returns (never stuck), teardown
   results are clean errors, no callback starts after stop/destruction returned to a non-callback caller; a crashed or
   sanitizer-aborted execution is a violation.
3. The REAL TcpEngine and UdpEngine (plain and batched I/O loop): spec/transport/EngineShutdown.tla (Impl of enqueue / process /
   stop / shutdownDrain at critical-section grain; what does a command that races the shutdown get?) is model-checked - with
   each of its four deviation flags it must violate an invariant -, and programs with the same operations (connect, send,
   close, addListener, stop from one or two threads, stop/start cycles, the last owner letting go on an application thread or
   inside a callback) run on the real engines over loopback UNDER THE SCHEDULER: harness/vf/sched_io.cpp turns the I/O
   thread's epoll_wait and addListener's future wait into schedule points, so where the I/O thread stands inside process() /
   shutdownDrain() when a call arrives is chosen by the schedule (seeded random, random with unfair time-outs, DFS), again
   under ASan and TSan.  Traces are validated against EngineTrace.tla (every call returns; no callback after a stop()
   returned; calls begun afterwards fail; every identifier the application has seen is closed when stop() returns; no
   write() to a closed descriptor).
"""
import os, json, concurrent.futures as cf
import vf
from checks import transport_common as tc

SPECDIR = tc.SPECDIR


def nontrivial(evs):
    life = [i for i, e in enumerate(evs) if e["e"] == "LifeCall"]
    if not life:
        return False
    return any(e["e"] in ("RecvRet", "ConnRet", "ModeRet", "SendRet", "ListenRet") for e in evs[life[0]:])


PROGS = [
    # destruction while a receiver / connector / flusher is parked (they hold only a raw pointer)
    # (a thread that only holds a raw pointer must not BEGIN a call once destruction may have started: one call each)
    "8 | io=accept:1,waitflag:s,data:1:2 ; main=mode:1:sync,setflag:s,destroy ; a=waitflag:s,recv:1:1:100000 ; b=waitflag:s,mode:1:async",
    "8 | io=accept:1 ; main=mode:1:sync,destroy ; a=sleep:1,recv:1:4:100000 ; b=csync:100000",
    "8 | io=accept:1,accept:2,waitflag:s,data:1:3,data:2:2 ; main=mode:1:sync,mode:2:sync,setflag:s,destroy ; a=waitflag:s,recv:1:8:100000 ; b=waitflag:s,recv:2:8:100000",
    # stop while calls are parked / in flight; operations issued afterwards fail cleanly
    "8 | io=accept:1,waitflag:s,data:1:2 ; main=mode:1:sync,setflag:s,sleep:1,stop,recv:1:4:50,csync:20,send:1,listen,join ; a=waitflag:s,recv:1:4:100000,recv:1:4:100000",
    "8 | io=accept:1,connected:1 ; main=stop,join ; a=csync:100000,send:1 ; b=connect,close:1",
    "8 | io=accept:1,waitflag:s,data:1:2,data:1:2,data:1:2 ; main=mode:1:sync,setflag:s,stop,join ; a=waitflag:s,recv:1:1:100000,mode:1:async ; b=waitflag:s,listen,send:1",
    # stopped first, a receiver parks AFTERWARDS (polling again after PeerClosed), then the owner destroys the transport
    # (flag q: the owner does not begin the destruction before the receiver's FIRST call has returned - whichever way it went -,
    # so that the receiver never begins a call on an object whose destruction is under way: that would be the caller's bug)
    "8 | io=accept:1,close:1,setflag:c ; main=mode:1:sync,waitflag:c,stop,setflag:p,waitflag:q,destroy ; a=waitflag:p,recv:1:4:100000,setflag:q,recv:1:4:100000",
    "8 | io=accept:1 ; main=mode:1:sync,stop,setflag:p,waitflag:q,destroy ; a=waitflag:p,recv:1:4:100000,setflag:q,recv:1:4:100000 ; b=waitflag:p,csync:100000",
    # two stoppers
    "8 | io=accept:1 ; main=mode:1:sync,stop,join ; a=recv:1:4:100000 ; b=stop,recv:1:4:10",
    # the sole owner releases the transport inside its own close callback, with and without a parked receiver
    "8 | io=accept:1,waitflag:s,data:1:2,close:1 ; main=mode:1:sync,armreset,setflag:s",
    "8 | io=accept:1,waitflag:s,close:1 ; main=mode:1:sync,armreset,waitparked:a,setflag:s ; a=recv:1:4:100000",
    # the I/O thread finishes its current batch AFTER stop() was called (the real engines do): data for a parked reader arrives with
    # the teardown fence up and before the sessions are closed - it must still reach the reader (never PeerClosed with bytes missing)
    "8 | io=accept:1,waitflag:s,atstop,data:1:3 ; main=mode:1:sync,setflag:s,waitparked:a,destroy ; a=waitflag:s,recv:1:8:100000",
    "8 | io=accept:1,waitflag:s,data:1:2,atstop,data:1:3,data:1:1 ; main=mode:1:sync,setflag:s,waitparked:a,stop,join ; a=waitflag:s,recv:1:2:100000,recv:1:8:100000,recv:1:8:50",
    "8 | io=accept:1,accept:2,waitflag:s,atstop,data:2:2,data:1:3 ; main=mode:1:sync,mode:2:sync,setflag:s,waitparked:a,destroy ; a=waitflag:s,recv:1:8:100000 ; b=waitflag:s,recv:2:8:100000",
    # ... likewise an accept, a peer close and a late connect completion in the rest of the batch
    "8 | io=accept:1,waitflag:s,atstop,accept:2,data:2:2,close:1 ; main=mode:1:sync,setflag:s,waitparked:a,destroy ; a=waitflag:s,recv:1:8:100000",
    "8 | io=accept:1,waitflag:s,atstop,data:1:3,close:1 ; main=mode:1:sync,setflag:s,waitparked:a,destroy ; a=waitflag:s,recv:1:2:100000",
    "8 | io=waitflag:s,atstop,connected:1 ; main=setflag:s,waitparked:a,destroy ; a=csync:100000",
]


ENGINE_PROGS = [
    "main=listen,peer:1,peer:2,waitn:2,setflag:g,stop ; a=waitflag:g,send:1:10,close:1,send:2:5 ; b=waitflag:g,connect,send:0:3,close:0",
    "main=listen,setflag:g,connect,connect,stop ; a=waitflag:g,connect,send:0:4,close:0,connect ; b=waitflag:g,listen,connect",
    "main=listen,peer:1,waitn:1,setflag:g,psend:1:8,stop ; a=waitflag:g,stop ; b=waitflag:g,send:1:3,close:1",
    # (waitn counts every announcement since the beginning: the second cycle waits for ITS sessions and uses them, so that events
    # are dispatched on the descriptors the restarted engine has just been given)
    "main=listen,connect,waitn:2,setflag:g,stop,start,listen,connect,waitn:4,send:0:5,send:4:3,waitflag:h,stop ; a=waitflag:g,send:1:3,send:2:3,close:1,setflag:h",
    "main=listen,peer:1,connect,waitn:3,stop,start,listen,peer:2,connect,waitn:6,psend:2:4,send:0:6,close:0,stop,start,listen,connect,waitn:8,stop",
    # (both engines: a datagram / bytes ARRIVE on the second cycle's client socket - its descriptor number is a recycled one)
    "main=listen,connect,send:0:3,waitn:2,stop,start,listen,connect,send:0:3,waitn:4,send:4:2,send:0:2,spin:40,stop",
    # address queries (readers of the session map on application threads) against stop()'s clearing of the map
    "main=listen,connect,send:0:3,waitn:2,setflag:g,addr:1,stop ; a=waitflag:g," + ",".join(["addr:1", "addr:2"] * 8) + " ; b=waitflag:g," + ",".join(["addr:2", "addr:1"] * 8),
    "main=listen,peer:1,waitn:1,cbdrop,psend:1:4",
    "main=listen,peer:1,peer:2,waitn:2,cbdrop,pclose:1",
    "main=listen,connect,waitn:1,setflag:g,drop ; a=waitflag:g,send:1:5,close:2,drop ; b=waitflag:g,connect,drop",
    "main=listen,setflag:g,stop ; a=waitflag:g,listen,connect,listen ; b=waitflag:g,connect,stop,connect,send:0:2",
    # stop() from inside the transport's own close callback, alone and while other threads' stop() calls are joining the I/O thread
    "main=listen,peer:1,waitn:1,cbstop,stop",
    "main=listen,peer:1,peer:2,waitn:2,cbstop,setflag:g,stop ; a=waitflag:g,stop",
    # blocked synchronous calls on the real engine while another thread stops it
    "main=listen,setflag:g,csync:100000,send:0:5,stop ; a=waitflag:g,csync:100000,close:0 ; b=waitflag:g,csync:50:dead",
    "main=listen,peer:1,waitn:1,mode:1:sync,setflag:g,psend:1:6,stop ; a=waitflag:g,recv:1:4:100000,recv:1:4:100000",
    "main=listen,peer:1,waitn:1,mode:1:sync,setflag:g,stop ; a=waitflag:g,recv:1:4:100000 ; b=waitflag:g,csync:100000,mode:0:sync,recv:0:2:50",
]
# the programs of EngineShutdown.tla: Prog[t] per thread
ENGINE_MODELS = [
    {"a": ["connect", "stop"], "b": ["connect", "listen", "send", "stop"]},
    {"a": ["listen", "connect"], "b": ["stop", "connect"], "c": ["send", "stop"]},
]
ENGINE_DEVS = {"Dev_ResidualConnectDropped": "StopClosesAll", "Dev_ResidualListenDropped": "NoStrandedListen",
               "Dev_CloseFdOutsideLock": "NoBadWrite", "Dev_StopLoserReturnsEarly": "StopClosesAll"}
ENGINE_ACTIONS = ["Enq", "ListenDone", "StopCas", "StopEnq", "StopJoin", "Wake", "Exec", "BatchEnd", "DrainSwap", "DrainEnd",
                  "CloseSessions", "CloseQueue", "Residual"]


def engine_nontrivial(evs):
    stop = [i for i, e in enumerate(evs) if e["e"] == "LifeCall" and e.get("op") in ("stop", "destroy")]
    return bool(stop) and any(e["e"] in ("ConnRet", "SendRet", "CloseRet", "ListenRet", "Close", "SyncConnRet", "RecvRet") for e in evs[stop[0]:])


def engine_part(ck, thorough):
    tla_path = os.path.join(SPECDIR, "EngineShutdown.tla")
    jobs = []
    for mi, progs in enumerate(ENGINE_MODELS if thorough else ENGINE_MODELS[:2]):
        d = os.path.join(ck.work, "engine_m%d" % mi)
        os.makedirs(d, exist_ok=True)
        with open(os.path.join(d, "MCEngineShutdown.tla"), "w") as f:
            f.write("---- MODULE MCEngineShutdown ----\nEXTENDS EngineShutdown\nMCThreads == %s\nMCProg == %s\n====\n" % (
                vf.tla(set(progs)), " @@ ".join("(%s :> %s)" % (vf.tla(t), vf.tla(tuple(ops))) for t, ops in sorted(progs.items()))))
        for dev in [None] + (list(ENGINE_DEVS) if mi == 0 else []):
            consts = {"Threads": "<- MCThreads", "Prog": "<- MCProg"}
            for fl in ENGINE_DEVS:
                consts[fl] = fl == dev
            cfg = os.path.join(d, "MC_%s.cfg" % (dev or "code"))
            vf.write_cfg(cfg, constants=consts, invariants=["NoBadWrite", "NoCallbackAfterStop", "StopClosesAll", "NoStrandedListen", "NoStuck"],
                         spec="FairSpec", properties=["Terminates"] if dev is None else [])
            jobs.append((mi, dev, os.path.join(d, "MCEngineShutdown.tla"), cfg))

    def go(job):
        mi, dev, m, cfg = job
        return job, vf.run_tlc(m, cfg, tag="C05_eng%d_%s" % (mi, dev or "code"), workers=2, coverage=dev is None, timeout=900, lib_dirs=[SPECDIR])
    with cf.ThreadPoolExecutor(max_workers=5) as ex:
        res = list(ex.map(go, jobs))
    cov = {}
    for (mi, dev, m, cfg), r in res:
        if r.error:
            raise vf.Infra("TLC failed on EngineShutdown m%d %s: %s" % (mi, dev, r.error))
        ck.states += r.distinct
        ck.transitions += r.generated
        if dev:
            if r.violated != ENGINE_DEVS[dev]:
                raise vf.Infra("self-test: EngineShutdown.tla with %s should violate %s, got %r" % (dev, ENGINE_DEVS[dev], r.violated))
            continue
        for a, (tk, gn) in r.coverage.items():
            cov[a] = cov.get(a, 0) + gn
        ck.note("EngineShutdown.tla program %d: %s" % (mi, r.summary()))
        if r.violated:
            rp = ck.save_replay("impl_engine_%d" % mi, {"tlc.out": r.out})
            ck.violation("EngineShutdown.tla (the design the engines follow) violates %s" % r.violated, rp)
    for a in ENGINE_ACTIONS:
        if cov.get(a, 0) == 0:
            raise vf.Infra("self-test: EngineShutdown action %s never taken" % a)
        ck.cov["Engine." + a] = cov[a]
    ck.make(tc.ENGINE_DRV, tc.ENGINE_DRV + ".asan", tc.ENGINE_DRV + ".tsan")
    kw = dict(drv=tc.ENGINE_DRV, spec="EngineTrace")
    n = 40 if thorough else 10
    lines = []
    for proto in ("tcp", "udp", "tcpb", "udpb"):
        for pi, p in enumerate(ENGINE_PROGS):
            for k in range(n if proto in ("tcp", "udp") else max(2, n // 3)):
                lines.append("%s | %s | %s %d" % (proto, p, "random" if k % 3 else "randomt", ck.seed * 7001 + pi * 131 + k))
    tc.run_cases(ck, lines, "engine_random", engine_nontrivial, **kw)
    tc.run_cases(ck, lines[::3], "engine_asan", engine_nontrivial, variant=".asan", **kw)
    tc.run_cases(ck, lines[1::3], "engine_tsan", engine_nontrivial, variant=".tsan", **kw)
    # (the address-query program more often under TSan: a query has to fall between the I/O thread's last lock operation and
    # stop()'s join for an unlocked access of the teardown to be unordered with it - about one schedule in three)
    alines = ["%s | %s | %s %d" % (proto, ENGINE_PROGS[6], "random" if k % 3 else "randomt", ck.seed * 7013 + k)
              for proto in ("tcp", "udp", "tcpb") for k in range((60 if thorough else 16) if proto == "tcp" else (20 if thorough else 6))]
    tc.run_cases(ck, alines, "engine_tsan_addr", engine_nontrivial, variant=".tsan", **kw)
    for j, (proto, pi) in enumerate([("tcp", 1), ("udp", 10), ("tcp", 15)] if not thorough else [("tcp", 1), ("udp", 10), ("tcp", 15), ("tcp", 2), ("tcpb", 0), ("udp", 3), ("tcp", 10), ("udp", 12), ("tcp", 13), ("tcp", 14), ("tcp", 4), ("udp", 5), ("tcp", 6)]):
        tc.run_dfs(ck, "%s | %s" % (proto, ENGINE_PROGS[pi]), 1 if not thorough else 2, 5000 if thorough else 500, "engine_dfs%d" % j, engine_nontrivial, **kw)


def run(ck):
    thorough = ck.tier == "thorough"
    ck.make(tc.DRV, tc.DRV + ".asan", tc.DRV + ".tsan")
    ck.rule = ("programs = blocked/in-flight receiveSync, connectSync, setReadMode, send, close, addListener calls x stop / destroy / "
               "destroy-inside-callback, each under seeded random schedules and preemption-bounded DFS of the real Transport, "
               "again under ASan and TSan; non-trivial = some call returned after teardown began")
    tla_path = os.path.join(SPECDIR, "Teardown.tla")
    base = {"Recv": "{r1, r2}", "Conn": "{c1}", "Flush": "{f1}", "CountRecv": True, "CountConn": True, "CountFlush": True}
    if thorough:
        base.update({"Conn": "{c1, c2}", "Flush": "{f1, f2}"})
    jobs = [("code", {})] + [("no" + k, {k: False}) for k in ("CountRecv", "CountConn", "CountFlush")]

    def go(job):
        name, over = job
        c = dict(base); c.update(over)
        cfg = os.path.join(ck.work, name + ".cfg")
        vf.write_cfg(cfg, constants=c, invariants=["NoFreeWhileInside", "NoStuck"])
        return job, vf.run_tlc(tla_path, cfg, tag="C05_" + name, workers=3, coverage=not over, timeout=900)
    with cf.ThreadPoolExecutor(max_workers=4) as ex:
        res = list(ex.map(go, jobs))
    for (name, over), r in res:
        if r.error:
            raise vf.Infra("TLC failed on Teardown %s: %s" % (name, r.error))
        ck.states += r.distinct
        ck.transitions += r.generated
        if over:
            if r.violated != "NoFreeWhileInside":
                raise vf.Infra("self-test: Teardown.tla %s should violate NoFreeWhileInside, got %r" % (name, r.violated))
            continue
        for a, (tk, gn) in r.coverage.items():
            ck.cov[a] = ck.cov.get(a, 0) + gn
        ck.note("Teardown.tla: %s" % r.summary())
        if r.violated:
            rp = ck.save_replay("impl_teardown", {"tlc.out": r.out})
            ck.violation("Teardown.tla (the design the code follows) violates %s" % r.violated, rp)
    for a in ["Enter", "Wake", "FlushStep", "DFence", "DStop", "DFree"]:
        if ck.cov.get(a, 0) == 0:
            raise vf.Infra("self-test: Teardown action %s never taken" % a)
    nsched = 150 if thorough else 30
    lines = []
    for i, p in enumerate(PROGS):
        for k in range(nsched):
            lines.append("%s | random %d" % (p, ck.seed * 99991 + i * 733 + k))
    tc.run_cases(ck, lines, "random", nontrivial)
    # sanitizer builds on a share of the same cases
    tc.run_cases(ck, lines, "asan", nontrivial, variant=".asan")
    tc.run_cases(ck, lines if thorough else lines[::2], "tsan", nontrivial, variant=".tsan")
    # destruction while a connectSync that timed out is closing its attempt (counted by the gate, in flight): everything it
    # still touches must be touched under the lock - ThreadSanitizer build, DFS over the overlap
    tc.run_dfs(ck, "8 | io=accept:1 ; main=waitlast:a,destroy ; a=csync:1", 2, 4000 if thorough else 600, "tsandfs_csync", nontrivial, variant=".tsan")
    # preemption-bounded DFS with the AddressSanitizer build for the destruction programs (a use after free in the plain
    # build often goes unnoticed)
    for j, p in enumerate(PROGS[:3] if thorough else PROGS[:2]):
        tc.run_dfs(ck, p, 1, 4000 if thorough else 700, "asandfs%d" % j, nontrivial, variant=".asan")
    # destruction while a Sync->Async flush is handing bytes over on an application thread (the flusher is counted by the gate;
    # what it touches after its last critical section must still be alive).  Under ASan the scheduler also asks the runtime
    # whether the mutex / condition variable an operation is performed on lies in freed memory.
    tc.run_dfs(ck, "8 | io=accept:1,data:1:2,setflag:s ; main=mode:1:sync,waitflag:s,setflag:g,destroy ; b=waitflag:g,mode:1:async", 2,
               8000 if thorough else 1500, "asandfs_flush", nontrivial, variant=".asan")
    # real engines (TCP and UDP): two concurrent stop() calls while three sessions are open
    ck.make("drv_stoprace")
    for proto in ("tcp", "udp"):
        for rep in range(3 if thorough else 1):
            outp = os.path.join(ck.work, "stoprace_%s_%d.ndjson" % (proto, rep))
            rc, out = vf.run_driver("drv_stoprace", [proto, outp], timeout=120)
            if rc != 0:
                raise vf.Infra("drv_stoprace %s could not set its scenario up (rc=%d): %s" % (proto, rc, out[-500:]))
            ck.evaluations += 1
            v = ck.validate(os.path.join(SPECDIR, "StopTrace.tla"), os.path.join(SPECDIR, "StopTrace.cfg"), outp)
            if not v.accepted:
                evs = vf.read_ndjson(outp)
                rp = ck.save_replay("stoprace_" + proto, {"trace.ndjson": outp, "case.txt": "stoprace %s\n" % proto})
                ck.classify({"spec": "StopTrace", "proto": proto}, "real %s engine: %s" % (proto, json.dumps(evs[v.maxl - 1]) if v.maxl <= len(evs) else "?"), rp)
    for j, p in enumerate(PROGS[:2] + PROGS[3:4] if not thorough else PROGS):
        tc.run_dfs(ck, p, 1 if not thorough else 2, 12000 if thorough else 1500, "dfs%d" % j, nontrivial)
    engine_part(ck, thorough)


def replay(ck, path):
    tc.replay(ck, path, nontrivial)
