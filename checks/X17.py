"""X17 (extra, not registered in MANIFEST.json) - iora::parsers::Mustache (include/iora/parsers/mustache.hpp;
tests/web/test_mustache.cpp).

  1. spec/extra/MustacheData.tla fixes the vocabulary (template lexemes with their text, a data context with every JSON kind,
     partials incl. recursive / malformed / multi-line ones); spec/extra/MustacheOps.tla is a mustache EVALUATOR in TLA+
     (tokenizer errors, standalone lines, balance, name resolution over the context stack, truthiness, escaping, partials with
     indentation and laziness, depth limit).  spec/extra/Mustache.tla is the generator: its states are ALL templates of up
     to MaxLen lexemes per family (hopeless prefixes are cases but are not extended), plus TLC simulation walks for long
     standalone / partial layouts.  Invariants: BalanceAgrees (balance by reduction = the evaluator's stack scan), the laws
     LiteralCopied / ErrorIsClean asserted by Emit2, and Refines under each deviation (self-test: TLC must report the slip).
  2. every state is a case: harness/drv_mustache.cpp (ASan+UBSan, template on an exact-size heap block) renders it twice with
     the real engine against the same data / partials (built from the tables TLC prints) and records outcome, text, the
     partial names asked of the resolver, mutation of the data.
  3. TLC validates the events against spec/extra/MustacheTrace.tla: the oracle re-evaluates every template with
     MustacheOps!Eval and checks that the template text is the text of its lexemes.
"""
import os, re, json, concurrent.futures as cf
import vf
from checks import xtext_common as xc

SPECDIR = xc.SPECDIR
DEVS = ["Dev_CrlfBlankIndented", "Dev_NoEscape", "Dev_EscapeRaw", "Dev_ZeroFalsy", "Dev_EmptyArrayTruthy", "Dev_NoIndent", "Dev_NoStandalone", "Dev_DepthOffByOne",
        "Dev_CloseNotChecked", "Dev_InnermostOnly", "Dev_PartialEager"]
INVS = ["Refines", "BalanceAgrees"]
# the evaluator recurses as deep as the templates nest: large thread stacks
JVM = {"JAVA_TOOL_OPTIONS": "-Xss256m -Xmx4g -XX:ParallelGCThreads=2 -DTLA-Library=%s" % os.pathsep.join([os.path.join(vf.SPEC, "common"), SPECDIR])}
JVMV = {"JAVA_TOOL_OPTIONS": JVM["JAVA_TOOL_OPTIONS"] + " -Dtlc2.tool.queue.IStateQueue=StateDeque"}
# family name, alphabet, resolvers, MaxLen quick, MaxLen thorough
CONFIGS = [
    ("interp", ["X", "Y", "Vs", "Vsp", "Vq", "Vk", "Vos", "Voz", "Vso", "Vozs", "Vzz", "Vdot", "Vi", "Vm", "Vd", "Vg", "Vt", "Vf", "Vn", "Ve", "Va",
                "Vo", "Vnil", "Rq", "Rqsp", "Aq", "Aqsp", "Rdot", "Ri", "RB", "LB"], [True], 2, 3),
    ("sections", ["Oo", "Co", "Oa", "Ca", "Ia", "Ol", "Cl", "Vs", "Vk", "Vt", "Vdot", "X"], [True], 4, 5),
    ("truthy", ["Ot", "Ct", "Of", "Cf", "On", "Cn", "Oz", "Cz", "Oi", "Ci", "Oe", "Ce", "Os", "Cs", "Ozz", "Czz", "X", "Vdot"], [True], 3, 4),
    ("inverted", ["It", "Ct", "If", "Cf", "In", "Cn", "Iz", "Cz", "Ii", "Ci", "Ie", "Ce", "Izz", "Czz", "Io", "Co", "Ia", "Ca", "Iozz", "Cozz", "X", "Vs"],
     [True], 3, 4),
    ("dotted", ["Ool", "Col", "Oosp", "Cosp", "Oo", "Co", "Vdot", "Rdot", "Vs", "Vt", "X", "Iozz", "Cozz"], [True], 3, 4),
    ("standalone", ["SP", "W2", "NL", "CRNL", "X", "Oo", "Co", "K1", "K3", "Vs", "Ia", "Ca"], [True], 3, 5),
    ("comments", ["K1", "K2", "K3", "K4", "X", "SP", "NL", "Vs", "RB"], [True], 3, 4),
    ("partials", ["Pp", "Ppsp", "Pm", "Pmm", "Pmmc", "Psec", "Pout", "Prec", "Pmut", "Pno", "Pbad", "SP", "W2", "NL", "X", "Of", "Cf", "If"], [True], 3, 4),
    ("noresolver", ["Pp", "Pno", "X", "Of", "Cf", "If", "NL"], [False], 3, 4),
    ("errors", ["B1", "B2", "B3", "B4", "SD", "X", "Vs", "Oo", "Co", "RB", "LB", "K4", "Rq"], [True], 3, 4),
    ("depth", ["D99", "D100", "D101", "Of", "Cf", "Ot", "Ct", "Pdp", "Pd99", "X", "If"], [True], 3, 4),
]
NOERR = ("interp", "comments")       # families without any structural lexeme: no error case expected
SIM = ("layout", ["SP", "W2", "NL", "CRNL", "X", "Oo", "Co", "K1", "K3", "Vs", "Pp", "Pm", "Pmm", "Pmmc", "Psec", "Pout", "Ia", "Ca", "Ot", "Ct"], [True], 10)


def mc(ck, name, families, emit=True, tables=False, devinv=False, flag=None):
    """generated MC module + cfg; families: list of (name, alphabet, resolvers, maxlen)"""
    fams = ", ".join("%s |-> [a |-> %s, n |-> %d, r |-> %s]" % (n, vf.tla(set(a)), m, vf.tla(set(r))) for n, a, r, m in families)
    defs = ["MCFamilies == [%s]" % fams]
    if tables:
        defs.append("ASSUME PrintT(ToJson(Tables))")
    invs = INVS + (["Emit2"] if emit else [])
    if devinv:
        # Refines under each single deviation as separate invariants: ONE TLC run (-continue) shows all of them violated
        for d in DEVS:
            defs.append('Inv_%s == Eval(lex, res, {"%s"}) = Eval(lex, res, {})' % (d, d[4:]))
        invs = ["Inv_" + d for d in DEVS]      # TLC reports the FIRST violated invariant of a state: order matters (CrlfBlank < NoIndent < NoStandalone)
    mod = xc.write_mc(ck, "MCM_" + name, "Mustache", defs)
    cfg = os.path.join(ck.work, "MCM_%s.cfg" % name)
    c = {"Families": "<- MCFamilies", "MaxHeavy": 1}
    for d in DEVS:
        c[d] = (d == flag)
    vf.write_cfg(cfg, constants=c, invariants=invs)
    return mod, cfg


def dev_selftest(ck):
    """every deviation must make TLC report a violation of Refines on a small family that contains a witness for each
    (one TLC run with -continue: the invariant Inv_Dev_X is Refines with F = {X}).  The thorough tier additionally sets each CONSTANT Dev_* flag TRUE in its own run."""
    mod, cfg = mc(ck, "dev", [("devA", ["Vq", "Rq", "D100", "Pm", "Pmmc", "W2"], [True], 2),
                              ("devB", ["Oi", "Ci", "X", "Iz", "Cz", "Oo", "Co", "NL", "Ca", "Vk", "Of", "Pno", "Cf"], [True], 3)], devinv=True)
    r = vf.run_tlc(mod, cfg, tag="X17_dev", workers=1, timeout=900, lib_dirs=[SPECDIR], env=JVM, extra=["-continue"])
    hit = set(re.findall(r"Invariant Inv_(Dev_\w+) is violated", r.out))
    if hit != set(DEVS):
        raise vf.Infra("self-test: deviations not caught by TLC: %s (%s)" % (sorted(set(DEVS) - hit), (r.out or "")[-600:]))
    # coverage (expensive with deep recursion, hence on the small static configuration): the generator's action is taken
    rc, _ = xc.run_gen(ck, os.path.join(SPECDIR, "MCMustache.tla"), os.path.join(SPECDIR, "MCMustache.cfg"), "cov", "Mustache.", ["Next"],
                       workers=1, invariant_is_violation=False, env=JVM)
    if ck.tier == "thorough":
        fams = [("devA", ["Vq", "Rq", "D100", "Pm", "Pmmc", "W2"], [True], 2),
                ("devB", ["Oi", "Ci", "X", "Iz", "Cz", "Oo", "Co", "NL", "Ca", "Vk", "Of", "Pno", "Cf"], [True], 3)]
        jobs = []
        for d in DEVS:
            m2, c2 = mc(ck, "flag_" + d, fams, emit=False, flag=d)
            jobs.append((d, m2, c2, ("Refines",)))
        xc.dev_selftests(ck, jobs, parallel=2, env=JVM)
    return "each of %d deviations makes TLC report a violation of Refines (%s); coverage run: action Next taken %d times" % (
        len(DEVS), ", ".join(DEVS), rc.coverage["Next"][1])


def plain_json(v):
    """tagged value of MustacheData -> JSON text"""
    t = v["t"]
    if t == "str":
        return json.dumps(v["v"])
    if t in ("int", "dbl"):
        return v["v"]
    if t == "bool":
        return "true" if v["v"] else "false"
    if t == "null":
        return "null"
    if t == "arr":
        return "[" + ",".join(plain_json(x) for x in v["v"]) + "]"
    return "{" + ",".join(json.dumps(k) + ":" + plain_json(x) for k, x in v["v"].items()) + "}"


def esc5(s):
    return s.replace("&", "&amp;").replace("<", "&lt;").replace(">", "&gt;").replace('"', "&quot;").replace("'", "&#39;")


def walk_strings(v):
    if v["t"] == "str":
        yield v
    elif v["t"] == "arr":
        for x in v["v"]:
            yield from walk_strings(x)
    elif v["t"] == "obj":
        for x in v["v"].values():
            yield from walk_strings(x)


def check_tables(t):
    """cross-check the internal consistency of the vocabulary TLC printed (set-up, infrastructure only)"""
    for s in walk_strings(t["data"]):
        if s["esc"] != esc5(s["v"]):
            raise vf.Infra("MustacheData: escaped form of %r is %r, expected %r" % (s["v"], s["esc"], esc5(s["v"])))
    pat = {"var": r"\{\{ ?%s ?\}\}$", "open": r"\{\{# ?%s ?\}\}$", "inv": r"\{\{\^ ?%s ?\}\}$", "close": r"\{\{/ ?%s ?\}\}$", "partial": r"\{\{> ?%s ?\}\}$"}
    for name, x in t["lexemes"].items():
        k, txt, nm = x["k"], x["txt"], x["nm"]
        ok = True
        if k in pat:
            ok = re.match(pat[k] % re.escape(nm), txt) is not None
        elif k == "raw":
            ok = re.match(r"\{\{\{ ?%s ?\}\}\}$" % re.escape(nm), txt) is not None or re.match(r"\{\{& ?%s ?\}\}$" % re.escape(nm), txt) is not None
        elif k == "comment":
            ok = txt.startswith("{{!") and txt.endswith("}}") and "}}" not in txt[2:-2]
        elif k == "text":
            ok = "{{" not in txt and not re.search(r"\s", txt) and not txt.endswith("{")
        elif k == "ws":
            ok = txt != "" and set(txt) <= {" ", "\t"}
        elif k == "nl":
            ok = txt in ("\n", "\r\n")
        elif k == "broken":
            ok = txt.startswith("{{") and ("}}" not in txt[2:] or (txt.startswith("{{{") and "}}}" not in txt))
        if k in ("var", "raw", "open", "inv", "close") and nm != "." and ".".join(x["path"]) != nm:
            ok = False
        if not ok:
            raise vf.Infra("MustacheData: lexeme %s (%s) has text %r inconsistent with its kind / name %r" % (name, k, txt, nm))


def write_setup(ck, t):
    setup = os.path.join(ck.work, "setup.txt")
    with open(setup, "w") as f:
        f.write("D %s\n" % plain_json(t["data"]).encode().hex())
        for name, text in t["partials"].items():
            f.write("P %s %s\n" % (name, text.encode().hex() or "-"))
    return setup


def generate(ck, thorough):
    fams = [(n, a, r, th if thorough else q) for n, a, r, q, th in CONFIGS]
    mod, cfg = mc(ck, "gen", fams, tables=True)
    r = vf.run_tlc(mod, cfg, tag="X17_gen", workers=4, timeout=2400, lib_dirs=[SPECDIR], env=JVM)
    if r.error:
        raise vf.Infra("TLC failed on Mustache.tla: %s" % r.error)
    prints = xc.tlc_json_prints(r)
    tabs = [p for p in prints if "lexemes" in p]
    if not tabs:
        raise vf.Infra("TLC did not print the tables of MustacheData")
    check_tables(tabs[0])
    cases = [p for p in prints if "lexemes" not in p]
    if not r.violated and (len(cases) > r.distinct or len(cases) < r.distinct // 20):
        raise vf.Infra("generator: %d case lines for %d states" % (len(cases), r.distinct))
    return r, cases, {n: m for n, a, rr, m in fams}, tabs[0]


def with_jvm(fn):
    """run fn with vf.validate_trace using the deep-recursion JVM options"""
    old = vf.validate_trace
    vf.validate_trace = lambda m, c, tr, **kw: old(m, c, tr, **dict(kw, env=JVMV))
    try:
        return fn()
    finally:
        vf.validate_trace = old


def drive_and_judge(ck, tag, lines_in, setup):
    cp = os.path.join(ck.work, tag + ".cases")
    op = os.path.join(ck.work, tag + ".ndjson")
    open(cp, "w").write("\n".join(lines_in) + "\n")
    n, crashed, hung = xc.run_drv("drv_mustache.asan", cp, op, batch=400, parallel=8, extra=[setup])
    lines, bad, obs = with_jvm(lambda: xc.validate_sharded(ck, "MustacheTrace", op, nshards=4))
    if len(lines) != len(lines_in):
        raise vf.Infra("drv_mustache: %d events for %d cases" % (len(lines), len(lines_in)))
    ck.evaluations += len(lines)
    ck.traces += len(lines) - len({ln for ln, _ in bad})
    if crashed or hung:
        ck.note("driver: %d crashed, %d hung; sanitizer output: %s" % (crashed, hung, xc.worker_stderr(op, 1500)))
    xc.report_bad(ck, "MustacheTrace", lines, bad, lambda ln: lines_in[ln - 1])
    by = xc.report_obs(ck, lines, obs, xc.load_observations("X17"), limit=1)
    return lines, bad, {ln for lns in by.values() for ln in lns}


def run(ck):
    thorough = ck.tier == "thorough"
    ck.make("drv_mustache.asan")
    ck.rule = ("cases = ALL states of Mustache.tla per lexeme family (interpolation, sections, truthiness, inverted, dotted names, standalone "
               "lines, comments, partials with and without resolver, tokenizer errors, nesting depth 99/100/101): every lexeme sequence up to "
               "MaxLen (quick 2-4, thorough 3-5; a hopeless prefix is a case but is not extended; merely unclosed templates only up to 2 "
               "lexemes) + TLC simulation walks of 10 lexemes over the layout alphabet; expected outcome / text / resolver calls by "
               "MustacheOps!Eval. Non-trivial = the template contains a tag")
    bg = cf.ThreadPoolExecutor(max_workers=1)
    devf = bg.submit(dev_selftest, ck)
    r, allcases, maxlens, t = generate(ck, thorough)
    if r.violated:
        rp = ck.save_replay("impl_spec", {"tlc.out": r.out[-30000:]})
        ck.violation("Mustache.tla violates its invariant %s" % r.violated, rp)
        ck.note("self-test: " + devf.result())
        return
    lexemes = t["lexemes"]
    setup = write_setup(ck, t)
    ck.states += r.distinct
    ck.transitions += r.generated
    gen_summary = r.summary()
    cases, stats, seen = [], {}, set()
    for name, alphabet, resolvers, q, th in CONFIGS:
        cs = [c for c in allcases if c["fam"] == name]
        nerr = sum(1 for c in cs if c["err"])
        used = {x for c in cs for x in c["lex"]}
        if not cs or (nerr == 0 and name not in NOERR) or nerr == len(cs):
            raise vf.Infra("generator family %s is vacuous: %d cases, %d errors" % (name, len(cs), nerr))
        if used != set(alphabet):
            raise vf.Infra("generator family %s never used the lexemes %s" % (name, sorted(set(alphabet) - used)))
        stats[name] = (len(cs), nerr, maxlens[name])
        ck.cov["Emit[%s]" % name] = len(cs)
        for c in cs:
            key = (tuple(c["lex"]), c["res"])
            if key not in seen:
                seen.add(key)
                cases.append(c)
    # long layouts: random walks drawn by TLC in simulation mode
    name, alphabet, resolvers, depth = SIM
    mod, cfg = mc(ck, name, [(name, alphabet, resolvers, depth)])
    r = vf.run_tlc(mod, cfg, tag="X17_sim", workers=2, timeout=900, lib_dirs=[SPECDIR], env=JVM,
                   simulate="num=%d" % (1500 if thorough else 300), depth=depth + 1, seed=ck.seed)
    if r.error or r.violated:
        raise vf.Infra("TLC simulation on Mustache.tla failed: %s %s" % (r.violated, (r.error or "")[-600:]))
    sims = sorted(xc.tlc_json_prints(r), key=lambda c: (c["lex"], c["res"]))
    ck.rng.shuffle(sims)
    nsim = 0
    for c in sims:
        if nsim >= (12000 if thorough else 2500):
            break
        key = (tuple(c["lex"]), c["res"])
        if key not in seen:
            seen.add(key)
            cases.append(c)
            nsim += 1
    if nsim < 50:
        raise vf.Infra("simulation produced only %d new templates" % nsim)
    stats[name] = (nsim, sum(1 for c in cases if c["fam"] == name and c["err"]), depth)
    ck.note("Mustache.tla: %s; %d distinct templates; per family (cases, errors, MaxLen): %s" % (gen_summary, len(cases), stats))
    ck.rng.shuffle(cases)        # spreads the expensive (deep / recursive) templates over the validation shards

    def text_of(c):
        return "".join(lexemes[x]["txt"] for x in c["lex"])
    lines_in = ["T %d %s %s" % (1 if c["res"] else 0, ",".join(c["lex"]) or "-", text_of(c).encode().hex() or "-") for c in cases]
    lines, bad, obsset = drive_and_judge(ck, "mustache", lines_in, setup)
    badset = {ln for ln, _ in bad}
    predicted = {k for k, c in enumerate(cases, 1) if c.get("dev")}
    if not predicted:
        raise vf.Infra("no generated template is sensitive to the documented deviation Dev_CrlfBlankIndented")
    if predicted - obsset - badset:
        ck.note("documented deviation Dev_CrlfBlankIndented NOT reproduced on %d of %d sensitive templates (engine changed?)" % (
            len(predicted - obsset - badset), len(predicted)))
    drift = 0
    for k, (c, ln) in enumerate(zip(cases, lines), 1):
        if k in badset or k in obsset:
            continue
        e = json.loads(ln)
        if e["e"] == "Render" and (e["ok"] == c["err"] or (e["ok"] and e["out"] != c["out"])):
            drift += 1
    if drift:
        ck.note("model drift: %d events accepted by the oracle differ from the generator's prediction" % drift)
    ck.nontrivial = len({text_of(c) for c in cases if any(lexemes[x]["k"] not in ("text", "ws", "nl") for x in c["lex"])})
    ck.exhaustive = True
    ck.assumptions.append("bounds: templates of up to MaxLen lexemes per family over the fixed vocabulary / data context / partial table of "
                          "MustacheData.tla; lambdas and set-delimiters are not part of this engine")
    for pick in (lambda c: c["fam"] == "layout" and not c["err"] and c["calls"], lambda c: c["fam"] == "sections" and not c["err"] and len(c["out"]) > 3,
                 lambda c: c["fam"] == "depth" and c["err"] and "D100" in c["lex"], lambda c: c["fam"] == "partials" and c["err"] and c["calls"]):
        for c in cases:
            if pick(c):
                ck.sample({"family": c["fam"], "template": text_of(c)[:160], "error": c["err"], "out": c["out"][:120], "resolver calls": c["calls"][:6]})
                break

    # oracle self-test on synthesised events
    def ev(lex, ok, out, calls=(), res=True, exc=None, tmpl=None, **kw):
        d = dict(e="Render", lex=lex, res=res, tmpl=tmpl if tmpl is not None else "".join(lexemes[x]["txt"] for x in lex), ok=ok,
                 exc=exc or ("none" if ok else "mustache"), out=out, calls=list(calls), mut=False, again=True)
        d.update(kw)
        return d
    good = [ev(["Vq", "Rq"], True, "a&amp;b&lt;c&gt;&quot;d&#39;a&b<c>\"d'"), ev(["Oa", "Vs", "Vk", "Ca"], True, "1KS2"), ev(["Oi", "X", "Ci"], True, "x"),
            ev(["Iz", "X", "Cz"], True, "x"), ev(["Oo", "NL", "X", "NL", "Co", "NL"], True, "x\n"), ev(["W2", "Pm"], True, "  S\n  K\n", ["m"]),
            ev(["Of", "Pno", "Cf"], True, ""), ev(["Pno"], False, "", ["nope"]), ev(["Pp"], False, "", [], res=False), ev(["Oo", "Ca"], False, ""),
            ev(["D100"], True, "x"), ev(["D101"], False, ""), ev(["Pd99"], True, "x", ["d99"]), ev(["Pdp"], False, "", ["dp"]),
            ev(["Oo", "Vt", "Vk", "Co"], True, "K"), ev(["B1"], False, ""), ev(["SD", "X"], False, "")]
    corrupt = [ev(["Vq"], True, "a&b<c>\"d'"), ev(["Rq"], True, "a&amp;b&lt;c&gt;&quot;d&#39;"), ev(["Oi", "X", "Ci"], True, ""), ev(["Iz", "X", "Cz"], True, ""),
               ev(["Oo", "NL", "X", "NL", "Co", "NL"], True, "\nx\n\n"), ev(["W2", "Pm"], True, "  S\nK\n", ["m"]), ev(["Of", "Pno", "Cf"], False, "", ["nope"]),
               ev(["Of", "Pno", "Cf"], True, "", ["nope"]), ev(["Oo", "Ca"], True, ""), ev(["D100"], False, ""), ev(["D101"], True, "x"),
               ev(["Pdp"], True, "x", ["dp"]), ev(["Oo", "Vk", "Co"], True, ""), ev(["Oo", "Vt", "Co"], True, "true"), ev(["B1"], True, "{{s"),
               ev(["Vs"], True, "S", mut=True), ev(["Vs"], True, "S", again=False), ev(["Vs"], False, "", exc="other"),
               ev(["Vs"], True, "S", tmpl="{{k}}"), ev(["Prec"], True, "x" * 101, ["rec"] * 101), dict(e="Crashed", k=1)]
    with_jvm(lambda: xc.selftest_oracle(ck, "MustacheTrace", good, corrupt))
    ck.note("self-test: " + devf.result())
    bg.shutdown()


def replay(ck, path):
    ck.make("drv_mustache.asan")
    mod, cfg = mc(ck, "tables", [("none", [], [True], 0)], emit=False, tables=True)
    r = vf.run_tlc(mod, cfg, tag="X17_tables", workers=1, timeout=300, lib_dirs=[SPECDIR], env=JVM)
    tabs = [p for p in xc.tlc_json_prints(r) if "lexemes" in p]
    if not tabs:
        raise vf.Infra("TLC did not print the tables of MustacheData: " + (r.error or "")[-500:])
    setup = write_setup(ck, tabs[0])
    lines_in = [ln.strip() for ln in open(os.path.join(path, "cases.txt")) if ln.strip()]
    lines, bad, obsset = drive_and_judge(ck, "replay", lines_in, setup)
    print("\n".join(lines[:50]))
