"""C01 — TCP/TLS sessions deliver sent bytes exactly once and in order.

  1. TLC checks spec/transport/TcpStream.tla (Impl: command queue, write queue with a partially written front buffer,
     OpenSSL's pending-write position, EPOLLOUT arming with edge/level semantics, kernel room as environment, read loop)
     exhaustively for plain/TLS x edge/level triggered: Inv_Stream (wire o queue o commands = accepted), Inv_WirePrefix,
     Inv_Read, Inv_NoStuck (lost wake-up as safety) and Live_Write / Live_Read under fairness.
  2. Self-test: each deviation flag (tail re-queued at the back, written prefix not erased, no EPOLLOUT after a short
     direct write, read loop stops after a short read, level-triggered read loop returns after one chunk - strands bytes
     buffered in the SSL object, a send on the I/O thread overtakes accepted commands, a direct write although a tail is
     still queued) must be rejected by TLC; the counterexamples become behaviours.
  3. Behaviours: transition-cover sample, per-action cover and random walks of the dumped graphs, projected onto their
     environment steps (sends, kernel room, injected error, peer writes, read cuts, handshake completion, closes); each is
     replayed on the real TcpEngine through Transport by harness/drv_tcpstream (fake kernel at send/write/recv/read,
     raw or OpenSSL-over-memory-BIO peer) over the matrix batching x edge/level x role x byte scale.
  4. Sweeps: the cut position of a short write over every byte of a payload (and pairs of cuts), plain and TLS.
  5. Concurrent stress: 1-4 sender threads, tiny socket buffers, slow peer, random short writes/reads.
  6. Directed cases (byte-exact instances of behaviour shapes of the model): sends from inside a parked accept / connect /
     data callback (the I/O thread itself) interleaved with worker sends whose send() has already returned; the receive
     matrix {edge, level} x {plain, TLS} x {ioReadChunk 1 KiB, default} x {write larger than the chunk, several TLS records,
     tail record larger than the chunk} followed by no traffic at all; a short write followed by another send dispatched in
     the same process() pass while the kernel has room again (fake kernel AUTODRAIN, and the real kernel with a small
     SO_SNDBUF and ~2 MiB payloads, both sends accepted while the I/O thread is parked).
  7. Everything recorded is validated against the Abs oracle spec/transport/StreamTrace.tla; rejections are re-run.
"""
import os, re, json, concurrent.futures as cf
import vf

SPECDIR = os.path.join(vf.SPEC, "transport")
IMPL = os.path.join(SPECDIR, "TcpStream.tla")
TRACE_TLA = os.path.join(SPECDIR, "StreamTrace.tla")
TRACE_CFG = os.path.join(SPECDIR, "StreamTrace.cfg")
INVS = ["Inv_Stream", "Inv_WirePrefix", "Inv_Read", "Inv_Types", "Inv_NoStuck"]
DEVS = ["Dev_PartialTailToBack", "Dev_KeepWrittenPrefix", "Dev_NoRearmAfterShortSend", "Dev_StopReadAfterShort",
        "Dev_LtStopsAfterOneChunk", "Dev_IoSendBypassesQueue", "Dev_DirectWriteIgnoresQueue", "Dev_DrainAfterSwap"]
def temporal_violated(out):
    return bool(re.search(r"Temporal propert(y \w+ was|ies were) violated", out))


IO_ACTIONS = ["WakeEvt", "DrainEvt", "SwapCmds", "ProcDone", "ProcessClose", "DoSendDropClosed", "DoSendHandshakeQueue", "DoSendDirect", "DoSendEagain", "DoSendError",
              "QueueBack", "BackpressureClose", "EpollOutFires", "WpEmpty", "WritePendingError", "WritePendingEagain",
              "WritePendingFull", "WritePendingPartial", "HandshakeDone", "EpollInFires", "Recv", "SslRead", "RecvEagain", "RecvZero",
              "CbSend", "CbReturn"]
DEV_ONLY_ACTIONS = ["DoSendDirectOvertake"]
ENV_STEP = {"AppSend": "SEND {0} {1}", "AppClose": "CLOSE", "KernelDrain": "DRAIN {0}", "InjectErr": "ERR",
            "PeerWrite": "PWRITE {0}", "PeerWriteGated": "PWRITEG {0}", "PeerClose": "PCLOSE", "SetRcut": "RCUT {0}",
            "HandshakeDone": "HSDONE"}
PARAMS = {"AppSend": "tn", "AppClose": "", "KernelDrain": "n", "InjectErr": "", "PeerWrite": "n", "PeerWriteGated": "n", "PeerClose": "",
          "SetRcut": "k", "HandshakeDone": "", "CbSend": "n"}
MODEL_WQ = 2


def consts(**kw):
    d = dict(Threads='{"t1", "t2"}', MaxSends=3, MaxLen=2, MaxRoom=2, MaxWq=MODEL_WQ, Tls=False, ET=True, PeerBytes=1, MaxRcut=1,
             AllowClose=True, Chunk=3, RecMax=3, AllowCb=False)
    for f in DEVS:
        d[f] = False
    d.update(kw)
    return d


def cfg_file(ck, name, constants, **kw):
    p = os.path.join(ck.work, name + ".cfg")
    vf.write_cfg(p, constants=constants, **kw)
    return p


POPS_CMD = {"ProcessClose", "DoSendDropClosed", "DoSendHandshakeQueue", "DoSendDirect", "DoSendEagain", "DoSendError", "QueueBack",
            "BackpressureClose"}


def project(labels):
    """behaviour (edge labels) -> its environment steps (what the driver performs); I/O-thread actions happen by themselves.
    The driver is sequential (the engine is quiescent between steps), so an application command is issued at the point
    where the behaviour PROCESSES it (the command queue is FIFO): the kernel room the command meets is then the model's.
    Exception: the parked data callback.  PeerWriteGated becomes PWRITEG at the point where its delivering read enters the
    callback (the real I/O thread parks there); commands accepted but not yet processed at that point, and every AppSend /
    CbSend while it is parked, are issued right then (their send() returns, the command waits in the queue) - which is
    exactly the state 'accepted by other threads, not yet dispatched' the behaviour is in; CbReturn = RELEASE."""
    steps, names, pending = [], [], []
    gate_pending, parked = None, False
    # eventfd wake-ups with an AppSend landing between the wake-up and the end of {drain, swap}: the driver parks the I/O
    # thread at its eventfd read (PARKEV), issues the commands that cause the wake-up, then the ones landing in the window
    lab_names = [vf.label_thread(x)[0] for x in labels]
    window_at = set()
    for i, nm in enumerate(lab_names):
        if nm == "WakeEvt":
            done, j = 0, i + 1
            while j < len(lab_names) and done < 2:
                if lab_names[j] in ("DrainEvt", "SwapCmds"):
                    done += 1
                elif lab_names[j] == "AppSend":
                    window_at.add(i)
                j += 1
    evpark, evdone = False, 0

    def park():
        nonlocal gate_pending, parked
        steps.append(gate_pending)
        gate_pending, parked = None, True
        for k, st in enumerate(pending):
            if st and st.startswith("SEND"):
                steps.append(st)
                pending[k] = None
    for li, lab in enumerate(labels):
        name, args = vf.label_thread(lab)
        names.append(name)
        if name == "WakeEvt" and li in window_at and not parked and any(st and st.startswith("SEND") for st in pending):
            steps.append("PARKEV")
            for k, st in enumerate(pending):
                if st and st.startswith("SEND"):
                    steps.append(st)
                    pending[k] = None
            evpark, evdone = True, 0
        elif name in ("DrainEvt", "SwapCmds") and evpark:
            evdone += 1
            if evdone == 2:
                steps.append("RELEASE")
                evpark = False
        if name in ("AppSend", "AppClose"):
            st = ENV_STEP[name].format(*args)
            if (parked or evpark) and name == "AppSend":
                steps.append(st)
                pending.append(None)
            else:
                pending.append(st)
        elif name == "CbSend":
            steps.append("CBSEND %s" % args[0])
            pending.append(None)
        elif name in POPS_CMD:
            if pending:
                st = pending.pop(0)
                if st:
                    steps.append(st)
        elif name == "PeerWriteGated":
            gate_pending = ENV_STEP[name].format(*args)
        elif name in ("Recv", "SslRead") and gate_pending:
            park()
        elif name == "CbReturn":
            steps.append("RELEASE")
            parked = False
        elif name in ENV_STEP:
            if name == "PeerWrite" and gate_pending:
                park()                      # (keep the peer's writes in the behaviour's order)
            steps.append(ENV_STEP[name].format(*args))
        elif name not in IO_ACTIONS and name not in DEV_ONLY_ACTIONS:
            raise vf.Infra("unknown Impl action in behaviour: " + lab)
    if gate_pending:
        park()
    if parked or evpark:
        steps.append("RELEASE")
    return steps + [st for st in pending if st], names


def seq_case(steps, tls, i, scale=None, pcut=None, extra="", force=None):
    et = 0 if i % 4 == 3 else 1
    batch = 1 if i % 3 == 2 else 0
    role = "cli" if i % 5 in (3, 4) else "srv"
    if scale is None:
        scale = ([1, 40, 1000, 20000] if tls else [1, 3, 1000, 20000])[(i // 2) % 4]
    if pcut is None:          # the peer writes in pieces of pcut bytes (0 = whole): cuts inside TLS records / plain payloads
        pcut = ([0, 700, 4099, 0] if scale >= 1000 else [0, 1, 5, 0])[(i // 3) % 4]
    if force:
        et, batch, role = force.get("et", et), force.get("batch", batch), force.get("role", role)
    if callable(extra):
        extra = extra(scale)
    return "mode=seq tls=%d et=%d batch=%d role=%s wq=%d scale=%d pcut=%d %s; %s" % (
        tls, et, batch, role, force.get("wq", MODEL_WQ) if force else MODEL_WQ, scale, pcut, extra + " " if extra else "", " ; ".join(steps))


def action_cover(g, rng, per_action, maxlen):
    from collections import deque
    parent = {i: None for i in g.init}
    dq = deque(g.init)
    order = []
    while dq:
        n = dq.popleft()
        order.append(n)
        for lab, d in g.edges[n]:
            if d not in parent:
                parent[d] = (n, lab)
                dq.append(d)

    def prefix(n):
        p = []
        while parent[n] is not None:
            n, lab = parent[n]
            p.append(lab)
        p.reverse()
        return p
    found = {}
    for n in order:
        for lab, d in g.edges[n]:
            lst = found.setdefault(lab.split("(")[0], [])
            if len(lst) < per_action * 6:
                lst.append((n, lab, d))
    out = []
    for name, lst in sorted(found.items()):
        rng.shuffle(lst)
        for n, lab, d in lst[:per_action]:
            out.append(prefix(n) + [lab] + g.walk_to_end(d, rng, maxlen))
    return out


def sweep_cases(thorough, rng):
    """the cut position of a short write over every byte of a payload (byte-exact steps, suffix b)"""
    out = []   # (tls, steps)
    big = 200000
    ls1 = list(range(1, 25)) + [100, 1000, 13824] if thorough else [1, 2, 3, 8, 33]
    for L in ls1:
        for c in range(0, L + 1):
            st = (["DRAIN %db" % c] if c else []) + ["SEND t1 %db" % L, "SEND t2 2b", "DRAIN %db" % big]
            out.append((0, st))
    for L in ([3, 5, 9] if thorough else [5]):                # two cuts: doSend short write, then a partial writePending
        for c1 in range(0, L):
            for c2 in range(1, L - c1):
                st = (["DRAIN %db" % c1] if c1 else []) + ["SEND t1 %db" % L, "SEND t2 2b", "DRAIN %db" % c2, "SEND t1 1b",
                                                             "DRAIN %db" % big]
                out.append((0, st))
    for L in (list(range(1, 17)) + [100, 1000, 5000] if thorough else [1, 8]):    # TLS: every ciphertext byte of the record(s)
        nrec = (L + 16383) // 16384
        for c in range(0, L + 22 * nrec + 8):
            st = ["HSDONE"] + (["DRAIN %db" % c] if c else []) + ["SEND t1 %db" % L, "SEND t2 2b", "DRAIN %db" % big]
            out.append((1, st))
    for L in ([3, 6] if thorough else [4]):                   # TLS: data queued during the handshake, then cut
        for c in range(0, 2 * (L + 22) + 4, 1 if thorough else 3):
            st = ["SEND t1 %db" % L, "SEND t2 %db" % L, "HSDONE"] + (["DRAIN %db" % c] if c else []) + ["DRAIN %db" % big]
            out.append((1, st))
    return out


def conc_cases(thorough, rng):
    out = []
    n = 160 if thorough else 14
    for i in range(n):
        tls = 1 if i % 3 == 2 else 0
        threads = 1 + i % 4
        sends = min(40, 200 // threads) if thorough else min(16, 60 // threads)
        if i % 7 == 6:
            sends = min(sends, 12)
        maxlen = [30000, 14000, 3000, 60000][i % 4]
        sndbuf = [4096, 2304, 0, 8192][(i // 2) % 4]
        out.append("mode=conc tls=%d et=%d batch=%d role=%s threads=%d sends=%d maxlen=%d sndbuf=%d rcvbuf=%d cutpm=%d rcutmax=%d "
                   "pwrites=%d seed=%d" % (tls, 0 if i % 5 == 4 else 1, 1 if i % 2 else 0, "cli" if i % 4 == 3 else "srv", threads,
                                           sends, maxlen, sndbuf, sndbuf, [0, 150, 400][i % 3], [0, 3000, 700][(i // 3) % 3],
                                           [0, 6, 12][i % 3], rng.randrange(1, 1 << 30)))
    return out


def directed_cases(thorough):
    """byte-exact instances of behaviour shapes of TcpStream.tla that need concrete sizes / the real kernel / the connect
    callback.  -> [(case line, kind)]"""
    out = []
    k = 0
    # (a) sends from the accept / connect callback (the I/O thread parks there: gateconn=1) interleaved with worker sends that
    #     have already returned; batches of both; with and without command batching, plain and TLS, engine as server / client
    shapes = [["SEND t2 2", "CBSEND 1", "RELEASE"], ["SEND t2 1", "SEND t3 2", "CBSEND 2", "CBSEND 1", "RELEASE"],
              ["CBSEND 1", "SEND t2 2", "CBSEND 2", "SEND t3 1", "RELEASE"], ["SEND t2 2", "SEND t3 1", "SEND t4 1", "CBSEND 1", "CBSEND 1", "CBSEND 2", "RELEASE"]]
    for tls in (0, 1):
        for role in ("srv", "cli"):
            for batch in (0, 1):
                for sh in shapes:
                    pre = ["DRAIN 40"] if k % 2 else []
                    post = [] if k % 2 else ["DRAIN 1", "DRAIN 40"]
                    out.append((seq_case(pre + sh + post, tls, k, scale=[1, 1000, 9000][k % 3], pcut=0, extra="gateconn=1",
                                         force={"batch": batch, "role": role, "et": 1 if k % 4 else 0, "wq": 64}), "cb-connect"))
                    k += 1
    # (b) receive side, then NO further traffic: {edge, level} x {plain, TLS} x {ioReadChunk 1 KiB, default} x {one peer write
    #     larger than the chunk, several TLS records, a tail record larger than the chunk}
    for et in (1, 0):
        for tls in (0, 1):
            for chunk, sizes in ((1024, [3000, 40000, 18432, 16384 + 1025]), (0, [70000, 150000])):
                for n in sizes:
                    pre = ["HSDONE"] if tls else []
                    for batch in ((0, 1) if thorough else (k % 2,)):
                        out.append((seq_case(pre + ["PWRITE %db" % n], tls, k, scale=1, pcut=0, extra="chunk=%d" % chunk,
                                             force={"et": et, "batch": batch, "role": "srv" if k % 3 else "cli"}), "read-chunk"))
                        k += 1
    # (c) a short write, then another send dispatched in the same process() pass while the tail is queued and the kernel has
    #     room again: fake kernel (AUTODRAIN = room appears right after the short write) and the real kernel (small SO_SNDBUF,
    #     ~2 MiB payload, both sends accepted while the I/O thread is parked)
    for batch in (0, 1):
        for role in ("srv", "cli"):
            for c1, l1, l2, ad in ((1, 3, 1, 2), (2, 5, 2, 3), (1, 2, 1, 1), (3, 4, 3, 9)):
                steps = ["DRAIN %d" % c1, "PWRITEG 1", "SEND t2 %d" % l1, "SEND t3 %d" % l2, "AUTODRAIN %d" % ad, "RELEASE", "DRAIN 40"]
                out.append((seq_case(steps, 0, k, scale=[1, 700][k % 2], pcut=0, force={"batch": batch, "role": role, "et": 1 if k % 3 else 0, "wq": 64}),
                            "overtake-fake"))
                k += 1
            for big, small, sb in ((2097152, 1000, 4096), (1500000, 1, 2304), (2097152, 60000, 8192)):
                steps = ["PWRITEG 1b", "SEND t2 %db" % big, "SEND t3 %db" % small, "SEND t2 7b", "RELEASE"]
                out.append((seq_case(steps, 0, k, scale=1, pcut=0, extra="fake=0 sndbuf=%d rcvbuf=%d" % (sb, sb),
                                     force={"batch": batch, "role": role, "et": 1 if k % 3 else 0, "wq": 64}), "overtake-real"))
                k += 1
    # (d) the eventfd wake-up: two (three) threads send while the I/O thread is parked at its eventfd read - the first send wakes
    #     it up, the others land between the wake-up and the drain/swap - then NO further traffic and no command of any kind
    #     (instances of the TLC counterexample of Dev_DrainAfterSwap: AppSend WakeEvt SwapCmds AppSend DrainEvt ...)
    for tls in (0, 1):
        for batch in (0, 1):
            for role in ("srv", "cli"):
                for sh in (["SEND t2 1", "SEND t3 2"], ["SEND t2 2", "SEND t3 1", "SEND t4 1"], ["SEND t1 1", "SEND t2 1"]):
                    pre = (["HSDONE"] if tls else []) + ["DRAIN 40"]
                    out.append((seq_case(pre + ["PARKEV"] + sh + ["RELEASE"], tls, k, scale=[1, 1000, 9000][k % 3], pcut=0,
                                         force={"batch": batch, "role": role, "et": 1 if k % 4 else 0, "wq": 64}), "lost-wakeup"))
                    k += 1
    return out


def run(ck):
    thorough = ck.tier == "thorough"
    ck.make("drv_tcpstream")
    ck.rule = ("(a) behaviours of TcpStream.tla (sample of the transition cover + per-action cover + random walks of the dumped "
               "graphs, plain and TLS - incl. sends from the parked data callback and read chunks smaller than a TLS record - plus the "
               "TLC counterexamples of the seven deviation flags), projected onto their environment "
               "steps and replayed on the real TcpEngine through Transport with a fake kernel at the system-call boundary, over "
               "batching on/off, edge/level-triggered, engine as server/client, 1..20000 bytes per model unit; (b) sweeps of the "
               "cut position of a short write over every byte (and pairs of cuts), plain and TLS ciphertext; (c) concurrent "
               "stress with 1-4 sender threads, tiny socket buffers, a slow peer and random short writes/reads; (d) directed cases: sends "
               "from the parked accept/connect callback mixed with accepted worker sends, the receive-chunk matrix (edge/level x "
               "plain/TLS x ioReadChunk 1 KiB/default x sizes) with no traffic afterwards, short write + second send in one "
               "process() pass on the fake and on the real kernel (SO_SNDBUF 2304..8192, ~2 MiB).  Non-trivial = "
               "the execution contains a short or refused write (cut, EAGAIN, injected error), a send queued behind another or "
               "during the TLS handshake, a short read, or concurrent senders.")
    # ---- 1. exhaustive model checking -----------------------------------------------------------------------------------
    mc = []
    for tls in (False, True):
        for et in (True, False):
            if thorough:
                mc.append(("mc_%s_%s" % ("tls" if tls else "plain", "et" if et else "lt"),
                           consts(Tls=tls, ET=et, MaxRoom=3, PeerBytes=2, MaxRcut=2), False))
            else:
                mc.append(("mc_%s_%s" % ("tls" if tls else "plain", "et" if et else "lt"), consts(Tls=tls, ET=et), False))
        mc.append(("mcw_%s" % ("tls" if tls else "plain"),
                   consts(Tls=tls, MaxSends=4 if thorough else 3, MaxLen=3, MaxRoom=3, PeerBytes=0, AllowClose=False), False))

    for tls in (False, True):
        # sends from inside the (parked) data callback, interleaved with worker sends
        mc.append(("mc_cb_%s" % ("tls" if tls else "plain"), consts(Tls=tls, AllowCb=True, AllowClose=False, MaxSends=4 if thorough else 3), False))
        for et in (True, False):
            # read chunk smaller than a TLS record / than what is waiting: 3 peer bytes, ioReadChunk 1, records of 2
            mc.append(("mc_rd_%s_%s" % ("tls" if tls else "plain", "et" if et else "lt"),
                       consts(Tls=tls, ET=et, MaxSends=1, MaxLen=1, PeerBytes=3, MaxRcut=2, Chunk=1, RecMax=2), False))

    def job_mc(j):
        name, c, cov = j
        return vf.run_tlc(IMPL, cfg_file(ck, name, c, invariants=INVS), tag="C01_" + name, workers=3, coverage=cov, timeout=1500)

    def job_live(tls):
        c = consts(Tls=bool(tls), MaxSends=2, AllowClose=False) if tls < 2 else \
            consts(Tls=True, ET=False, MaxSends=1, MaxLen=1, PeerBytes=3, Chunk=1, RecMax=2, AllowClose=False)
        return vf.run_tlc(IMPL, cfg_file(ck, "live%d" % tls, c, spec="FairSpec", invariants=INVS, properties=["Live_Write", "Live_Read", "Live_Cmd"]),
                          tag="C01_live%d" % tls, workers=3, timeout=1500)

    RD = dict(MaxSends=1, MaxLen=1, PeerBytes=3, Chunk=1, RecMax=2, AllowClose=False)
    rd_extra = lambda scale: "chunk=%d rec=%d" % (scale, min(16384, 2 * scale))
    # per deviation: model constants, and how its counterexample is run on the code (tls, extra case keys, forced matrix cell)
    DEV_CFG = {"Dev_LtStopsAfterOneChunk": (dict(Tls=True, ET=False, **RD), 1, rd_extra, {"et": 0}),
               "Dev_IoSendBypassesQueue": (dict(AllowCb=True, AllowClose=False, MaxSends=2), 0, "", None),
               "Dev_DirectWriteIgnoresQueue": (dict(MaxSends=2, AllowClose=False), 0, "", None),
               "Dev_DrainAfterSwap": (dict(MaxSends=2, AllowClose=False), 0, "", None)}

    def job_dev(flag):
        c = consts(**dict(DEV_CFG[flag][0], **{flag: True})) if flag in DEV_CFG else consts(MaxSends=2, PeerBytes=2, MaxRcut=2, **{flag: True})
        cex = os.path.join(ck.work, "cex_%s.json" % flag)
        return vf.run_tlc(IMPL, cfg_file(ck, "dev_" + flag, c, invariants=INVS), tag="C01_" + flag, workers=1, dump_trace=cex)

    def job_devlive(which=0):
        c = consts(MaxSends=2, AllowClose=False, **{["Dev_NoRearmAfterShortSend", "Dev_DrainAfterSwap"][which]: True})
        return vf.run_tlc(IMPL, cfg_file(ck, "devlive%d" % which, c, spec="FairSpec", properties=[["Live_Write", "Live_Cmd"][which]]),
                          tag="C01_devlive%d" % which, workers=2, timeout=900)

    # generation graphs (dumped; also the coverage self-test): G1 = two sends with reads and closes, G2 = three sends against
    # a nearly full kernel (reaches QueueBack and the backpressure close with maxWriteQueue = 2)
    GEN = {"g1": dict(MaxSends=2, PeerBytes=1, AllowClose=False), "g2": dict(MaxSends=3, MaxRoom=1, PeerBytes=0, AllowClose=False),
           "g3": dict(MaxSends=1, MaxLen=1, MaxRoom=1, PeerBytes=2, MaxRcut=2, AllowClose=False),   # the read side, short reads
           "g4": dict(MaxSends=2, MaxLen=1, MaxRoom=1, PeerBytes=1),                                # with closes
           "g5": dict(MaxSends=3, MaxLen=1, MaxRoom=2, PeerBytes=1, AllowCb=True, AllowClose=False), # sends from the parked data callback
           "g6": dict(MaxRoom=1, MaxRcut=2, **RD)}                                                  # read chunk < record
    GEN_EXTRA = {"g6": rd_extra}

    def job_gen(key):
        tls, gname = key
        c = consts(Tls=bool(tls), **GEN[gname])
        dot = os.path.join(ck.work, "gen%d%s.dot" % (tls, gname))
        return vf.run_tlc(IMPL, cfg_file(ck, "gen%d%s" % (tls, gname), c, invariants=INVS), tag="C01_gen%d%s" % (tls, gname), workers=2,
                          dump_dot=dot, coverage=True), dot

    with cf.ThreadPoolExecutor(max_workers=8) as ex:
        f_mc = [(j, ex.submit(job_mc, j)) for j in mc]
        f_live = {t: ex.submit(job_live, t) for t in (0, 1, 2)}     # 2 = TLS, level-triggered, chunk < record
        f_dev = {f: ex.submit(job_dev, f) for f in DEVS}
        f_devlive = ex.submit(job_devlive)
        f_devlive2 = ex.submit(job_devlive, 1)
        f_gen = {(t, gname): ex.submit(job_gen, (t, gname)) for t in (0, 1) for gname in GEN}
        r_mc = [(j, f.result()) for j, f in f_mc]
        r_live = {t: f.result() for t, f in f_live.items()}
        r_dev = {k: f.result() for k, f in f_dev.items()}
        r_devlive = f_devlive.result()
        r_devlive2 = f_devlive2.result()
        r_gen = {t: f.result() for t, f in f_gen.items()}

    for (name, c, cov), r in r_mc:
        if r.error:
            raise vf.Infra("TLC failed on TcpStream %s: %s" % (name, r.error))
        ck.states += r.distinct
        ck.transitions += r.generated
        for a, (tk, gn) in r.coverage.items():
            ck.cov[a] = ck.cov.get(a, 0) + gn
        ck.note("TLC TcpStream %s (Tls=%s ET=%s MaxSends=%s MaxLen=%s MaxRoom=%s PeerBytes=%s): %s" % (
            name, c["Tls"], c["ET"], c["MaxSends"], c["MaxLen"], c["MaxRoom"], c["PeerBytes"], r.summary()))
        if r.violated:
            rp = ck.save_replay("impl_spec_" + name, {"tlc.out": r.out})
            ck.violation("TcpStream.tla (all deviation flags FALSE) violates %s in configuration %s" % (r.violated, name), rp)
    ck.exhaustive = True
    for key, (r, dot) in r_gen.items():
        for a, (tk, gn) in r.coverage.items():
            ck.cov[a] = ck.cov.get(a, 0) + gn
    for a in IO_ACTIONS + list(ENV_STEP):
        if ck.cov.get(a, 0) == 0:
            raise vf.Infra("self-test: Impl action %s never taken in the coverage runs" % a)
    for key, (r, dot) in r_gen.items():
        pass
    for t, r in r_live.items():
        if r.error or not r.ok:
            if temporal_violated(r.out):
                rp = ck.save_replay("impl_spec_live%d" % t, {"tlc.out": r.out})
                ck.violation("TcpStream.tla (all deviation flags FALSE) violates its liveness properties (Tls=%d)" % t, rp)
            else:
                raise vf.Infra("TLC liveness run failed (Tls=%d): %s" % (t, r.error))
        ck.states += r.distinct
        ck.transitions += r.generated
        ck.note("TLC TcpStream liveness under fairness (%s): Live_Write, Live_Read hold: %s" % (
            ["plain", "TLS", "TLS level-triggered, read chunk < record"][t], r.summary()))

    # ---- 2. deviation self-test; counterexamples become behaviours --------------------------------------------------------
    seq = []        # (tls, steps, names, kind)
    for flag, r in r_dev.items():
        if r.violated not in ("Inv_Stream", "Inv_WirePrefix", "Inv_NoStuck") or not r.trace_json:
            raise vf.Infra("self-test: TcpStream with %s=TRUE should violate an invariant, got %r %s" % (flag, r.violated, r.error))
        ck.states += r.distinct
        ck.transitions += r.generated
        labs = []
        for a in r.trace_json["counterexample"]["action"]:
            name, ctx = a[1]["name"], a[1].get("context") or {}
            labs.append("%s(%s)" % (name, ",".join(str(ctx[k]) for k in PARAMS.get(name, "") if k in ctx)))
        steps, names = project(labs)
        ck.note("deviation %s: TLC reports %s after %d steps: %s" % (flag, r.violated, len(labs), " ".join(labs)))
        _, ptls, pextra, pforce = DEV_CFG.get(flag, (None, 0, "", None))
        seq.append((ptls, steps, names, "probe", pextra, pforce))
    if not temporal_violated(r_devlive.out):
        raise vf.Infra("self-test: FairSpec with Dev_NoRearmAfterShortSend=TRUE should violate Live_Write: " + (r_devlive.error or "")[-400:])
    if not temporal_violated(r_devlive2.out):
        raise vf.Infra("self-test: FairSpec with Dev_DrainAfterSwap=TRUE should violate Live_Cmd (lost wake-up): " + (r_devlive2.error or "")[-400:])
    ck.sample({"kind": "TLC counterexample of Dev_PartialTailToBack, replayed on the real engine", "steps": seq[0][1]})
    ck.sample({"kind": "TLC counterexample of Dev_DrainAfterSwap (lost eventfd wake-up), replayed with the I/O thread parked at its eventfd read",
               "steps": seq[len(DEVS) - 1][1]})

    # ---- 3. behaviours from the state graphs ------------------------------------------------------------------------------
    for (tls, gname), (r, dot) in r_gen.items():
        if r.error or r.violated:
            raise vf.Infra("TLC failed on the generation graph (Tls=%d %s): %s %s" % (tls, gname, r.violated, r.error))
        ck.states += r.distinct
        ck.transitions += r.generated
        g = vf.Graph.load(dot)
        os.remove(dot)
        # behaviours are cut at moderate lengths: one that runs on until a close ends the session says little at its End
        paths, covered, total = g.transition_cover(ck.rng, maxlen=14, limit=6000 if thorough else 200)
        acov = action_cover(g, ck.rng, 40 if thorough else 6, 6)
        walks = [g.walk_to_end(ck.rng.choice(g.init), ck.rng, ck.rng.randrange(4, 24)) for _ in range(1500 if thorough else 60)]
        before = len(seq)
        seen = set()
        for pth in acov + paths + walks:
            steps, names = project(pth)
            key = " ; ".join(steps)
            if not steps or key in seen:
                continue
            seen.add(key)
            seq.append((tls, steps, names, "graph", GEN_EXTRA.get(gname, ""), None))
        ck.note("generation graph Tls=%d %s: %d states, %d edges; %d cover (%d/%d edges) + %d per-action + %d random-walk behaviours -> %d "
                "distinct environment-step sequences" % (tls, gname, r.distinct, g.n_edges(), len(paths), covered, total, len(acov), len(walks),
                                                         len(seq) - before))
    taken = set(n for x in seq for n in x[2])
    missing = [a for a in IO_ACTIONS + list(ENV_STEP) if a not in taken]
    if missing:
        raise vf.Infra("self-test: the generated behaviours never take Impl action(s) %s" % missing)

    cases = []      # (line, kind, nontrivial)
    for i, (tls, steps, names, kind, extra, force) in enumerate(seq):
        nt = bool({"DoSendEagain", "QueueBack", "WritePendingPartial", "WritePendingEagain", "DoSendHandshakeQueue", "DoSendError",
                   "WritePendingError", "BackpressureClose"} & set(names)) or any(
            n == "DoSendDirect" for n in names) and "WritePendingFull" in names or "SetRcut" in names or "CbSend" in names \
            or bool(extra)
        cases.append((seq_case(steps, tls, i, extra=extra, force=force), kind, nt))
    ck.sample({"kind": "behaviour (case line for drv_tcpstream)", "case": cases[len(cases) // 2][0]})
    # ---- 4. sweeps, 5. concurrent stress ----------------------------------------------------------------------------------
    sw = sweep_cases(thorough, ck.rng)
    for i, (tls, steps) in enumerate(sw):
        cases.append((seq_case(steps, tls, i, scale=1, pcut=0), "sweep", True))
    cc = conc_cases(thorough, ck.rng)
    for line in cc:
        cases.append((line, "conc", True))
    dc = directed_cases(thorough)
    for line, kind in dc:
        cases.append((line, kind, True))
    ck.note("cases: %d behaviours, %d sweep cases, %d concurrent stress cases, %d directed cases (%s)" % (
        len(seq), len(sw), len(cc), len(dc), ", ".join("%d %s" % (sum(1 for _, k in dc if k == kind), kind)
                                                      for kind in ("cb-connect", "read-chunk", "overtake-fake", "overtake-real", "lost-wakeup"))))
    ck.sample({"kind": "sweep case", "case": cases[len(seq) + len(sw) // 2][0]})
    ck.sample({"kind": "concurrent stress case", "case": cc[0]})

    execs = run_cases(ck, [c[0] for c in cases], "tcp")
    ck.evaluations += len(execs)
    ck.nontrivial = len(set(c[0] for c in cases if c[2]))
    ck.sample({"kind": "recorded execution", "case": cases[3][0], "events": execs[3][1][:14]})
    # self-test: the eventfd window is really entered (the driver notes when the I/O thread is parked at its eventfd read)
    pe = [i for i, c in enumerate(cases) if " PARKEV " in c[0]]
    hit = sum(1 for i in pe if any(e["e"] == "Note" and e.get("what") == "parked-at-eventfd-read" for e in execs[i][1]))
    ck.note("eventfd window: %d cases with PARKEV, the I/O thread was parked at its eventfd read in %d of them" % (len(pe), hit))
    if len(pe) < 10 or hit * 2 < len(pe):
        raise vf.Infra("self-test: the window between the eventfd wake-up and the drain was entered in only %d of %d PARKEV cases" % (hit, len(pe)))
    rejected = judge(ck, cases, execs, "tcp")
    oracle_selftest(ck, cases, execs, rejected)


def run_cases(ck, lines, name, parallel=8):
    cp = os.path.join(ck.work, name + "_cases.txt")
    with open(cp, "w") as f:
        f.write("\n".join(lines) + "\n")
    outp = os.path.join(ck.work, name + ".ndjson")
    rc, out = vf.run_driver("drv_tcpstream", ["run", cp, outp, parallel], timeout=3000)
    if rc != 0:
        raise vf.Infra("drv_tcpstream failed: " + out[-2000:])
    events = vf.read_ndjson(outp)
    execs = vf.split_executions(events)
    if len(execs) != len(lines):
        raise vf.Infra("drv_tcpstream returned %d executions for %d cases" % (len(execs), len(lines)))
    for i, (start, evs) in enumerate(execs):
        for e in evs:
            if e["e"] in ("Infra", "HarnessTimeout"):
                raise vf.Infra("execution %d (%s): %s" % (i, lines[i], json.dumps(e)))
    return execs


def write_trace(path, execs):
    with open(path, "w") as f:
        for start, evs in execs:
            for e in evs:
                f.write(json.dumps(e) + "\n")
            f.write('{"e":"Reset"}\n')


def validate_chunk(ck, execs, tag):
    """-> list of (index of rejected execution, offset of the first unmatched event) in this chunk (all of them)"""
    bad = []
    base = 0
    rest = execs
    while rest and len(bad) < 4:
        p = os.path.join(ck.work, tag + "_%d.ndjson" % len(bad))
        write_trace(p, rest)
        v = vf.validate_trace(TRACE_TLA, TRACE_CFG, p, tag="C01_val")
        if v.error:
            raise vf.Infra("trace validation error: " + v.error)
        if v.accepted:
            break
        events = vf.read_ndjson(p)
        x = vf.exec_index_of_line(events, v.maxl)
        off = v.maxl - sum(len(e[1]) + 1 for e in rest[:x])
        bad.append((base + x, off))
        base += x + 1
        rest = rest[x + 1:]
    return bad


def judge(ck, cases, execs, name):
    for i, (s, evs) in enumerate(execs):
        if any(e["e"] == "Crashed" for e in evs):
            rp = ck.save_replay("%s_crash_%d" % (name, i), {"case.txt": cases[i][0] + "\n",
                                                            "trace.ndjson": "\n".join(json.dumps(e) for e in evs) + "\n"})
            ck.violation("the process crashed while running %s" % cases[i][0], rp)
    # validate in parallel chunks
    nchunk = max(1, min(8, len(execs) // 400))
    size = (len(execs) + nchunk - 1) // nchunk
    chunks = [(k * size, execs[k * size:(k + 1) * size]) for k in range(nchunk)]
    with cf.ThreadPoolExecutor(max_workers=nchunk) as ex:
        res = list(ex.map(lambda c: validate_chunk(ck, c[1], "%s_chunk%d" % (name, c[0])), chunks))
    nev = sum(len(e[1]) + 1 for e in execs)
    bad = [(base + x, off) for (base, _), lst in zip(chunks, res) for x, off in lst]
    ck.traces += len(execs) - len(bad)
    ck.note("validated %d executions (%d events) against StreamTrace.tla in %d TLC runs: %d rejected" % (len(execs), nev, nchunk, len(bad)))
    rejected = []
    for gi, off in bad[:6]:
        evs = execs[gi][1]
        ev = evs[off - 1] if 0 < off <= len(evs) else {"e": "?"}
        confirmed = False
        for attempt in range(5 if cases[gi][1] == "conc" else 2):
            ex2 = run_cases(ck, [cases[gi][0]], "%s_rerun" % name, parallel=1)
            if validate_chunk(ck, ex2, "%s_rerun_val" % name):
                confirmed = True
                break
        stall = [e for e in evs if e["e"] == "Note" and e.get("what") == "stall"]
        rp = ck.save_replay("%s_reject_%d" % (name, gi), {
            "case.txt": cases[gi][0] + "\n", "trace.ndjson": "\n".join(json.dumps(e) for e in evs) + "\n",
            "why.txt": "StreamTrace.tla cannot match event %d of the execution: %s\n%s" % (off, json.dumps(ev), json.dumps(stall))})
        rejected.append(gi)
        what = "TCP/TLS execution not explainable by the Abs stream oracle: first unmatched event %s%s; case: %s" % (
            json.dumps(ev), (" after a stall " + json.dumps(stall[0])) if stall else "", cases[gi][0][:300])
        if confirmed:
            ck.violation(what, rp)
        else:
            ck.note("rejection did not repeat in the re-runs — not reported; kept in %s: %s" % (rp, what))
    rejected += [gi for gi, _ in bad[6:]]
    return rejected


def oracle_selftest(ck, cases, execs, rejected):
    """corrupted copies of accepted executions must be rejected (no vacuity of the oracle)"""
    def pick(pred):
        for i, (start, evs) in enumerate(execs):
            if i not in rejected and pred(evs):
                return [dict(e) for e in evs]
        return None

    def recvs(E):
        return [i for i, e in enumerate(E) if e["e"] == "PeerRecv"]
    muts = []
    evs = pick(lambda E: len(recvs(E)) >= 3 and len(set(E[i]["idx"] for i in recvs(E))) >= 2 and not any(e["e"] == "Closed" for e in E))
    if evs:
        r = recvs(evs)
        m = [dict(e) for e in evs]; del m[r[-1]]
        muts.append(("last received range missing while the session stays open (loss / stall)", m))
        m = [dict(e) for e in evs]; m.insert(r[1], dict(m[r[1]]))
        muts.append(("a range received twice (duplication)", m))
        m = [dict(e) for e in evs]
        k = next(i for i in range(len(r) - 1) if m[r[i]]["idx"] != m[r[i + 1]]["idx"])
        m[r[k]], m[r[k + 1]] = m[r[k + 1]], m[r[k]]
        muts.append(("two payloads swapped (reordering)", m))
        m = [dict(e) for e in evs]; m[r[0]]["from"] += 1 if m[r[0]]["to"] - m[r[0]]["from"] > 1 else 0; m[r[0]]["to"] += 0
        if m[r[0]]["from"] == 0:
            m[r[0]]["to"] += 1
        muts.append(("a range starting / ending one byte off", m))
    evs = pick(lambda E: any(e["e"] == "PeerRecv" and e["to"] - e["from"] >= 2 for e in E) and
               len(set(e["idx"] for e in E if e["e"] == "PeerRecv")) >= 2 and not any(e["e"] == "Closed" for e in E))
    if evs:                                                        # interleaving: split a range and put another payload in between
        r = recvs(evs)
        k = next(i for i in r if evs[i]["to"] - evs[i]["from"] >= 2)
        other = next(i for i in r if evs[i]["idx"] != evs[k]["idx"])
        m = [dict(e) for e in evs]
        a = dict(m[k]); b = dict(m[k]); mid = a["from"] + 1
        a["to"] = mid; b["from"] = mid
        o = dict(m[other])
        m2 = [e for i, e in enumerate(m) if i not in (k, other)]
        pos = min(k, other)
        m2[pos:pos] = [a, o, b]
        muts.append(("another payload's bytes in the middle of a payload (interleaving)", m2))
    evs = pick(lambda E: any(e["e"] == "Data" for e in E) and not any(e["e"] == "Closed" for e in E))
    if evs:
        d = [i for i, e in enumerate(evs) if e["e"] == "Data"]
        m = [dict(e) for e in evs]; del m[d[-1]]
        muts.append(("last delivered range missing while the session stays open (read loop stopped early)", m))
        m = [dict(e) for e in evs]; m.insert(d[0], dict(m[d[0]]))
        muts.append(("a range delivered twice to the data callback", m))
    evs = pick(lambda E: any(e["e"] == "Closed" for e in E) and any(e["e"] == "SendRet" and e["acc"] for e in E) and
               sum(e["to"] - e["from"] for e in E if e["e"] == "PeerRecv") < sum(
                   x["len"] for x in E if x["e"] == "SendCall"))
    if evs:
        m = [e for e in evs if e["e"] != "Closed"]
        muts.append(("an early end that is not reported as closed", m))
    if len(muts) < 7:
        raise vf.Infra("self-test: not enough accepted executions to build the corrupted traces (%d)" % len(muts))
    for what, m in muts:
        p = os.path.join(ck.work, "selftest.ndjson")
        write_trace(p, [(0, m)])
        v = vf.validate_trace(TRACE_TLA, TRACE_CFG, p, tag="C01_self")
        if v.error:
            raise vf.Infra("self-test validation error: " + v.error)
        if v.accepted:
            raise vf.Infra("self-test: StreamTrace.tla accepts a corrupted trace (%s)" % what)
    ck.note("oracle self-test: %d corrupted traces rejected (%s)" % (len(muts), "; ".join(w for w, _ in muts)))


def replay(ck, path):
    """re-run one saved case against the current tree and re-validate it"""
    ck.make("drv_tcpstream")
    line = open(os.path.join(path, "case.txt")).read().strip()
    execs = run_cases(ck, [line], "replay", parallel=1)
    for e in execs[0][1][:200]:
        print(json.dumps(e))
    judge(ck, [(line, "conc" if "mode=conc" in line else "seq", True)], execs, "replay")
