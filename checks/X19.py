"""X19 (extra, not in MANIFEST.json) — iora::network::dns::DnsResolver: the resolution logic above the transport.

  1. spec/extra/DnsResolver.tla is a GENERATOR: TLC enumerates every zone of a small universe (thorough: 19 NAPTR choices x
     24 SRV choices x 32 address choices x 3 transport preferences = 43 776 service cases; quick: 19 x 12 x 18 x 3 = 12 312;
     16 hostname cases, 560 query/cache sequences) and checks theorems about the documented behaviour computed by the evaluator DnsResolverOps.tla
     (SyncAsyncAgree, EveryTargetResolved, PreferencesRespected, LowestOrderOnly, OrderIsDocumented); every Dev_* slip must
     break one (self-test).  The terminal states are printed: they are the cases.
  2. A sample of the cases (all hostname cases; the counterexample zones of the Dev_* flags; a seeded stratified sample of the
     rest) is run by harness/drv_dnsresolver.cpp: the real DnsResolver + DnsCache + DnsTransport against a zone-driven UDP
     server of the driver.  resolveServiceDomain twice (cache) and resolveServiceDomainAsync; resolveHostname under the four
     policies; query / queryAsync sequences with the zone changing behind the cache.
  3. The recorded events are validated by TLC against DnsResolverTrace.tla, which computes the expected result with the
     same evaluator.  A rejection is re-validated with the NAMED deviations allowed (how the code is known to behave
     today): accepted then => `OBSERVATION` notes (green); any other deviation => VIOLATION.
"""
import os, json, re, concurrent.futures as cf
import vf

SPECDIR = os.path.join(vf.SPEC, "extra")
GEN = os.path.join(SPECDIR, "DnsResolver.tla")
TRACE = os.path.join(SPECDIR, "DnsResolverTrace.tla")
INVS = ["SyncAsyncAgree", "CacheIsTransparent", "EveryTargetResolved", "PreferencesRespected", "LowestOrderOnly", "OrderIsDocumented", "ImplIsDocumented"]
DEVS = ["Dev_us", "Dev_snf", "Dev_a4", "Dev_afe", "Dev_ca4", "Dev_ord", "Dev_np", "Dev_keep", "Dev_desc"]
ACTIONS = ["PickNaptr", "PickSrv", "PickHosts", "PickPrefs", "PickHostCase", "PickQZones", "PickQOp", "EndQ"]
ALLOW = ("AllowUs", "AllowSnf", "AllowA4", "AllowAfe", "AllowCa4")
OBS = {
    "AllowUs": "OBSERVATION X19-O1: validateNaptrReplacement() applies the host-name rule (letters, digits, '-') to the replacement of an "
               "'S' NAPTR record, which is an SRV owner name (_sip._udp.example.com): every such record is skipped; the asynchronous path "
               "then falls back to the default SRV names (losing the NAPTR preference), the synchronous path returns nothing (O2)",
    "AllowSnf": "OBSERVATION X19-O2: resolveServiceDomain (sync) returns an empty result when NAPTR records exist but none is usable "
                "(unknown service, not preferred, replacement refused); resolveServiceDomainAsync falls back to SRV / A as RFC 3263 4.1 says",
    "AllowA4": "OBSERVATION X19-O3: resolveServiceDomainAsync asks AAAA only when a host has no A record; the synchronous path follows "
               "addressResolutionPolicy IPv4First ('queries both A/AAAA'): the two APIs return different address lists for a dual-stack host",
    "AllowCa4": "OBSERVATION X19-O5: a resolveServiceDomain answered from the cache (fromCache = true) carries only the A addresses of a "
                "dual-stack host - the first, uncached call returned A + AAAA for the same domain: the cache is not transparent",
    "AllowAfe": "OBSERVATION X19-O4: resolveServiceDomainAsync's A/AAAA fallback reports targets with an EMPTY address list (isSuccess() = true) "
                "when the domain has neither SRV nor A nor AAAA; the synchronous path returns no target",
}


def gen_cfg(ck, name, devs=(), emit=False):
    p = os.path.join(ck.work, name + ".cfg")
    c = {"EmitCases": emit, "MaxQOps": 3, "Full": ck.tier == "thorough"}
    for d in DEVS:
        c[d] = d in devs
    vf.write_cfg(p, constants=c, invariants=INVS + (["Emit"] if emit else []))
    return p


def trace_cfg(ck, allow):
    p = os.path.join(ck.work, "trace_%s.cfg" % ("_".join(sorted(allow)) or "strict"))
    vf.write_cfg(p, constants={a: a in allow for a in ALLOW}, invariants=["TraceChk"], postcondition="TracePost")
    return p


def rec_text(t, r):
    if t == "NAPTR":
        return "~".join(str(r[k]) for k in ("order", "pref", "flags", "svc", "repl"))
    if t == "SRV":
        return "~".join(str(r[k]) for k in ("prio", "weight", "port", "target"))
    return r["addr"]


def zone_text(z):
    return ";".join("%s,%s,%s,%s" % (e["n"], e["t"], e["rc"], "/".join(rec_text(e["t"], r) for r in e["recs"])) for e in z) or "-"


def case_line(c):
    begin = dict(c); begin["e"] = "Begin"
    return "kind=%s prefs=%s policy=%s ops=%s | %s | %s | %s" % (
        c["kind"], ",".join(c["prefs"]) or "-", c["policy"], ",".join(c["ops"]) or "-", zone_text(c["zone"]), zone_text(c["zone2"]),
        json.dumps(begin, separators=(",", ":")))


def norm(c):
    """TLC's json of a state / printed case -> plain case dict (tuples as lists)"""
    return {"kind": c["kind"], "zone": list(c["zone"]), "zone2": list(c["zone2"]), "prefs": list(c["prefs"]), "policy": c["policy"], "ops": list(c["ops"])}


def klass(c):
    """stratum of a service case: the NAPTR choice x whether SRV / addresses exist - data movement only"""
    nap = [e for e in c["zone"] if e["t"] == "NAPTR"]
    k = "none" if not nap else nap[0]["rc"] + ":" + ",".join("%s/%s" % (r["flags"], r["pref"]) for r in nap[0]["recs"])
    return (k, len(c["prefs"]))


def run(ck):
    thorough = ck.tier == "thorough"
    ck.make("drv_dnsresolver")
    ck.rule = ("terminal states of DnsResolver.tla = cases (zone x preferences | hostname x policy | query sequence with zone switch); all hostname "
               "cases, the counterexample zones of the Dev_* flags and a seeded stratified sample of the rest run on the real resolver; "
               "non-trivial = distinct service cases whose expected target set is not empty")
    jobs = {"mc": lambda: vf.run_tlc(GEN, gen_cfg(ck, "mc", emit=True), tag="X19_mc", workers=3, coverage=True, timeout=900)}
    for d in DEVS:
        jobs[d] = (lambda d=d: vf.run_tlc(GEN, gen_cfg(ck, "dev_" + d, devs=(d,)), tag="X19_" + d, workers=1, timeout=600,
                                          dump_trace=os.path.join(ck.work, "ce_%s.json" % d)))
    with cf.ThreadPoolExecutor(max_workers=4) as ex:
        res = dict(zip(jobs, ex.map(lambda k: jobs[k](), list(jobs))))
    for k, rr in res.items():
        if rr.error:
            raise vf.Infra("TLC error (%s): %s" % (k, rr.error))
    r = res["mc"]
    ck.states += r.distinct; ck.transitions += r.generated
    for a, (tk, gn) in r.coverage.items():
        ck.cov[a] = ck.cov.get(a, 0) + gn
    ck.note("TLC DnsResolver.tla: %s" % r.summary())
    if r.violated:
        ck.violation("DnsResolver.tla violates %s" % r.violated, ck.save_replay("gen", {"tlc.out": r.out})); return
    never = [a for a in ACTIONS if r.coverage.get(a, (0, 0))[1] == 0]
    if never:
        raise vf.Infra("X19 self-test: generator actions never taken: %s" % never)
    probes = []
    for d in DEVS:
        if not res[d].violated:
            raise vf.Infra("X19 self-test: %s = TRUE is not caught (TLC: %s)" % (d, res[d].summary()))
        ce = (res[d].trace_json or {}).get("counterexample", {}).get("action", [])
        if ce:
            probes.append(norm(ce[-1][2][1]))
    ck.note("self-test: each of %d Dev_* slips breaks a theorem of the documented behaviour (%s)" % (len(DEVS), ", ".join("%s: %s" % (d, res[d].violated) for d in DEVS)))
    cases = []
    for ln in r.prints:
        if ln.startswith('"'):
            try:
                cases.append(norm(json.loads(json.loads(ln))))
            except Exception as e:
                raise vf.Infra("cannot parse a case printed by TLC: %s (%s)" % (ln[:200], e))
    by = {k: [c for c in cases if c["kind"] == k] for k in "SHQ"}
    if not (len(by["S"]) == (43776 if thorough else 12312) and len(by["H"]) == 16 and len(by["Q"]) >= 500):
        raise vf.Infra("X19: unexpected number of generated cases: %s" % {k: len(v) for k, v in by.items()})
    # sample: every stratum of the service cases, then uniformly
    strata = {}
    for c in by["S"]:
        strata.setdefault(klass(c), []).append(c)
    per = 12 if thorough else 3
    chosen = list(probes) + by["H"]
    for k in sorted(strata):
        chosen += ck.rng.sample(strata[k], min(per, len(strata[k])))
    chosen += ck.rng.sample(by["S"], 3000 if thorough else 120)
    chosen += ck.rng.sample(by["Q"], len(by["Q"]) if thorough else 70)
    lines = [case_line(c) for c in chosen]
    ck.note("cases generated by TLC: %d service, %d hostname, %d query sequences; run: %d (%d strata of the service cases, %d directed probes)" % (
        len(by["S"]), len(by["H"]), len(by["Q"]), len(lines), len(strata), len(probes)))
    cp = os.path.join(ck.work, "cases.txt"); open(cp, "w").write("\n".join(lines) + "\n")
    outp = os.path.join(ck.work, "res.ndjson")
    rc, out = vf.run_driver("drv_dnsresolver", ["run", cp, outp, 12], timeout=1500)
    if rc != 0:
        raise vf.Infra("drv_dnsresolver failed: " + out[-1500:])
    events = vf.read_ndjson(outp); execs = vf.split_executions(events)
    if any(e["e"] == "DriverError" for e in events):
        raise vf.Infra("drv_dnsresolver set-up problem: %s" % [e for e in events if e["e"] == "DriverError"][:2])
    ck.evaluations += len(execs)
    ck.nontrivial = len({ln for ln, (s, evs) in zip(lines, execs) if any(e["e"] == "Result" and e.get("targets") for e in evs)})
    ck.sample({"kind": "resolver case", "case": lines[len(probes) + 20][:300], "events": [e for e in execs[len(probes) + 20][1] if e["e"] != "Begin"][:12]})
    for e in events:
        if e["e"] in ("Crashed", "HarnessTimeout"):
            rp = ck.save_replay("%s_%d" % (e["e"].lower(), e["x"]), {"case.txt": lines[e["x"]] + "\n"})
            ck.violation("DnsResolver: execution %s (case %s)" % ("crashed" if e["e"] == "Crashed" else "did not finish (hang)", lines[e["x"]][:300]), rp)
            return
    v = judge(ck, outp, events, execs, lines)
    if not v:
        return
    # self-test of the oracle: a result with one target removed must be rejected
    x = next(i for i, (s, evs) in enumerate(execs) if any(e["e"] == "Result" and e.get("targets") for e in evs))
    evs = json.loads(json.dumps(execs[x][1]))
    next(e for e in evs if e["e"] == "Result" and e.get("targets"))["targets"].pop()
    cpt = os.path.join(ck.work, "corrupt.ndjson"); open(cpt, "w").write("\n".join(json.dumps(e) for e in evs) + "\n")
    vc = validate(ck, trace_cfg(ck, ALLOW), cpt)
    if vc.accepted or vc.error:
        raise vf.Infra("X19 self-test: a result with a target removed was not rejected (%s)" % (vc.error or "accepted"))


def validate(ck, cfgp, path):
    return vf.validate_trace(TRACE, cfgp, path, tag="X19_val")      # DnsResolverOps.tla is found next to the trace module


def judge(ck, outp, events, execs, lines):
    v = validate(ck, trace_cfg(ck, ()), outp)
    if v.error:
        raise vf.Infra("trace validation error: " + v.error)
    ck.note("validate (strict): accepted=%s events=%d maxl=%d %.1fs" % (v.accepted, v.n, v.maxl, v.wall))
    if v.accepted:
        ck.traces += len(execs)
        return True
    vall = validate(ck, trace_cfg(ck, ALLOW), outp)
    if vall.error:
        raise vf.Infra("trace validation error: " + vall.error)
    if vall.accepted:
        ck.traces += len(execs)
        with cf.ThreadPoolExecutor(max_workers=4) as ex:
            needed = list(ex.map(lambda a: not validate(ck, trace_cfg(ck, tuple(b for b in ALLOW if b != a)), outp).accepted, ALLOW))
        for a, need in zip(ALLOW, needed):
            if need:
                ck.note("%s  [accepted only with the named deviation %s]" % (OBS[a], a))
        x = vf.exec_index_of_line(events, v.maxl)
        ck.note("first event the strict oracle refuses: %s   (case %s)" % (json.dumps(events[v.maxl - 1])[:300], lines[x].split("|")[0] + "| " + lines[x].split("|")[1][:200]))
        return True
    x = vf.exec_index_of_line(events, vall.maxl)
    bad = events[vall.maxl - 1] if 0 < vall.maxl <= len(events) else {}
    rp = ck.save_replay("reject_%d" % x, {"trace.ndjson": "\n".join(json.dumps(e) for e in execs[x][1]) + "\n", "case.txt": lines[x] + "\n"})
    ck.violation("DnsResolver: execution rejected by DnsResolverTrace.tla at %s (case %s)" % (json.dumps(bad)[:400], lines[x][:400]), rp)
    return False


def replay(ck, path):
    cp = os.path.join(path, "case.txt")
    if not os.path.exists(cp):
        return run(ck)
    ck.make("drv_dnsresolver")
    lines = [ln for ln in open(cp).read().splitlines() if ln.strip()]
    c2 = os.path.join(ck.work, "replay.txt"); open(c2, "w").write("\n".join(lines) + "\n")
    outp = os.path.join(ck.work, "replay.ndjson")
    rc, out = vf.run_driver("drv_dnsresolver", ["run", c2, outp, 4], timeout=600)
    events = vf.read_ndjson(outp); execs = vf.split_executions(events)
    ck.evaluations += len(execs)
    judge(ck, outp, events, execs, lines)
