"""X09 (extra, beyond the listed properties; not registered in MANIFEST.json) - leases.
  (a) iora::network::HttpClientPool / PooledHttpClient (network/http_client_pool.hpp): at most N concurrent leases, no client
      handed to two holders, every lease returned exactly once (moves included), blocked get()/get(timeout) woken by a return
      or by close(), get(timeout) never early, nothing acquired by a call that began after close() returned, close() with
      outstanding leases;
  (b) the per-host:port ConnectionLease inside HttpClient (network/http_client.hpp, reached through the IORA_VERIF friend):
      one lease per host, hosts independent, release wakes the right waiter (notify_all on the shared condition variable),
      lease-acquire timeout, cleanup() wakes and fails the waiters and is terminal.
ClientPool.tla / HostLease.tla (Impl, one action per critical section; Dev_* slips must be caught = self-test) are model-checked
exhaustively per program; every edge of their state graphs is covered by a behaviour that is replayed (call/critical-section
grain, `t*op` plans) on the real objects under the deterministic scheduler with virtual time; the Dev_* counterexamples are
replayed as directed probes; plus seeded random schedules (sync-op grain, extra points after unlocks, early time-outs) of fixed
and random programs and a preemption-bounded DFS.  Every recorded execution is judged by LeaseTrace.tla (Abs)."""
import os, json, re
import concurrent.futures as cf
import vf

SPECDIR = os.path.join(vf.SPEC, "extra")
POOL_FLAGS = ["Dev_ReturnKeepsLease", "Dev_NoNotifyOnReturn", "Dev_CloseNoWake", "Dev_NoClosedCheck", "Dev_CloseKeepsQueueOpen"]
HOST_FLAGS = ["Dev_NotifyOne", "Dev_RelNoNotify", "Dev_NoClosingCheck", "Dev_NotExclusive"]
POOL_ACTIONS = ["Begin", "Deq", "Wake", "Timeout", "Ret", "Notify", "QClose", "Bcast"]
HOST_ACTIONS = ["Acq", "Wake", "Timeout", "Rel", "NotifyRel", "Cleanup"]
POOL_INV = ["Exclusive", "Conserved", "ClosedRefuses", "FailOnlyWhenEmptyOrClosed", "NoStuck"]
HOST_INV = ["Exclusive", "ClosedRefuses", "FailOnlyWhenLeasedOrClosing", "NoStuck"]
OPNAME = {"g": "get", "gt": "getT", "tg": "tryGet", "r": "rel", "mv": "mv", "c": "close", "cl": "cleanup"}
TMO = 50
# named deviations the Abs oracle accepts and reports (the real code departs from what its documentation says)
OBSERVATIONS = {"InUseCountsDroppedClients": "after close() a returned client is destroyed, yet inUse() = capacity - available() keeps "
                                             "counting it: inUse() > 0 / utilization() > 0 with no lease outstanding"}

# (mode, N / hosts, timeout ms (host: 0 = untimed), program)   - every thread releases what it acquires; a blocking get only
# while holding nothing (else a thread could wait for itself), so "nothing can move" always means "everybody finished"
POOL_PROGS = [
    (1, {"a": ["g", "r", "c"], "b": ["g", "tg", "r", "r"], "c": ["gt", "r"]}),
    (2, {"a": ["g", "gt", "mv", "r", "r"], "b": ["g", "r", "c", "tg", "r"], "c": ["tg", "r", "g", "r"]}),
    (1, {"a": ["g", "r"], "b": ["g", "r"], "c": ["g", "r"]}),
    (2, {"a": ["g", "tg", "r", "r"], "b": ["g", "r", "g", "r"], "c": ["gt", "gt", "mv", "r"]}),
    (1, {"a": ["g", "c", "r"], "b": ["g", "r"], "c": ["tg", "r"]}),      # close() while holding the only client: wakes b
]
POOL_PROGS_T = [
    (2, {"a": ["g", "r", "g", "r"], "b": ["g", "gt", "r", "r"], "c": ["g", "r", "c"], "d": ["gt", "r"]}),
    (3, {"a": ["g", "gt", "gt", "mv", "mv", "r"], "b": ["g", "r", "tg", "r"], "c": ["gt", "r", "c", "g"]}),
]
HOST_PROGS = [
    (2, 0, {"a": ["aA", "r"], "b": ["aB", "aA", "r", "r"], "c": ["aB", "r"]}),
    (2, 0, {"a": ["aA", "r"], "b": ["aA", "r"], "c": ["aB", "cl", "r", "aA"]}),
    (2, TMO, {"a": ["aA", "r"], "b": ["aA", "r", "aB", "r"], "c": ["aB", "aA", "r", "r"]}),
]
HOST_PROGS_T = [
    (2, 0, {"a": ["aA", "r", "aB", "r"], "b": ["aB", "aA", "r", "r"], "c": ["aB", "r"], "d": ["aA", "r"]}),
    (3, TMO, {"a": ["aA", "aB", "r", "r"], "b": ["aB", "aC", "r", "r"], "c": ["aC", "r", "cl"], "d": ["aA", "r"]}),
]


def prog_text(prog):
    return ";".join("%s=%s" % (t, ",".join(ops)) for t, ops in prog.items())


def tla_prog(mode, prog):
    if mode == "pool":
        return vf.tla({t: [OPNAME[o] for o in ops] for t, ops in prog.items()})
    def one(o):
        return vf.Rec(op="acq", h=o[1]) if o[0] == "a" else vf.Rec(op=OPNAME[o], h="-")
    return vf.tla({t: [one(o) for o in ops] for t, ops in prog.items()})


def gen_mc(ck, tag, mode, n, tmo, prog, flag=None):
    d = os.path.join(ck.work, "mc_%s" % tag)
    os.makedirs(d, exist_ok=True)
    base = "ClientPool" if mode == "pool" else "HostLease"
    mod = "MC" + base + "_" + tag
    with open(os.path.join(d, mod + ".tla"), "w") as f:
        f.write("---- MODULE %s ----\nEXTENDS %s\nMCThreads == %s\nMCProg == %s\n====\n" % (
            mod, base, vf.tla(set(prog.keys())), tla_prog(mode, prog)))
    consts = {"Threads": "<- MCThreads", "Prog": "<- MCProg"}
    if mode == "pool":
        consts["N"] = n
        flags, inv = POOL_FLAGS, POOL_INV
    else:
        consts["Hosts"] = {chr(ord("A") + i) for i in range(n)}
        consts["Timed"] = tmo > 0
        flags, inv = HOST_FLAGS, HOST_INV
    for fl in flags:
        consts[fl] = (fl == flag)
    cfg = os.path.join(d, mod + ".cfg")
    vf.write_cfg(cfg, constants=consts, invariants=inv)
    return os.path.join(d, mod + ".tla"), cfg, os.path.join(d, "graph.dot"), os.path.join(d, "cex.json")


def labels_to_plan(mode, labels):
    """critical-section grain behaviour -> scheduler plan: `t` = one step, `t!` = timed-out wake-up, `t*op` = run t until its
    pending operation is op (or it blocks / finishes)"""
    acts = [vf.label_thread(l) for l in labels]
    acts = [(a, args[0]) for a, args in acts if args]
    plan = []
    for i, (a, t) in enumerate(acts):
        nxt = next((b for b, u in acts[i + 1:] if u == t), None)
        parks = nxt in ("Wake", "Timeout")     # this step ends with t parked on the condition variable
        # (a run-until entry would time a parked TIMED waiter out at once, so a step that parks is spelled out)
        to_end = [t + "*cv_wait", t] if parks else [t + "*point:call"]
        if a in ("Wake",):
            plan += [t, t] if parks else [t, t + "*point:call"]
        elif a == "Timeout":
            plan += [t + "!", t + "*point:call"]
        elif mode == "pool":
            if a == "Begin":
                plan += [t]
            elif a == "Deq":
                plan += to_end
            elif a == "Ret":
                plan += [t + ("*signal" if nxt == "Notify" else "*point:call")]
            elif a == "QClose":
                plan += [t + "*bcast"]
            elif a in ("Notify", "Bcast"):
                plan += [t + "*point:call"]
        else:
            if a == "Acq":
                plan += [t] + to_end
            elif a == "Cleanup":
                plan += [t, t + "*point:call"]
            elif a == "Rel":
                plan += [t, t + "*bcast"] if nxt == "NotifyRel" else [t]
            elif a == "NotifyRel":
                plan += [t + "*point:call"]
    return plan


def cex_labels(trace_json):
    out = []
    for a in trace_json["counterexample"]["action"]:
        name = a[1]["name"]
        t = a[1].get("context", {}).get("t")
        if t is not None:
            out.append('%s("%s")' % (name, t))
    return out


def random_program(rng, mode):
    """a random program obeying the rules stated at POOL_PROGS"""
    nthr = rng.randint(2, 4)
    prog = {}
    if mode == "pool":
        n = rng.randint(1, 3)
        closer = rng.choice(["a", "b", "c", "d"][:nthr] + [None])
        for t in ["a", "b", "c", "d"][:nthr]:
            ops, holding = [], 0
            for _ in range(rng.randint(2, 6)):
                c = rng.choice(["acq", "acq", "r", "r", "mv", "st", "sleep", "close"])
                if c == "acq":
                    ops.append("g" if holding == 0 and rng.random() < 0.6 else rng.choice(["gt", "tg"]))
                    holding += 1   # an upper bound: the acquisition may fail
                elif c == "r":
                    ops.append("r"); holding = max(0, holding - 1)
                elif c == "mv":
                    ops.append("mv"); holding = max(min(holding, 1), holding - 1)
                elif c == "st":
                    ops.append("st")
                elif c == "sleep":
                    ops.append("s%d" % rng.choice([10, 50, 70]))
                elif c == "close" and t == closer and "c" not in ops:
                    ops.append("c")
            ops += ["r"] * holding
            prog[t] = ops or ["tg", "r"]
        return ("pool", n, TMO, prog)
    nh = rng.randint(1, 3)
    tmo = rng.choice([0, TMO])
    closer = rng.choice(["a", "b", "c", "d"][:nthr] + [None, None])
    for t in ["a", "b", "c", "d"][:nthr]:
        ops, mine = [], []
        for _ in range(rng.randint(2, 5)):
            c = rng.choice(["acq", "acq", "r", "r", "sleep", "cl"])
            # hosts are taken in alphabetical order only (no lock-order inversion between threads -> no legitimate deadlock)
            if c == "acq":
                lo = (max(mine) + 1) if mine else 0
                if lo < nh:
                    h = rng.randint(lo, nh - 1)
                    ops.append("a" + chr(ord("A") + h)); mine.append(h)
            elif c == "r" and mine:
                ops.append("r"); mine.pop(0)
            elif c == "sleep":
                ops.append("s%d" % rng.choice([10, 50, 70]))
            elif c == "cl" and t == closer and "cl" not in ops:
                ops.append("cl")
        ops += ["r"] * len(mine)
        prog[t] = ops or ["aA", "r"]
    return ("host", nh, tmo, prog)


def run(ck):
    thorough = ck.tier == "thorough"
    ck.make("drv_s_lease")
    ck.rule = ("leases (client pool + per-host connection lease): every edge of the TLC state graphs of ClientPool.tla / "
               "HostLease.tla (per program) covered by a behaviour replayed on the real objects, Dev_* counterexamples as "
               "directed probes, seeded random schedules of fixed and random programs, preemption-bounded DFS; non-trivial = "
               "distinct executions in which an acquisition failed, waited (virtual time passed) or the pool/client was closed")
    jobs = [("p%d" % i, "pool", n, TMO, p) for i, (n, p) in enumerate(POOL_PROGS + (POOL_PROGS_T if thorough else []))]
    jobs += [("h%d" % i, "host", n, tmo, p) for i, (n, tmo, p) in enumerate(HOST_PROGS + (HOST_PROGS_T if thorough else []))]
    cases = []   # (case head, policy, kind)

    def head(mode, n, tmo, prog):
        return "%s %d %d | %s" % (mode, n, tmo, prog_text(prog))

    # ---- 1. exhaustive model checking per program + behaviour generation
    def mc(job):
        tag, mode, n, tmo, prog = job
        t, cfg, dot, _ = gen_mc(ck, tag, mode, n, tmo, prog)
        return job, vf.run_tlc(t, cfg, tag="X09_" + tag, workers=2, coverage=True, dump_dot=dot, lib_dirs=[SPECDIR], timeout=600), dot
    with cf.ThreadPoolExecutor(max_workers=3) as ex:
        results = list(ex.map(mc, jobs))
    cov = {"pool": {}, "host": {}}
    for (tag, mode, n, tmo, prog), r, dot in results:
        if r.error:
            raise vf.Infra("TLC failed on %s: %s" % (tag, r.error))
        ck.states += r.distinct; ck.transitions += r.generated
        for a, (tk, gn) in r.coverage.items():
            cov[mode][a] = cov[mode].get(a, 0) + gn
        if r.violated:
            ck.violation("%s violates %s for program %s" % ("ClientPool.tla" if mode == "pool" else "HostLease.tla", r.violated, prog_text(prog)),
                         ck.save_replay("impl_%s" % tag, {"tlc.out": r.out}))
            continue
        g = vf.Graph.load(dot); os.remove(dot)
        paths, covered, total = g.transition_cover(ck.rng, limit=400 if thorough else 70)
        paths += g.random_walks(ck.rng, 30 if thorough else 8)
        ck.note("%s %s N=%d (%s): %d states, %d edges, %d behaviours (%d/%d edges)" % (
            tag, mode, n, prog_text(prog), r.distinct, g.n_edges(), len(paths), covered, total))
        for p in paths:
            cases.append((head(mode, n, tmo, prog), "replay " + " ".join(labels_to_plan(mode, p)), "replay"))
    if ck.violations:
        return
    for mode, acts in (("pool", POOL_ACTIONS), ("host", HOST_ACTIONS)):
        for a in acts:
            if cov[mode].get(a, 0) == 0:
                raise vf.Infra("self-test: %s action %s never taken in any model-checked program" % (mode, a))
            ck.cov[mode + "." + a] = cov[mode][a]

    # ---- 2. self-test: every Dev_* slip is caught by TLC; its counterexample becomes a directed probe on the real code
    def dev(job):
        mode, flag = job
        progs = [j for j in jobs if j[1] == mode]
        for tag, _, n, tmo, prog in progs:
            t, cfg, _, cex = gen_mc(ck, tag + "_" + flag, mode, n, tmo, prog, flag=flag)
            r = vf.run_tlc(t, cfg, tag="X09_" + flag, workers=1, dump_trace=cex, lib_dirs=[SPECDIR], timeout=600)
            if r.violated:
                return mode, flag, (n, tmo, prog), r
        return mode, flag, None, None
    with cf.ThreadPoolExecutor(max_workers=3) as ex:
        devres = list(ex.map(dev, [("pool", f) for f in POOL_FLAGS] + [("host", f) for f in HOST_FLAGS]))
    caught = []
    for mode, flag, where, r in devres:
        if r is None:
            raise vf.Infra("self-test: %s = TRUE is not reported by TLC for any program" % flag)
        ck.states += r.distinct; ck.transitions += r.generated
        caught.append("%s->%s" % (flag, r.violated))
        if r.trace_json:
            n, tmo, prog = where
            plan = labels_to_plan(mode, cex_labels(r.trace_json))
            cases.append((head(mode, n, tmo, prog), "replay " + " ".join(plan), "probe:" + flag))
            ck.sample({"kind": "directed probe from the counterexample of " + flag, "program": prog_text(prog), "plan": plan[:24]})
    ck.note("self-test, slips caught by TLC: " + ", ".join(caught))

    # ---- 3. seeded random schedules: the fixed programs and random programs
    variants = ["", " au", " au tp=200", " tp=400"]
    nfix = 40 if thorough else 10
    for tag, mode, n, tmo, prog in jobs:
        for i in range(nfix):
            cases.append((head(mode, n, tmo, prog), "random %d%s" % (ck.seed * 7919 + i, variants[i % 4]), "random"))
    for i in range(1500 if thorough else 260):
        mode, n, tmo, prog = random_program(ck.rng, "pool" if i % 2 == 0 else "host")
        cases.append((head(mode, n, tmo, prog), "random %d%s" % (ck.seed * 104729 + i, variants[i % 4]), "randprog"))
    cases.append(("pool 2 %d | a=g,c,r,st;b=st" % TMO, "replay a*", "directed"))      # inUse() after close() (see OBSERVATIONS)
    cp = os.path.join(ck.work, "cases.txt")
    with open(cp, "w") as f:
        f.write("\n".join("%s | %s" % (h, pol) for h, pol, _ in cases) + "\n")
    outp = os.path.join(ck.work, "lease.ndjson")
    rc, out = vf.run_driver("drv_s_lease", ["run", cp, outp, 12], timeout=1500)
    if rc != 0:
        raise vf.Infra("drv_s_lease failed: " + out[-1500:])

    # ---- 4. preemption-bounded DFS over the schedules of the real objects
    dfs = [("pool", 1, TMO, POOL_PROGS[0][1]), ("pool", 2, TMO, POOL_PROGS[1][1]), ("host", 2, 0, HOST_PROGS[0][2]), ("host", 2, 0, HOST_PROGS[1][2])]
    dfs_heads = []
    for i, (mode, n, tmo, prog) in enumerate(dfs):
        dout = os.path.join(ck.work, "dfs%d.ndjson" % i)
        rc, out = vf.run_driver("drv_s_lease", ["dfs", head(mode, n, tmo, prog), 2, 1500 if thorough else 250, dout, 12], timeout=1500)
        if rc != 0:
            raise vf.Infra("drv_s_lease dfs failed: " + out[-1500:])
        ck.note("DFS (<=2 preemptions) %s: %s" % (prog_text(prog), out.strip().splitlines()[-1]))
        with open(outp, "a") as f:
            f.write(open(dout).read())
        dfs_heads.append(head(mode, n, tmo, prog))
        os.remove(dout)
    judge(ck, outp, cases, dfs_heads)


def judge(ck, outp, cases, dfs_heads=()):
    events = vf.read_ndjson(outp)
    execs = vf.split_executions(events)
    ck.evaluations += len(execs)
    kinds = {}
    drift = 0
    nontrivial = set()
    for i, (_, evs) in enumerate(execs):
        kind = cases[i][2] if i < len(cases) else "dfs"
        kinds[kind.split(":")[0]] = kinds.get(kind.split(":")[0], 0) + 1
        for e in evs:
            if e["e"] == "HarnessTimeout":
                raise vf.Infra("execution %d exceeded the harness time limit" % i)
            if e["e"] == "End" and e["outcome"] in ("steplimit", "external"):
                raise vf.Infra("execution %d inconclusive: %s" % (i, e["outcome"]))
            if e["e"] == "End" and e.get("drift") and kind == "replay":
                drift += 1
        if any((e["e"] == "Ret" and (not e["ok"] or e.get("el", 0) > 0)) or (e["e"] == "Call" and e["op"] in ("close", "cleanup")) for e in evs):
            nontrivial.add(json.dumps(evs))
    ck.nontrivial = len(nontrivial)
    ck.note("executions: %s; replayed behaviours that left their plan (drift, judged all the same): %d" % (kinds, drift))

    def case_of(x):
        return ("%s | %s" % (cases[x][0], cases[x][1])) if x < len(cases) else "(DFS execution)"
    for i, e in enumerate(events):
        if e["e"] == "Crashed":
            x = vf.exec_index_of_line(events, i + 1)
            rp = ck.save_replay("crash_%d" % x, {"trace.ndjson": "\n".join(json.dumps(v) for v in execs[x][1]) + "\n", "case.txt": case_of(x) + "\n"})
            ck.violation("lease execution crashed (%s)" % case_of(x), rp)
            return
    v = ck.validate(os.path.join(SPECDIR, "LeaseTrace.tla"), os.path.join(SPECDIR, "LeaseTrace.cfg"), outp, n_exec=len(execs))
    ck.states += v.states
    ck.sample({"kind": "lease execution", "case": case_of(0), "events": execs[0][1][:10]})
    devs = {}
    for m in re.finditer(r'<<"DEV", "(\w+)", (\d+)>>', v.out):
        devs.setdefault(m.group(1), []).append(int(m.group(2)))
    for name, ls in sorted(devs.items()):
        x = vf.exec_index_of_line(events, ls[0])
        ck.note("OBSERVATION %s: %s - seen in %d executions, first: %s at %s" % (name, OBSERVATIONS.get(name, "?"), len(set(ls)), case_of(x), json.dumps(events[ls[0] - 2])))
    if not v.accepted:
        x = vf.exec_index_of_line(events, v.maxl)
        bad = events[v.maxl - 1] if v.maxl - 1 < len(events) else {}
        rp = ck.save_replay("reject_%d" % x, {"trace.ndjson": "\n".join(json.dumps(e) for e in execs[x][1]) + "\n", "case.txt": case_of(x) + "\n"})
        ck.violation("lease execution rejected by LeaseTrace.tla at %s%s (%s)" % (
            json.dumps(bad), (" [invariant %s]" % v.violated) if v.violated else "", case_of(x)), rp)


def replay(ck, path):
    cp = os.path.join(path, "case.txt")
    line = open(cp).read().strip() if os.path.exists(cp) else ""
    if not line or line.startswith("("):
        return run(ck)
    ck.make("drv_s_lease")
    outp = os.path.join(ck.work, "replay.ndjson")
    rc, out = vf.run_driver("drv_s_lease", ["run", cp, outp, 1], timeout=300)
    if rc != 0:
        raise vf.Infra("drv_s_lease failed: " + out[-1500:])
    parts = line.split("|")
    judge(ck, outp, [("|".join(parts[:2]).strip(), parts[2].strip(), "replay")])
