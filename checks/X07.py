"""X07 (extra, beyond the listed properties; not registered in MANIFEST.json) — iora::util::TtlMap (per-entry TTL + approximate-LRU
capacity + periodic sweeper on an injected TimerService): a get never returns an expired or stale entry, a cache below capacity
does not forget, re-put refreshes value / expiry / position, the documented eviction victim, the sweeper removes exactly the
expired entries and does so within a sweep interval, counters, and teardown while the sweeper is live.

  1. spec/extra/TtlMap.tla (Impl: every operation and the sweep are one critical section; sequential reference in
     TtlMapOps.tla) is model-checked exhaustively in four configurations; every Dev_* flag must make TLC report a violation.
  2. Generator: the state graph (4 operations, VIEW without ghosts) gives a transition cover, TLC simulation gives long
     operation sequences; each is run on the REAL TtlMap + REAL TimerService under the deterministic scheduler with virtual
     time (the service's epoll thread is made schedulable by a virtual timerfd/eventfd/epoll layer in the driver) as one
     thread, and split over two threads under random schedules in which the sweeper's time-out may fire while readers run;
     a preemption-bounded DFS explores readers x sweeper x destructor; the teardown cases run again under AddressSanitizer.
  3. Every recorded execution is judged by spec/extra/TtlMapTrace.tla (exact virtual time at every linearization)."""
import os, re, json
import vf
from checks import xcore_common as xc

SPECDIR = xc.SPECDIR
TRACE = os.path.join(SPECDIR, "TtlMapTrace.tla")
TRACE_CFG = os.path.join(SPECDIR, "TtlMapTrace.cfg")
# deviation flag -> (invariants one of which TLC must report - which one comes first depends on the search order -, configuration)
DEVS = {"Dev_HitAtExpiry": (("HitOk",), "main"), "Dev_RefreshKeepsExpiry": (("RefreshToFront", "MissOk", "HitOk"), "main"),
        "Dev_GetSlidesExpiry": (("HitOk", "MissOk"), "main"), "Dev_NoMoveToFront": (("JustPutPresent", "Eviction"), "main"),
        "Dev_EvictFront": (("JustPutPresent", "Eviction", "MissOk"), "main"), "Dev_NoSecondChance": (("Eviction",), "lru"),
        "Dev_NoEviction": (("SizeBound",), "main"), "Dev_SweepReapsLive": (("SweepExact", "MissOk"), "main"),
        "Dev_GetNoStamp": (("HitStamps", "Eviction"), "lru"), "Dev_RecentBoundary": (("Eviction",), "lru")}
INVS = ["HitOk", "MissOk", "SizeBound", "JustPutPresent", "Eviction", "NoNeedlessEviction", "RefreshToFront", "SweepExact", "StatsOk", "HitStamps"]
ACTIONS = ["Put", "Get", "Invalidate", "Clear", "Stats", "Advance", "Sweep"]
CFGS = {"main": dict(Keys={1, 2, 3}, Ttls={0, 1, 3}, Advances={1, 2}, MaxEntries=2, DefaultTtl=2, SweepInterval=2, MaxTime=6),
        "lru": dict(Keys={1, 2, 3}, Ttls={4}, Advances={1, 2}, MaxEntries=2, DefaultTtl=4, SweepInterval=2, MaxTime=6),
        "zero": dict(Keys={1, 2}, Ttls={0, 1}, Advances={1, 2}, MaxEntries=0, DefaultTtl=2, SweepInterval=2, MaxTime=4),
        "one": dict(Keys={1, 2}, Ttls={0, 1}, Advances={1, 2}, MaxEntries=1, DefaultTtl=2, SweepInterval=1, MaxTime=4),
        "big": dict(Keys=set(range(1, 12)), Ttls={0, 2}, Advances={1, 3}, MaxEntries=9, DefaultTtl=12, SweepInterval=2, MaxTime=14)}


def consts(name, max_ops, devs=()):
    c = dict(CFGS[name]); c["MaxOps"] = max_ops
    for d in DEVS:
        c[d] = d in devs
    return c


def head(name, teardown):
    c = CFGS[name]
    return "%d %d %d %d" % (c["MaxEntries"], c["DefaultTtl"], c["SweepInterval"], teardown)


def ops_from_labels(labels):
    out = []
    for act, a in labels:
        if act == "Put": out.append("put:%d:%d" % (a[0], a[1]))
        elif act == "Get": out.append("get:%d" % a[0])
        elif act == "Invalidate": out.append("inv:%d" % a[0])
        elif act == "Clear": out.append("clear")
        elif act == "Stats": out.append("stats")
        elif act == "Advance": out.append("sleep:%d" % a[0])
    return out


def ops_from_hist(hist):
    out = []
    for h in hist:
        o = h["op"]
        if o == "put": out.append("put:%d:%d" % (h["k"], h["ttl"]))
        elif o in ("get", "inv"): out.append("%s:%d" % (o, h["k"]))
        elif o == "sleep": out.append("sleep:%d" % h["d"])
        else: out.append(o)
    return out


def split2(rng, ops):
    a, b = [], []
    for o in ops:
        (a if rng.random() < 0.5 else b).append(o)
        if o.startswith("sleep") and rng.random() < 0.5:
            (b if o in a[-1:] else a).append(o)     # both sleep: the clock moves past the sweep while both are parked
    return ";".join("%s=%s" % (n, ",".join(x)) for n, x in (("a", a), ("b", b)) if x)


def json_prints(r):
    out = []
    for ln in r.prints:
        if ln.startswith('"'):
            try:
                out.append(json.loads(json.loads(ln)))
            except Exception:
                pass
    return out


def run(ck):
    thorough = ck.tier == "thorough"
    ck.make("drv_s_ttlmap", "drv_s_ttlmap.asan")
    ck.rule = ("TtlMap: transition cover of the TLC state graph of TtlMap.tla + TLC simulation walks as operation sequences on the real "
               "TtlMap/TimerService under virtual time (one thread, and split over two threads with the sweeper firing at random); "
               "non-trivial = distinct event sequences in which an entry expires, is evicted or is swept")
    jobs = {}
    t, c = xc.write_mc(ck, "MCTtl", "TtlMap", consts("main", 6 if thorough else 4), INVS, view="View")
    jobs["mc"] = dict(module_path=t, cfg_path=c, workers=6, coverage=True)
    for name, ops in (("lru", 6), ("zero", 4), ("one", 5)):
        t, c = xc.write_mc(ck, "MCTtl_" + name, "TtlMap", consts(name, ops), INVS, view="View")
        jobs["mc_" + name] = dict(module_path=t, cfg_path=c, workers=3 if name == "lru" else 1, coverage=True)
    dot = os.path.join(ck.work, "g.dot")
    t, c = xc.write_mc(ck, "GenTtl", "TtlMap", consts("main", 4), INVS, view="GenView")
    jobs["gen"] = dict(module_path=t, cfg_path=c, workers=2, dump_dot=dot)
    for name, ops, num in (("main", 12, 400 if thorough else 80), ("lru", 12, 300 if thorough else 60), ("one", 10, 100 if thorough else 30), ("big", 30, 300 if thorough else 60)):
        t, c = xc.write_mc(ck, "SimTtl_" + name, "TtlMap", consts(name, ops), INVS + ["Emit"])
        jobs["sim_" + name] = dict(module_path=t, cfg_path=c, workers=1, simulate="num=%d" % num, depth=4 * ops, seed=ck.seed)
    for d, (inv, cfgname) in DEVS.items():
        t, c = xc.write_mc(ck, "MC_" + d, "TtlMap", consts(cfgname, 6 if cfgname == "lru" else 5, devs=[d]), INVS, view="View")
        jobs[d] = dict(module_path=t, cfg_path=c, workers=1, dump_trace=os.path.join(ck.work, d + ".json"))
    res = xc.tlc_many(jobs, max_parallel=6)
    for k in ("mc", "mc_lru", "mc_zero", "mc_one", "gen"):
        r = res[k]
        if r.error:
            raise vf.Infra("TLC %s: %s" % (k, r.error))
        if k.startswith("mc"):
            xc.account(ck, r, "" if k == "mc" else k[3:] + ".")
        ck.note("TtlMap.tla %s: %s" % (k, r.summary()))
        if r.violated:
            ck.violation("TtlMap.tla (%s) violates %s" % (k, r.violated), ck.save_replay("impl_" + k, {"tlc.out": r.out[-20000:]}))
            return
    xc.require_actions(ck, res["mc"], ACTIONS, "TtlMap.tla")
    ck.exhaustive = True
    for d, (inv, cfgname) in DEVS.items():
        if res[d].violated not in inv:
            raise vf.Infra("self-test: TtlMap.tla with %s should violate one of %s, got %r %s" % (d, inv, res[d].violated, (res[d].error or "")[-400:]))
    ck.note("self-test: %d deviation flags each violate their invariant" % len(DEVS))
    # ---------------------------------------------------------------- operation sequences -> the real map
    lines, kinds = [], []

    def add(cfgname, ops, kind, sched, teardown=0, two=False):
        if not ops:
            return
        prog = split2(ck.rng, ops) if two else "a=" + ",".join(ops)
        lines.append("%s | %s | %s" % (head(cfgname, teardown), prog, sched)); kinds.append(kind)
    for d, (inv, cfgname) in DEVS.items():   # the counterexamples of the deviating designs as directed probes
        st = xc.cex_states(res[d])
        if st:
            add(cfgname, ops_from_hist(st[-1]["hist"]) + ["get:1", "get:2", "get:3", "stats"], "probe:" + d, "random 1")
    # the 8-hop budget of the eviction scan (capacity 9): tail and 7 more recent, the only old entry is out of reach
    hop = ["put:%d:0" % k for k in range(1, 10)] + ["sleep:3"] + ["get:%d" % k for k in range(1, 9)] + ["put:10:0"] + ["get:%d" % k for k in range(1, 11)] + ["stats"]
    add("big", hop, "probe:hop-budget", "random 1")
    g = vf.Graph.load(dot); os.remove(dot)
    paths, covered, total = g.transition_cover(ck.rng, maxlen=12, limit=6000 if thorough else 700)
    ck.note("state graph (4 operations): %d nodes, %d edges; %d cover behaviours (%d edges)" % (len(g.nodes), total, len(paths), covered))
    for i, p in enumerate(paths):
        ops = ops_from_labels(xc.graph_labels(p))
        add("main", ops + (["get:%d" % ck.rng.randint(1, 3), "stats"] if i % 2 else []), "seq", "random %d" % (ck.seed + i), teardown=i % 3)
    nsim = 0
    for name in ("main", "lru", "one", "big"):
        r = res["sim_" + name]
        if r.error or r.violated:
            raise vf.Infra("TLC simulation %s: %s %s" % (name, r.violated, (r.error or "")[-500:]))
        seen = set()
        for hist in json_prints(r):
            ops = ops_from_hist(hist)
            key = ",".join(ops)
            if key in seen:
                continue
            seen.add(key); nsim += 1
            add(name, ops, "sim", "random %d" % (ck.seed + nsim), teardown=nsim % 3)
            add(name, ops, "sim2", "random %d tp=%d" % (ck.seed * 7 + nsim, ck.rng.choice([0, 60, 200])), teardown=nsim % 3, two=True)
            if nsim % 2:
                add(name, ops, "sim2", "random %d tp=%d" % (ck.seed * 11 + nsim, ck.rng.choice([30, 120])), teardown=(nsim + 1) % 3, two=True)
    if nsim < 100:
        raise vf.Infra("TLC simulation produced too few operation sequences (%d)" % nsim)
    ck.note("TLC simulation: %d distinct operation sequences (12 / 10 / 30 operations)" % nsim)
    outp = xc.run_driver_cases(ck, "drv_s_ttlmap", lines, "ttl", par=12)
    dfs_out = os.path.join(ck.work, "dfs.ndjson")
    rc, out = vf.run_driver("drv_s_ttlmap", ["dfs", "2 1 1 2 | a=put:1:1,sleep:1,get:1,put:3:0;b=put:2:0,get:1,sleep:1,stats", 2,
                                             2500 if thorough else 400, dfs_out, 12], timeout=900)
    if rc != 0:
        raise vf.Infra("drv_s_ttlmap dfs failed: " + out[-1000:])
    ck.note("dfs readers x sweeper x destructor (preemption bound 2): " + out.strip().splitlines()[-1])
    # the teardown cases again under AddressSanitizer (use-after-free of the sweeper's state, leaks)
    asan_lines = [ln for ln, k in zip(lines, kinds) if k == "sim2" and ln.split(" | ")[0].endswith((" 1", " 2"))][: 400 if thorough else 120]
    asan_out = xc.run_driver_cases(ck, "drv_s_ttlmap.asan", asan_lines, "asan", par=12, env={"ASAN_OPTIONS": "detect_leaks=0:abort_on_error=0"})
    allp = os.path.join(ck.work, "all.ndjson")
    with open(allp, "w") as f:
        f.write(open(outp).read()); f.write(open(dfs_out).read()); f.write(open(asan_out).read())
    execs = xc.exec_texts(allp)
    ck.evaluations += len(execs)
    ndfs = sum(1 for ln in open(dfs_out) if '"e":"Reset"' in ln)

    def case_of(x):
        return lines[x] if x < len(lines) else ("dfs" if x < len(lines) + ndfs else "asan: " + asan_lines[x - len(lines) - ndfs])
    for x, e in enumerate(execs):
        if any('"e":"Crashed"' in y or '"e":"HarnessTimeout"' in y for y in e):
            ck.violation("TtlMap execution crashed, hung or was stopped by AddressSanitizer (%s)" % case_of(x),
                         ck.save_replay("crash", {"trace.ndjson": "\n".join(e) + "\n", "case.txt": case_of(x) + "\n"}))
            return
        if any('"e":"BadTime"' in y for y in e):
            raise vf.Infra("virtual clock left the whole-second grid in execution %d (%s)" % (x, case_of(x)))

    def nontrivial(e):
        s = "".join(e)
        return '"hit":false' in s and ('"ev":1' in s or '"ev":2' in s or re.search(r'"Tick","t":[1-9]', s) is not None)
    ck.nontrivial = len({"\n".join(e) for e in execs if nontrivial(e)})
    i0 = kinds.index("sim2")
    ck.sample({"kind": "two readers + sweeper", "case": lines[i0], "events": [json.loads(y) for y in execs[i0][1:12]]})
    ok, bad, obs = xc.validate_sharded(ck, TRACE, TRACE_CFG, allp, nshards=6)
    if not ok:
        x = bad["exec"]
        rp = ck.save_replay("reject_%d" % x, {"trace.ndjson": "\n".join(execs[x]) + "\n", "case.txt": case_of(x) + "\n"})
        ck.violation("TtlMap execution rejected by TtlMapTrace.tla at %s%s (%s)" % (json.dumps(bad["event"]), " [%s]" % bad["violated"] if bad.get("violated") else "", case_of(x)), rp)
        return
    hp = kinds.index("probe:hop-budget")
    hs = [json.loads(y) for y in execs[hp] if '"op":"get"' in y and '"e":"Ret"' in y][-10:]
    ck.note("directed probe hop-budget (capacity 9, eight recent candidates): key 1 (strict tail) evicted=%s, key 9 (old, out of reach) kept=%s" % (not hs[0]["hit"], hs[8]["hit"]))
    # oracle self-tests
    base = next(e for e in execs if any('"op":"get"' in y and '"hit":true' in y for y in e) and '"th":"b"' not in "".join(e))
    i = next(i for i, y in enumerate(base) if '"op":"get"' in y and '"hit":true' in y)
    d = json.loads(base[i])
    xc.must_reject(ck, TRACE, TRACE_CFG, "\n".join(base[:i] + [json.dumps(dict(d, v=d["v"] + 1))] + base[i + 1:]) + "\n", "stale value")
    xc.must_reject(ck, TRACE, TRACE_CFG, "\n".join(base[:i] + [json.dumps(dict(d, hit=False, v=0))] + base[i + 1:]) + "\n", "live entry forgotten")
    # the same hit moved behind its expiry: shift every later time stamp of the execution by 100 s except this Ret's own answer
    late = [json.dumps(dict(json.loads(y), t=json.loads(y)["t"] + 100000)) if j >= i - 1 and '"t":' in y else y for j, y in enumerate(base)]
    xc.must_reject(ck, TRACE, TRACE_CFG, "\n".join(late) + "\n", "hit after expiry")
    ck.note("oracle self-test: stale value / forgotten live entry / hit after expiry are rejected")


def replay(ck, path):
    run(ck)
