"""X08 (extra, beyond the listed properties; not registered in MANIFEST.json) — iora::network::ObjectPool / PooledObject:
an object is held by at most one holder, the free list is bounded by maxPoolSize, a reused object has been reset before it
became available, every created object is destroyed exactly once, getStats() agrees with the reference counters.

  1. spec/extra/ObjectPool.tla (Impl, one action per critical section; 2 threads x 2 handles) is model-checked exhaustively;
     every Dev_* flag must make TLC report a violation (self-test) and its counterexample becomes a directed probe.
  2. The state graph (MaxOps = 5) is dumped; behaviours sampled from it (transition cover sample + random walks) are replayed
     on the real pool at critical-section grain under the deterministic scheduler (plan entries t*unlock / t*lock), the same
     thread programs also run under seeded random schedules, and a preemption-bounded DFS explores one fixed program.
     PooledObject programs (makePooled / destructor / move-assignment / release()) are derived from the same behaviours.
  3. Every recorded execution is judged by spec/extra/PoolTrace.tla (Abs: free/held/dead sets, linearization search).
Observations (reported as notes, the check stays green): clear() is not counted in totalDestroyed (named deviation
Obs_ClearNotCounted, accepted by the oracle); a PooledObject that outlives its pool is a use-after-free (ASan probe)."""
import os, json
import vf
from checks import xcore_common as xc

SPECDIR = xc.SPECDIR
SPEC = os.path.join(SPECDIR, "ObjectPool.tla")
TRACE = os.path.join(SPECDIR, "PoolTrace.tla")
TRACE_CFG = os.path.join(SPECDIR, "PoolTrace.cfg")
ACTIONS = ["AcquireCS", "ReleaseReset", "ReleaseCS", "ReleaseNull", "SetMaxCS", "ClearCS", "StatsCS"]
DEVS = {"Dev_NoPop": "AtMostOneHolder", "Dev_CapOffByOne": "Capacity", "Dev_NoTrim": "Capacity",
        "Dev_ResetAfterPush": "CleanOnAcquire", "Dev_CreateWhenFree": "OnlyWhenEmpty"}
INVS = ["AtMostOneHolder", "NeverNull", "OnlyWhenEmpty", "Capacity", "CleanOnAcquire", "NoTouchAfterRelease", "Conservation", "StatsSane"]


def consts(max_ops, devs=(), resetter=True, procs=("a", "b")):
    c = {"Procs": set(procs), "Handles": {1, 2}, "Initial": 1, "DefaultMax": 100, "Maxes": {0, 1}, "MaxObjs": 3,
         "MaxOps": max_ops, "HasResetter": resetter, "Obs_ClearNotCounted": True}
    for d in DEVS:
        c[d] = d in devs
    return c


def to_case(labels, resetter=True, pooled=False, initial=1):
    """(action, args) list of an ObjectPool.tla behaviour -> (thread programs, critical-section-grain replay plan)"""
    prog = {"a": [], "b": []}
    plan = ["main*"]
    pending = set()   # releases whose resetter step has been taken
    for act, a in labels:
        t = a[0]
        if act == "AcquireCS":
            prog[t].append(("pacq:%d" if pooled else "acq:%d") % a[1]); plan += [t + "*unlock", t]
        elif act == "ReleaseReset":
            prog[t].append(("pdrop:%d" if pooled else "rel:%d") % a[1]); plan += [t + "*lock"]; pending.add((t, a[1]))
        elif act == "ReleaseCS":
            if (t, a[1]) not in pending:   # no resetter (or the deviating design's order): the whole release in one go
                prog[t].append(("pdrop:%d" if pooled else "rel:%d") % a[1])
            pending.discard((t, a[1]))
            plan += [t + "*unlock", t]
        elif act == "ReleaseNull":
            prog[t].append("relnull"); plan += [t]
        elif act == "SetMaxCS":
            prog[t].append("setmax:%d" % a[1]); plan += [t + "*unlock", t]
        elif act == "ClearCS":
            prog[t].append("clear"); plan += [t + "*unlock", t]
        elif act == "StatsCS":
            prog[t].append("stats"); plan += [t + "*unlock", t]
        else:
            break   # LateReset exists only in the deviating design: the probe ends here
    ps = ";".join("%s=%s" % (t, ",".join(o)) for t, o in prog.items() if o)
    return "%d %d -1 | %s" % (initial, 1 if resetter else 0, ps), plan


def pooled_variant(rng, prog_field):
    """rewrite some thread programs to use PooledObject move-assignment / release()"""
    out = []
    for part in prog_field.split(";"):
        name, ops = part.split("=")
        ops = ops.split(",")
        new = []
        for o in ops:
            new.append(o)
            if o.startswith("pacq:") and rng.random() < 0.5:
                h = int(o[5:]); other = 3 - h
                new.append(rng.choice(["pmove:%d:%d" % (h, other + 2), "pdetach:%d:%d" % (h, h + 2), "pacq:%d" % (other + 2)]))
        out.append(name + "=" + ",".join(new))
    return ";".join(out)


def run(ck):
    thorough = ck.tier == "thorough"
    ck.make("drv_s_objpool", "drv_s_objpool.asan")
    ck.rule = ("ObjectPool: behaviours of the TLC state graph of ObjectPool.tla replayed at critical-section grain on the real pool "
               "+ the same programs under random schedules + preemption-bounded DFS; non-trivial = distinct event sequences "
               "with two threads inside the pool")
    # ---------------------------------------------------------------- 1. model checking + self-tests
    jobs = {}
    t, c = xc.write_mc(ck, "MCPool", "ObjectPool", consts(7 if thorough else 6), INVS)
    jobs["mc"] = dict(module_path=t, cfg_path=c, workers=4, coverage=True)
    t, c = xc.write_mc(ck, "MCPoolNoReset", "ObjectPool", consts(5, resetter=False), INVS)
    jobs["mc_noreset"] = dict(module_path=t, cfg_path=c, workers=2, coverage=True)
    dot = os.path.join(ck.work, "g.dot")
    t, c = xc.write_mc(ck, "GenPool", "ObjectPool", consts(5), INVS)
    jobs["gen"] = dict(module_path=t, cfg_path=c, workers=2, dump_dot=dot)
    for d in DEVS:
        t, c = xc.write_mc(ck, "MC_" + d, "ObjectPool", consts(6, devs=[d]), INVS)
        jobs[d] = dict(module_path=t, cfg_path=c, workers=1, dump_trace=os.path.join(ck.work, d + ".json"))
    t, c = xc.write_mc(ck, "MC_Obs", "ObjectPool", consts(6), ["StatsIdentity"])
    jobs["obs"] = dict(module_path=t, cfg_path=c, workers=1, dump_trace=os.path.join(ck.work, "obs.json"))
    res = xc.tlc_many(jobs, max_parallel=5)
    for k in ("mc", "mc_noreset", "gen"):
        r = res[k]
        if r.error:
            raise vf.Infra("TLC %s: %s" % (k, r.error))
        xc.account(ck, r, "" if k == "mc" else k + ".")
        ck.note("ObjectPool.tla %s: %s" % (k, r.summary()))
        if r.violated:
            ck.violation("ObjectPool.tla (%s) violates %s" % (k, r.violated), ck.save_replay("impl_" + k, {"tlc.out": r.out[-20000:]}))
            return
    xc.require_actions(ck, res["mc"], ACTIONS, "ObjectPool.tla")
    ck.exhaustive = True
    probes = []
    for d, inv in DEVS.items():
        r = res[d]
        if r.violated != inv:
            raise vf.Infra("self-test: ObjectPool.tla with %s should violate %s, got %r %s" % (d, inv, r.violated, (r.error or "")[-500:]))
        probes.append((d, xc.cex_labels(r)))
    r = res["obs"]
    if r.violated != "StatsIdentity":
        raise vf.Infra("self-test: StatsIdentity should fail in the model of the code as it is (Obs_ClearNotCounted), got %r" % r.violated)
    probes.append(("Obs_ClearNotCounted", xc.cex_labels(r) + [("StatsCS", ["a"])]))
    ck.note("self-test: %d deviation flags each violate their invariant; StatsIdentity fails with Obs_ClearNotCounted" % len(DEVS))
    # ---------------------------------------------------------------- 2. behaviours -> the real pool
    g = vf.Graph.load(dot)
    os.remove(dot)
    npaths = 1500 if thorough else 260
    paths, covered, total = g.transition_cover(ck.rng, maxlen=40, limit=npaths)
    walks = g.random_walks(ck.rng, 600 if thorough else 120, maxlen=40)
    ck.note("state graph: %d nodes, %d edges; %d cover behaviours (%d edges) + %d random walks" % (len(g.nodes), total, len(paths), covered, len(walks)))
    lines, kinds = [], []
    for name, labs in probes:
        head, plan = to_case(labs)
        lines.append("%s | replay %s" % (head, " ".join(plan))); kinds.append("probe:" + name)
    for i, p in enumerate(paths + walks):
        labs = xc.graph_labels(p)
        head, plan = to_case(labs)
        lines.append("%s | replay %s" % (head, " ".join(plan))); kinds.append("replay")
        if i % 2 == 0:
            lines.append("%s | random %d" % (head, ck.seed * 31 + i)); kinds.append("random")
        if i % 3 == 0:   # the same behaviour through PooledObject (RAII release), with moves / release() mixed in
            head2, plan2 = to_case(labs, pooled=True)
            f = head2.split(" | ")
            lines.append("%s | %s | random %d" % (f[0], pooled_variant(ck.rng, f[1]), ck.seed * 37 + i)); kinds.append("pooled")
        if i % 5 == 0:   # without a resetter, default capacity vs. a tight one
            head3, _ = to_case(labs, resetter=False, initial=2)
            lines.append("%s | random %d" % (head3.replace(" 0 -1 |", " 0 %d |" % ck.rng.choice([-1, 0, 1])), ck.seed * 41 + i)); kinds.append("noreset")
    outp = xc.run_driver_cases(ck, "drv_s_objpool", lines, "pool")
    dfs_out = os.path.join(ck.work, "dfs.ndjson")
    rc, out = vf.run_driver("drv_s_objpool", ["dfs", "1 1 1 | a=acq:1,rel:1,acq:2;b=acq:1,setmax:0,rel:1,stats", 2,
                                              3000 if thorough else 500, dfs_out, 12], timeout=900)
    if rc != 0:
        raise vf.Infra("drv_s_objpool dfs failed: " + out[-1000:])
    ck.note("dfs (preemption bound 2): " + out.strip().splitlines()[-1])
    allp = os.path.join(ck.work, "all.ndjson")
    with open(allp, "w") as f:
        f.write(open(outp).read()); f.write(open(dfs_out).read())
    raw = open(allp).read().splitlines()
    execs = xc.exec_texts(allp)
    ck.evaluations += len(execs)
    if any('"e":"Crashed"' in x or '"e":"HarnessTimeout"' in x for x in raw):
        x = next(i for i, e in enumerate(execs) if any('"Crashed"' in y or '"HarnessTimeout"' in y for y in e))
        ck.violation("object pool execution crashed or hung", ck.save_replay("crash", {"trace.ndjson": "\n".join(execs[x]) + "\n", "case.txt": (lines[x] if x < len(lines) else "dfs") + "\n"}))
        return
    drift = sum(1 for i, e in enumerate(execs) if i < len(kinds) and kinds[i] == "replay" and '"drift":true' in e[-1])
    nrep = sum(1 for k in kinds if k == "replay")   # (probes of deviating designs may be infeasible on the real code)
    ck.note("replayed %d TLC behaviours at critical-section grain, %d drifted" % (nrep, drift))

    def concurrent(e):
        depth = 0
        for y in e:
            if '"e":"Call"' in y: depth += 1
            elif '"e":"Ret"' in y: depth -= 1
            if depth >= 2: return True
        return False
    ck.nontrivial = len({"\n".join(e) for e in execs if concurrent(e)})
    ck.sample({"kind": "pool behaviour (TLC) replayed", "case": lines[len(probes)], "events": [json.loads(x) for x in execs[len(probes)][:10]]})
    # ---------------------------------------------------------------- 3. the oracle
    ok, bad, obs = xc.validate_sharded(ck, TRACE, TRACE_CFG, allp, nshards=6 if thorough else 4)
    if not ok:
        x = bad["exec"]
        rp = ck.save_replay("reject_%d" % x, {"trace.ndjson": "\n".join(execs[x]) + "\n", "case.txt": (lines[x] if x < len(lines) else "dfs") + "\n"})
        ck.violation("object pool execution rejected by PoolTrace.tla at %s (%s)" % (json.dumps(bad["event"]), lines[x] if x < len(lines) else "dfs"), rp)
        return
    if drift > nrep // 10:
        raise vf.Infra("too many replays drifted (%d of %d): the plan mapping no longer matches the code's synchronisation" % (drift, nrep))
    # observation 1: the named deviation, on the probe derived from TLC's StatsIdentity counterexample
    pi = [i for i, k in enumerate(kinds) if k == "probe:Obs_ClearNotCounted"][0]
    hit = sorted({xc.exec_of_line(raw, ln) for ln in obs.get("ClearNotCounted", [])})
    if pi in hit:
        st = [json.loads(y) for y in execs[pi] if '"op":"stats"' in y and '"e":"Ret"' in y][-1]
        ck.note("OBSERVATION O-08a (Obs_ClearNotCounted): clear() destroys the free objects without counting them in "
                "totalDestroyed: case '%s' -> getStats() = created %d, destroyed %d, available %d with nothing outstanding "
                "(%d executions show it)" % (lines[pi].split(" | ")[1], st["cr"], st["ds"], st["av"], len(hit)))
    else:
        ck.note("observation O-08a (clear() not counted in totalDestroyed) NOT reproduced on this tree")
    # observation 2: PooledObject outliving its pool (ASan build)
    uaf = os.path.join(ck.work, "outlive.ndjson")
    rc, out = vf.run_driver("drv_s_objpool.asan", ["outlive", uaf], timeout=120, env={"ASAN_OPTIONS": "detect_leaks=0"})
    ev = [e["e"] for e in vf.read_ndjson(uaf)]
    if "Crashed" in ev:
        ck.note("OBSERVATION O-08b: PooledObject keeps a raw ObjectPool*; 'auto p = makePooled(pool); destroy pool; destroy p' is a "
                "heap-use-after-free in ObjectPool::release (AddressSanitizer aborts the execution)")
    else:
        ck.note("observation O-08b (PooledObject outliving its pool) not reproduced: " + ",".join(ev))
    # oracle self-tests: corrupted executions must be rejected
    base = next(e for e in execs if sum('"op":"acquire"' in y and '"e":"Ret"' in y for y in e) >= 2 and any('"e":"Dtor"' in y for y in e))
    d = next(y for y in base if '"e":"Dtor"' in y)
    xc.must_reject(ck, TRACE, TRACE_CFG, "\n".join(base[:base.index(d) + 1] + [d] + base[base.index(d) + 1:]) + "\n", "double destroy")
    rets = [y for y in base if '"op":"acquire"' in y and '"e":"Ret"' in y]
    o1 = json.loads(rets[0])["o"]
    dup = [json.dumps(dict(json.loads(y), o=o1)) if y == rets[1] and json.loads(rets[1])["o"] != o1 else y for y in base]
    if dup != base:
        i0, i1 = base.index(rets[0]), base.index(rets[1])
        if not any('"op":"release","o":%d' % o1 in y for y in base[i0:i1]):
            xc.must_reject(ck, TRACE, TRACE_CFG, "\n".join(dup) + "\n", "object handed out twice")
    nd = [y for y in base if y != d]
    xc.must_reject(ck, TRACE, TRACE_CFG, "\n".join(nd) + "\n", "leaked object")
    ck.note("oracle self-test: double destroy / object handed out twice / leaked object are rejected")


def replay(ck, path):
    run(ck)
