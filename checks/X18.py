"""X18 (extra, not in MANIFEST.json) — iora::network::dns::DnsTransport: every query ends with exactly one completion.

  1. TLC model-checks spec/extra/DnsTransport.tla (Impl shaped like dns_transport.hpp: pendingQueries_, tcpFallback, the
     timeout timer, stop(), the 10-second cleanup thread with its four phases and the retry timer) for 2 queries x 3
     transport modes x every script of MaxResp server responses against AtMostOnce, PendingHasTimer, StopCompletes,
     Matching, TruncNotFinal, TcpOnlyAfterTrunc, Budget.  Every Dev_* slip must be caught by TLC (self-test); every action
     must be taken.
  2. The state graph of the specification configured AS THE CODE IS (Dev_NoQuestionCheck, Dev_DupTruncCompletes; cleanup
     thread off: it wakes every 10 s) is dumped; a transition cover of it is the test plan.  Every path is a script for
     harness/drv_dnstransport.cpp: the real DnsTransport against UDP sockets / TCP listeners of the driver on 127.0.0.1,
     in lock-step (answers, NXDOMAIN, truncation, other ids, other questions, other server, unparsable messages, late and
     duplicate responses, timeouts, stop()).
  3. The recorded events are validated by TLC against the Abs trace specification DnsTransportTrace.tla (P1..P6 only).
     A rejection is re-validated with the two NAMED deviations allowed: accepted then => `OBSERVATION` notes (green); any
     other deviation => VIOLATION.  Model drift (the code completed a query differently from the Impl prediction but Abs
     accepts it) is a note.
"""
import os, json, re, concurrent.futures as cf
import vf

SPECDIR = os.path.join(vf.SPEC, "extra")
IMPL = os.path.join(SPECDIR, "DnsTransport.tla")
TRACE = os.path.join(SPECDIR, "DnsTransportTrace.tla")
INVS = ["TypeOK", "AtMostOnce", "PendingHasTimer", "NoLostResponse", "StopCompletes", "DoneHasCompletion", "Matching", "TruncNotFinal",
        "TcpOnlyAfterTrunc", "Budget"]
DEVS = {"Dev_NoErase": {"AtMostOnce", "PendingHasTimer"}, "Dev_AcceptAnyId": {"Matching"}, "Dev_NoQuestionCheck": {"Matching"},
        "Dev_TimeoutNoPendingCheck": {"AtMostOnce"}, "Dev_TruncCompletes": {"TruncNotFinal"},
        "Dev_DupTruncCompletes": {"TruncNotFinal"}, "Dev_StopSkipsPending": {"StopCompletes", "DoneHasCompletion"},
        "Dev_FallbackTwice": {"TcpOnlyAfterTrunc", "Budget"}, "Dev_CleanupRace": {"AtMostOnce"},
        "Dev_RetryOffByOne": {"Budget"}, "Dev_FallbackDisarms": {"PendingHasTimer"}, "Dev_SharedSessionIds": {"NoLostResponse"}}
AS_IS = ("Dev_NoQuestionCheck", "Dev_DupTruncCompletes", "Dev_SharedSessionIds")   # how dns_transport.hpp behaves today (meta: observations)
DEV_ONLY_ACTIONS = {"RespTruncDupHit", "RespWrongQHit", "RespMisrouted"}
ACTIONS = ["Configure", "Query", "QueryStopped", "Stop", "RespAnswerHit", "RespAnswerLate", "RespNxHit", "RespTruncFallback",
           "RespTruncDeliver", "RespTruncDup", "RespTruncLate", "RespWrongId", "RespWrongQ", "RespOtherServer",
           "RespMalformedHit", "RespMalformedLate", "Timeout", "TimeoutStale", "CleanupCollect", "CleanupLook",
           "CleanupPhase3", "CleanupFinish", "RetryFire"]
OBS = {"AllowWrongQ": "OBSERVATION X18-O1: a response carrying a pending query's id but ANOTHER QUESTION completes that query "
                      "(processResponse matches on id + server + port only; RFC 5452 9.1 asks for the question too)",
       "AllowDupTrunc": "OBSERVATION X18-O2: mode Both - a second truncated UDP datagram, arriving while the TCP fallback is "
                        "under way, completes the query with the truncated (empty) response",
       "AllowSidCollision": "OBSERVATION X18-O4: two servers, mode Both - sessionToServer_ is keyed by the bare SessionId, but the UDP and "
                            "the TCP Transport both number their sessions from 1: after a TCP fallback to the server whose UDP session has "
                            "another number, responses on the UDP session with the TCP session's number are attributed to the wrong server "
                            "and dropped (no completion before the timeout, no TCP fallback)"}
OBS["AllowCleanupRace"] = ("OBSERVATION X18-O5: DOUBLE COMPLETION reproduced on the real DnsTransport - cleanupExpiredQueries collects an expired "
                           "query in phase 1 (its timeout timer is late: another query's slow callback keeps the timer thread busy), a response "
                           "completes and erases it, phases 3/4 then call its callback AGAIN with DnsTimeoutException (the TLC counterexample of "
                           "Dev_CleanupRace; the probe holds the cleanup thread between phase 1 and phase 3 by interposing pthread_mutex_lock)")
ALLOW = ("AllowWrongQ", "AllowDupTrunc", "AllowSidCollision", "AllowCleanupRace")
ALLOW_TOKEN = {"AllowWrongQ": r"WQ", "AllowDupTrunc": r"TF\d (?:.* )?TR\d", "AllowSidCollision": r" (m|Tf)\d", "AllowCleanupRace": r"probe=cleanup"}


def cfg(ck, name, devs=(), cleanup=True, maxresp=3, invs=INVS, retries=1, fifo=False):
    p = os.path.join(ck.work, name + ".cfg")
    c = {"Queries": "{1, 2}", "Modes": '{"U", "B", "T"}', "NSrvs": "{1, 2}", "MaxResp": maxresp, "Retries": retries, "WithCleanup": cleanup,
         "WithStop": True, "FifoTimers": fifo}
    for d in DEVS:
        c[d] = d in devs
    vf.write_cfg(p, constants=c, invariants=invs)
    return p


def tokens(path, rng):
    """edge labels of one path -> (header fields, driver tokens, predicted completion kind per query)"""
    mode, nsrv, toks, pred, pending, stopped = "U", 1, [], {}, [], False
    tmo = "S" if any(l.startswith("Timeout(") for l in path) else "L"
    for lab in path:
        a, args = vf.label_thread(lab)
        q = args[0] if args else ""
        p = {"udp": "u", "tcp": rng.choice("tT")}.get(args[1], "") if len(args) > 1 else ""

        def hit(kind):
            pred.setdefault(q, kind)
            if q in pending:
                pending.remove(q)
        if a == "Configure":
            mode, nsrv = args[0], int(args[1])
        elif a == "Query":
            toks.append("Q" + q); pending.append(q)
        elif a == "QueryStopped":
            toks.append("QS" + q); pred.setdefault(q, "notrunning")
        elif a == "Stop":
            toks += ["F", "ST"]
            for x in pending:
                pred.setdefault(x, "stopped")
            pending, stopped = [], True
        elif a == "RespAnswerHit":
            toks += ["A" + p + q, "W" + q]; hit("ans")
        elif a == "RespAnswerLate":
            toks.append("A" + p + q)
        elif a == "RespNxHit":
            toks += ["N" + p + q, "W" + q]; hit("nx")
        elif a == "RespTruncFallback":
            toks.append("TF" + q)
        elif a == "RespTruncDeliver":
            toks += ["TR" + q, "W" + q]; hit("trunc")
        elif a == "RespTruncDupHit":
            toks += ["TR" + q, "w" + q]; hit("trunc")
        elif a in ("RespTruncDup", "RespTruncLate"):
            toks.append("TR" + q)
        elif a == "RespWrongId":
            toks.append("WI" + p + q)
        elif a == "RespWrongQHit":
            toks += ["WQ" + p + q, "w" + q]; hit("ans")
        elif a == "RespWrongQ":
            toks.append("WQ" + p + q)
        elif a == "RespOtherServer":
            toks.append("WS" + q)
        elif a == "RespMalformedHit":
            toks += ["MF" + p + q, "W" + q]; hit("parse")
        elif a == "RespMalformedLate":
            toks.append("MF" + p + q)
        elif a == "Timeout":
            toks.append("TO" + q); hit("timeout")
        elif a == "RespMisrouted":
            if args[2] == "trunc" and mode == "B":
                toks.append("Tf" + q)          # the fallback the property demands; the as-is model says it does not happen
            else:
                toks += [{"ans": "A" + p, "nx": "N" + p, "trunc": "TR", "malformed": "MF" + p}[args[2]] + q, "m" + q]
        else:
            raise vf.Infra("X18: no driver step for action " + lab)
    for x in pending:
        pred.setdefault(x, "stopped")      # the driver stops the transport at the end of every case
    head = "mode=%s retries=%d tmo=%s nsrv=%d api=%s" % (mode, rng.choice([0, 2]), tmo, nsrv, rng.choice(["async", "async", "sync"]))
    return head, toks, pred


FAMILY = {"Query": "Q", "QueryStopped": "Q", "Stop": "ST", "RespAnswerHit": "A", "RespAnswerLate": "A", "RespNxHit": "N",
          "RespTruncFallback": "TR", "RespTruncDeliver": "TR", "RespTruncDup": "TR", "RespTruncDupHit": "TR", "RespTruncLate": "TR",
          "RespWrongId": "WI", "RespWrongQ": "WQ", "RespWrongQHit": "WQ", "RespOtherServer": "WS", "RespMalformedHit": "MF",
          "RespMalformedLate": "MF", "Timeout": "TO", "Configure": "C"}


def stimulus(label):
    """what the environment does in a step, whatever branch the code takes: (family, args) - None for internal steps"""
    a, args = vf.label_thread(label)
    if a == "RespMisrouted":
        return ({"ans": "A", "nx": "N", "trunc": "TR", "malformed": "MF"}[args[2]],) + tuple(args[:1] if args[2] == "trunc" else args[:2])
    if a not in FAMILY:
        return None
    return (FAMILY[a],) + tuple(args)


def run_cases(ck, lines, name, binary="drv_dnstransport"):
    cp = os.path.join(ck.work, name + ".txt"); open(cp, "w").write("\n".join(lines) + "\n")
    outp = os.path.join(ck.work, name + ".ndjson")
    rc, out = vf.run_driver(binary, ["run", cp, outp, 32 if binary == "drv_dnstransport" else 12], timeout=1500)   # the cases mostly sleep
    if rc != 0:
        raise vf.Infra("%s failed: %s" % (binary, out[-1500:]))
    events = vf.read_ndjson(outp)
    if any(e["e"] == "DriverError" for e in events):
        raise vf.Infra("drv_dnstransport could not set up its sockets / the transport: %s" % [e for e in events if e["e"] == "DriverError"][:2])
    return outp, events, vf.split_executions(events)


def trace_cfg(ck, allow):
    p = os.path.join(ck.work, "trace_%s.cfg" % ("_".join(sorted(allow)) or "strict"))
    vf.write_cfg(p, constants={a: a in allow for a in ALLOW},
                 invariants=["TraceChk"], postcondition="TracePost")
    return p


def judge(ck, outp, events, execs, lines, what, depth=0):
    """strict validation, then with the named deviations; returns True when accepted (possibly as observations)"""
    for e in events:
        if e["e"] in ("Crashed", "HarnessTimeout"):
            x = e["x"]
            rp = ck.save_replay("%s_%s_%d" % (what, e["e"].lower(), x), {"case.txt": lines[x] + "\n"})
            ck.violation("DnsTransport %s: execution %s (case: %s)" % (what, "crashed" if e["e"] == "Crashed" else "did not finish in 120 s (hang)", lines[x]), rp)
            return False
    v = ck.validate(TRACE, trace_cfg(ck, ()), outp, n_exec=len(execs))
    if v.accepted:
        return True
    vall = ck.validate(TRACE, trace_cfg(ck, ALLOW), outp, n_exec=len(execs))
    if vall.accepted:
        # which of the named deviations are needed: drop one at a time
        first = json.dumps(events[v.maxl - 1])
        with cf.ThreadPoolExecutor(max_workers=3) as ex:
            needed = list(ex.map(lambda a: not vf.validate_trace(TRACE, trace_cfg(ck, tuple(b for b in ALLOW if b != a)), outp, tag="X18_val_" + a).accepted, ALLOW))
        for a, need in zip(ALLOW, needed):
            if need and what != "asan":            # the ASan pass repeats a subset of the scripts: same observations
                ck.note("%s  [accepted only with the named deviation %s; %d scripts match /%s/]" % (
                    OBS[a], a, sum(1 for ln in lines if re.search(ALLOW_TOKEN[a], ln)), ALLOW_TOKEN[a]))
        ck.note("first event the strict oracle refuses: %s" % first)
        return True
    v = vall
    x = vf.exec_index_of_line(events, v.maxl)
    bad = events[v.maxl - 1] if 0 < v.maxl <= len(events) else {}
    if depth < 3 and x < len(lines):
        # real time is involved: run the refused script again, alone, before reporting it
        o1, ev1, ex1 = run_cases(ck, [lines[x]], "%s_again%d" % (what, depth))
        v1 = vf.validate_trace(TRACE, trace_cfg(ck, ALLOW), o1, tag="X18_again")
        if v1.accepted:
            ck.note("a refused execution was accepted when run again (timing; first refusal at %s, case: %s)" % (json.dumps(bad), lines[x]))
            keep = [i for i in range(len(lines)) if i != x]
            rest = os.path.join(ck.work, "%s_rest%d.ndjson" % (what, depth))
            with open(rest, "w") as f:
                for i in keep:
                    f.write("".join(json.dumps(e) + "\n" for e in execs[i][1]) + '{"e":"Reset"}\n')
            ev2 = vf.read_ndjson(rest)
            return judge(ck, rest, ev2, vf.split_executions(ev2), [lines[i] for i in keep], what, depth + 1)
    rp = ck.save_replay("%s_reject_%d" % (what, x), {"trace.ndjson": "\n".join(json.dumps(e) for e in execs[x][1]) + "\n", "case.txt": lines[x] + "\n"})
    ck.violation("DnsTransport %s: execution rejected by DnsTransportTrace.tla at %s (case: %s)" % (what, json.dumps(bad), lines[x]), rp)
    return False


def run(ck):
    thorough = ck.tier == "thorough"
    ck.make("drv_dnstransport")
    ck.rule = ("transition cover of the TLC state graph of DnsTransport.tla (2 queries, modes UDP/Both/TCP, scripts of %d server "
               "responses, timeouts, stop) replayed in lock-step on the real DnsTransport against the driver's sockets; "
               "non-trivial = distinct scripts in which a query is completed by something else than its first well-formed answer") % 3
    # ---- 1. exhaustive model check + self-tests (Dev_* flags) + the as-is graph, side by side (<= 6 TLC workers in total)
    mr = 3 if thorough else 2
    dot = os.path.join(ck.work, "g.dot")
    jobs = {"mc": lambda: vf.run_tlc(IMPL, cfg(ck, "mc", maxresp=mr), tag="X18_mc", workers=3, coverage=True, timeout=900),
            "asis": lambda: vf.run_tlc(IMPL, cfg(ck, "asis", devs=AS_IS, cleanup=False, fifo=True, maxresp=3,
                                               invs=["TypeOK", "AtMostOnce", "PendingHasTimer", "StopCompletes", "Budget", "TcpOnlyAfterTrunc"]),
                                      tag="X18_asis", workers=1, coverage=True, dump_dot=dot, timeout=900)}
    for d in DEVS:
        jobs[d] = (lambda d=d: vf.run_tlc(IMPL, cfg(ck, "dev_" + d, devs=(d,), maxresp=mr), tag="X18_" + d, workers=1, timeout=600,
                                          dump_trace=os.path.join(ck.work, "ce_%s.json" % d)))
    with cf.ThreadPoolExecutor(max_workers=4) as ex:
        res = dict(zip(jobs, ex.map(lambda k: jobs[k](), list(jobs))))
    for k, rr in res.items():
        if rr.error:
            raise vf.Infra("TLC error (%s): %s" % (k, rr.error))
    r = res["mc"]
    ck.states += r.distinct; ck.transitions += r.generated
    for a, (tk, gn) in r.coverage.items():
        ck.cov[a] = ck.cov.get(a, 0) + gn
    ck.note("TLC DnsTransport.tla (2 queries, modes U/B/T, 1-2 servers, %d responses, cleanup thread on, any timer order): %s" % (mr, r.summary()))
    if r.violated:
        ck.violation("DnsTransport.tla violates %s" % r.violated, ck.save_replay("impl", {"tlc.out": r.out})); return
    never = [a for a in ACTIONS if r.coverage.get(a, (0, 0))[1] == 0]
    if never:
        raise vf.Infra("X18 self-test: Impl actions never taken: %s" % never)
    for d in DEVS:
        if res[d].violated not in DEVS[d]:
            raise vf.Infra("X18 self-test: %s = TRUE is not caught (TLC: %s)" % (d, res[d].summary()))
    ck.note("self-test: each of %d Dev_* slips violates an invariant (Dev_CleanupRace = the code's unsynchronised cleanup phases: AtMostOnce)" % len(DEVS))
    # ---- 2. the graph of the specification configured as the code is -> scripts
    g = res["asis"]
    if g.violated:
        raise vf.Infra("TLC: the as-is configuration violates %s" % g.violated)
    for a in DEV_ONLY_ACTIONS:
        if g.coverage.get(a, (0, 0))[1] == 0:
            raise vf.Infra("X18 self-test: deviation action %s never taken in the as-is graph" % a)
    ck.states += g.distinct; ck.transitions += g.generated
    graph = vf.Graph.load(dot); os.remove(dot)
    # directed probes: the counterexample of every Dev_* flag, as a stimulus sequence, walked through the as-is graph
    probes = []
    for d in DEVS:
        ce = (res[d].trace_json or {}).get("counterexample", {}).get("action", [])
        labs = ["%s(%s)" % (a[1]["name"], ", ".join(str(a[1]["context"][x]) for x in a[1].get("parameters", []))) for a in ce if isinstance(a[1], dict) and a[1].get("name") != "Initial predicate"]
        node, path = graph.init[0], []
        for lab in labs:
            nxt = [(l2, d2) for (l2, d2) in graph.edges[node] if stimulus(l2) == stimulus(lab)]
            if stimulus(lab) is None or not nxt:
                break
            path.append(nxt[0][0]); node = nxt[0][1]
        if len(path) >= 3:
            probes.append(path + graph.walk_to_end(node, ck.rng, 40))
    paths, covered, total = graph.transition_cover(ck.rng, maxlen=40, limit=3000 if thorough else 300)
    ck.note("as-is graph: %s; %d scripts cover %d/%d transitions; + %d directed probes (counterexamples of the Dev_* flags)" % (
        g.summary(), len(paths), covered, total, len(probes)))
    paths = probes + paths
    lines, preds = [], []
    for p in paths:
        head, toks, pred = tokens(p, ck.rng)
        lines.append(head + " | " + " ".join(toks)); preds.append(pred)
    # the pause-plan probe of the cleanup thread (the counterexample of Dev_CleanupRace; 10 s of real time, runs beside the rest)
    lines.append("probe=cleanup"); preds.append({})
    classes = {k: sum(1 for ln in lines if re.search(k, ln)) for k in ("TO", "TF", "WQ", "WI", "WS", "MF", "ST", "QS", "api=sync", "mode=T", "mode=B")}
    if min(classes.values()) == 0:
        raise vf.Infra("X18: the script generator produced no case of some class: %s" % classes)
    # ---- 3. run on the real code, validate
    outp, events, execs = run_cases(ck, lines, "cases")
    ck.evaluations += len(execs)
    ck.nontrivial = len({ln for ln in lines if re.search(r"TO|TF|TR|WQ|WI|WS|MF|ST|N[utT]", ln)})
    ck.sample({"kind": "DnsTransport script", "case": lines[0], "events": execs[0][1][:14]})
    k = next((i for i, ln in enumerate(lines) if "TF" in ln and "TO" in ln), 1)
    ck.sample({"kind": "DnsTransport script (fallback + timeout)", "case": lines[k], "events": execs[k][1][:18]})
    if not judge(ck, outp, events, execs, lines, "cover"):
        return
    pr = [e for e in execs[-1][1] if e["e"] == "Probe"]
    if not (pr and pr[0]["reached"]):
        ck.note("cleanup probe: the window was not reached in this run (timing): %s" % pr)
    # model drift + measured facts
    drift, fence_bad, once, retr_cases, first_drift = 0, 0, 0, 0, ""
    for (start, evs), pred, ln in zip(execs, preds, lines):
        got = {str(e["q"]): e["kind"] for e in evs if e["e"] == "Done"}
        dq = [q for q in pred if got.get(q) != pred[q]]
        drift += len(dq)
        if dq and not first_drift:
            first_drift = "q%s predicted %s, observed %s in: %s" % (dq[0], pred[dq[0]], got.get(dq[0]), ln)
        fence_bad += sum(1 for e in evs if e["e"] == "Fence" and not e["ok"])
        if "retries=2" in ln and "tmo=S" in ln:
            for q, kd in got.items():
                if kd == "timeout":
                    retr_cases += 1
                    n = sum(1 for e in evs if e["e"] in ("SrvRecv", "Extra") and str(e["q"]) == q and e["proto"] == ("tcp" if "mode=T" in ln else "udp"))
                    once += 1 if n == 1 else 0
    ck.note("model drift: %d of %d predicted completions differ (accepted by Abs)%s; fences that did not complete: %d" % (
        drift, sum(len(p) for p in preds), (" - first: " + first_drift) if first_drift else "", fence_bad))
    if retr_cases and once == retr_cases:
        ck.note("OBSERVATION X18-O3: retryCount is ineffective - %d queries with retryCount=2 that timed out were transmitted exactly once "
                "(the per-send timeout timer completes the query at `timeout`; retryQuery is reachable only from the 10 s cleanup thread "
                "while that timer is late; documented: 'total 4 attempts including initial')" % retr_cases)
    # ---- 4. self-test of the oracle: a duplicated completion must be rejected
    x = next(i for i, (s, evs) in enumerate(execs) if any(e["e"] == "Done" for e in evs))
    evs = list(execs[x][1]); i = next(i for i, e in enumerate(evs) if e["e"] == "Done")
    evs.insert(i + 1, evs[i])
    cp = os.path.join(ck.work, "corrupt.ndjson"); open(cp, "w").write("\n".join(json.dumps(e) for e in evs) + "\n")
    v = vf.validate_trace(TRACE, trace_cfg(ck, ALLOW), cp, tag="X18_corrupt")
    if v.accepted or v.error:
        raise vf.Infra("X18 self-test: a trace with a doubled completion was not rejected (%s)" % (v.error or "accepted"))
    if thorough:
        ck.make("drv_dnstransport.asan")
        sub = [lines[i] for i in range(0, len(lines), 10)]
        outp2, events2, execs2 = run_cases(ck, sub, "asan", binary="drv_dnstransport.asan")
        ck.evaluations += len(execs2)
        judge(ck, outp2, events2, execs2, sub, "asan")


def replay(ck, path):
    cp = os.path.join(path, "case.txt")
    if not os.path.exists(cp):
        return run(ck)
    ck.make("drv_dnstransport")
    lines = [ln for ln in open(cp).read().splitlines() if ln.strip()]
    outp, events, execs = run_cases(ck, lines, "replay")
    ck.evaluations += len(execs)
    judge(ck, outp, events, execs, lines, "replay")
