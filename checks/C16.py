"""C16 — each HTTP request gets exactly one well-formed response, in order.

  1. TLC checks spec/http/HttpPipeline.tla exhaustively: one connection, I/O thread extraction, worker pool, handlers
     that return in any order, one send command per response, separate close command.  With both Dev flags FALSE (the
     design the property describes: the responses of a connection are sequenced) InOrder and AllAnswered hold;
     self-test: Dev_CompletionOrder = TRUE (the code, F-16a) violates InOrder, Dev_BadFramingWaits = TRUE violates
     AllAnswered.
  2. The terminal states of that model are the cases: (pipeline of <= 3 requests, order in which the gated handlers
     return).  Each is rendered to bytes and run by harness/drv_httppipe.cpp on the real HttpServer: a raw socket
     writes the pipeline in ONE send, the handlers block on gates the driver opens in the prescribed order (waiting
     for the next response on the wire in between), the response byte stream is split by a strict reference splitter.
  3. The facts (Release, Resp{for,status,Content-Length,body length,fill}, End{closed,left,garbage}) are validated by
     TLC against spec/http/HttpPipelineTrace.tla.  Executions that need a deviation action are classified through
     the known findings (signature = deviation action); everything else that is rejected is a violation.
  4. Large bodies (64 KiB, 1 MiB, 4 MiB; position-dependent pattern) pipelined with small ones: in the model a large
     response is two write steps inside one critical section (Dev_SplitSendUnlocked = TRUE violates NoInterleave); on the
     code the small handlers return while the first octets of the large response are on the wire (negative entries of
     the return order), plus ungated 'natural' repetitions with handler delays of 0..6 ms.  The oracle rejects every
     response whose Content-Length is not the body that follows or whose body is not that handler's octets, whatever
     the order of the responses.
  5. The driver never writes after the single send, so a complete request left waiting in the server's buffer shows as a
     missing response (AllAnswered; Dev_ExtractOnlyFirst in the model).  Unparsable class includes Content-Length values
     that wrap modulo 2^64 (followed by body octets / by another request): status >= 400 or close, no handler entered.
  6. thorough tier: several pipelines concurrently on several connections of one server.
  7. round 3: the alphabet has chunked requests with 0..3 trailer fields and HEAD on every kind of target (routed, no
     route + default handler that sets a body - on a second server of the group that has setDefaultHandler() -, 405,
     built-in 404); the connection model delivers the pipeline in SEGMENTS (cuts at every position around the header
     terminator of a request, one or two cuts, a pause before each further write).  Self-tests of the model:
     Dev_ScanResumeSkips / Dev_OneTrailerOnly violate AllAnswered, Dev_HeadBodyAfterHandler violates HeadNoBody.
The self-tests of the trace specification use fixed synthetic executions (never what the tree under test produced).
"""
import os, json, concurrent.futures as cf
import vf

SPECDIR = os.path.join(vf.SPEC, "http")
DEV_ACTIONS = ["DevRespOutOfOrder", "DevCloseOvertakes", "DevCloseTruncates"]
SIGNATURES = {"DevRespOutOfOrder": {"spec": "HttpPipelineTrace", "deviation_action": "DevRespOutOfOrder", "args": {"order": "handler_completion"}},
              "DevCloseOvertakes": {"spec": "HttpPipelineTrace", "deviation_action": "DevCloseOvertakes", "args": {"close": "before_earlier_responses"}},
              "DevCloseTruncates": {"spec": "HttpPipelineTrace", "deviation_action": "DevCloseTruncates", "args": {"response": "large_body_still_queued"}}}

V_QUICK = [("G", 5, False), ("G", 0, False), ("G", 5, True), ("H", 5, False), ("P", 3, False), ("C", 3, False),
           ("T", 0, False), ("R", 3, False), ("N", 0, False), ("M", 0, False), ("O", 0, False), ("B", 1, False),
           ("B", 3, False), ("U", 1, False), ("U", 2, False), ("U", 4, False), ("U", 5, False),
           ("L", 64, False), ("L", 1024, False), ("L", 4096, False), ("L", 4096, True)]
V_MORE = [("H", 5, True), ("T", 0, True), ("N", 0, True), ("P", 3, True), ("B", 2, False), ("B", 4, False), ("U", 3, False),
          ("L", 1024, True)]
# Connection spellings (a dimension of the closing / non-closing request G5) and content + bodiless status, combined with
# this base set in pipelines of two
V_SPELL = [("G", 5, True, 2), ("G", 5, True, 3), ("G", 5, True, 4), ("G", 5, True, 5), ("G", 5, True, 6), ("G", 5, False, 7),
           ("G", 5, False, 8), ("P", 3, True, 5)]
V_STATUS = [("S204", 5, False), ("S304", 5, False), ("HS204", 5, False), ("HS304", 5, False), ("S304", 5, True, 2)]
V_BASE = [("G", 5, False), ("P", 3, False), ("T", 0, False), ("N", 0, False), ("H", 5, False)]
# round 3: chunked requests with 0..3 trailer fields, HEAD on every kind of target (tuple: k, n, close, sp, tr)
V_NEW = [("C", 3, False, 0, 0), ("C", 3, False, 0, 1), ("C", 3, False, 0, 2), ("C", 3, False, 0, 3), ("D", 5, False), ("HD", 5, False),
         ("HM", 0, False), ("HN", 0, False)]
# segmented delivery: one cut at every position, pipelines of <= 2 / two cuts in one request
V_SEG1 = [("G", 5, False), ("G", 5, True), ("H", 5, False), ("P", 3, False), ("C", 3, False, 0, 2), ("N", 0, False), ("HD", 5, False),
          ("B", 1, False)]
V_SEG2 = [("G", 5, False), ("P", 3, False), ("C", 3, False, 0, 2), ("HD", 5, False)]
# pipelines of three requests are drawn from this subset in the quick tier
V_SMALL = [("G", 5, False), ("G", 5, True), ("H", 5, False), ("P", 3, False), ("T", 0, False), ("N", 0, False), ("B", 1, False),
           ("U", 1, False), ("L", 1024, False)]

METHOD = {"G": "GET", "H": "HEAD", "P": "POST", "C": "POST", "T": "GET", "R": "GET", "N": "GET", "M": "DELETE", "O": "OPTIONS",
          "B": "GET", "U": "POST", "L": "GET", "S204": "GET", "S304": "GET", "HS204": "HEAD", "HS304": "HEAD", "D": "GET", "HD": "HEAD", "HM": "HEAD", "HN": "HEAD"}
TRAILERS = [b"X-Sum: 1\r\n", b"X-Len: 22\r\n", b"X-Sig: abc\r\n"]
# spellings of the Connection field (sp of HttpPipeline.tla); 1..6 ask for a close
SPELL = {0: None, 1: b"close", 2: b"Close", 3: b"CLOSE", 4: b"cLoSe", 5: b"keep-alive, Close", 6: b" \t close  ", 7: b"Keep-Alive",
         8: b"keep-alive"}


def render_request(r, xid, delay_us=None, hot=False):
    k, n, close = r["k"], r["n"], r["close"]
    fill = chr(ord("a") + xid % 10).encode()
    sp = r.get("sp", 1 if close else 0)
    if close != (1 <= sp <= 6):
        raise vf.Infra("request record: close flag and Connection spelling disagree: %r" % (r,))
    common = b"Host: x\r\nX-Id: %d\r\n" % xid + (b"Connection: %s\r\n" % SPELL[sp] if SPELL[sp] is not None else b"") + \
        (b"X-Delay: %d\r\n" % delay_us if delay_us else b"") + (b"X-Hot: 1\r\n" if hot else b"")
    if k == "L":
        return b"GET /big/%d HTTP/1.1\r\n" % n + common + b"\r\n"
    if k in ("S204", "S304", "HS204", "HS304"):
        return b"%s /st/%s/%d HTTP/1.1\r\n" % (METHOD[k].encode(), k[-3:].encode(), n) + common + b"\r\n"
    if k in ("G", "H"):
        return b"%s /ok/%d HTTP/1.1\r\n" % (METHOD[k].encode(), n) + common + b"\r\n"
    if k == "P":
        return b"POST /echo HTTP/1.1\r\n" + common + b"Content-Length: %d\r\n\r\n" % n + fill * n
    if k == "C":
        a = n // 2
        body = (b"%x\r\n" % a + fill * a + b"\r\n" if a else b"") + b"%x;ext=1\r\n" % (n - a) + fill * (n - a) + b"\r\n0\r\n" + \
            b"".join(TRAILERS[:r.get("tr", 1)]) + b"\r\n"
        return b"POST /echo HTTP/1.1\r\n" + common + b"Transfer-Encoding: chunked\r\n\r\n" + body
    if k in ("D", "HD"):      # no route: answered by the default handler of the second server
        return b"%s /missing/%d HTTP/1.1\r\n" % (METHOD[k].encode(), n) + common + b"\r\n"
    if k == "HM":             # the path exists for POST only
        return b"HEAD /echo HTTP/1.1\r\n" + common + b"\r\n"
    if k == "HN":
        return b"HEAD /nowhere HTTP/1.1\r\n" + common + b"\r\n"
    if k == "T":
        return b"GET /throw HTTP/1.1\r\n" + common + b"\r\n"
    if k == "R":
        return b"GET /raw/%d HTTP/1.1\r\n" % n + common + b"\r\n"
    if k == "N":
        return b"GET /nowhere HTTP/1.1\r\n" + common + b"\r\n"
    if k == "M":
        return b"DELETE /ok/5 HTTP/1.1\r\n" + common + b"\r\n"
    if k == "O":
        return b"OPTIONS /ok/5 HTTP/1.1\r\n" + common + b"\r\n"
    if k == "B":       # cannot be parsed, but the end of the message is clear
        return {1: b"GET /ok/5 HTTP/1.1x\r\n" + common + b"\r\n", 2: b"BREW /ok/5 HTTP/1.1\r\n" + common + b"\r\n",
                3: b"GET /ok/5 HTTP/2.0\r\n" + common + b"\r\n", 4: b"GET /ok/5 HTTP/1.1\r\nX-Id: %d\r\n\r\n" % xid}[n]
    if k == "U":       # the length of the message cannot be decided
        return {1: b"POST /echo HTTP/1.1\r\n" + common + b"Transfer-Encoding: chunked\r\n\r\nzz\r\nabc\r\n0\r\n\r\n",
                2: b"POST /echo HTTP/1.1\r\n" + common + b"Content-Length: 3abc\r\n\r\nabc",
                3: b"POST /echo HTTP/1.1\r\n" + common + b"Content-Length: 3\r\nTransfer-Encoding: chunked\r\n\r\n3\r\nabc\r\n0\r\n\r\n",
                # values that are no representable length and wrap modulo 2^64 to a small one (3 / 0)
                4: b"POST /echo HTTP/1.1\r\n" + common + b"Content-Length: 18446744073709551619\r\n\r\n" + fill * 3,
                5: b"POST /echo HTTP/1.1\r\n" + common + b"Content-Length: 18446744073709551616\r\n\r\n" +
                   b"GET /ok/5 HTTP/1.1\r\nHost: x\r\nX-Id: %d\r\n\r\n" % xid}[n]
    raise vf.Infra("no rendering for request class " + k)


def case_line(case, group, par, local, wait_ms):
    pipe = case["pipe"]
    delays = case.get("delays") or [None] * len(pipe)
    parts = [render_request(r, local * 10 + i + 1, delays[i], -(i + 1) in case["order"]) for i, r in enumerate(pipe)]
    stream = b"".join(parts)
    # the cuts <<i, o>> of the model: o octets after the start of the CRLFCRLF that ends the header section of request i
    at = []
    for i, o in case.get("cuts") or []:
        t = parts[i - 1].find(b"\r\n\r\n")
        pos = sum(len(x) for x in parts[:i - 1]) + t + o
        if t < 0 or not 0 < pos < len(stream) or (at and pos <= at[-1]):
            raise vf.Infra("cut %r of case %r does not fall inside the stream" % ((i, o), case))
        at.append(pos)
    segs = [stream[a:b] for a, b in zip([0] + at, at + [len(stream)])]
    specs = ",".join("%s:%d:%s" % (r["k"], r["n"], METHOD[r["k"]]) for r in pipe)
    return "%d %d %d %d %d %d | %s | %s | %s | %s" % (
        group, par, local, wait_ms, case["wantResp"], 1 if case["wantClose"] else 0,
        json.dumps(pipe, separators=(",", ":")), specs, "/".join(x.hex() for x in segs),
        ",".join((["*"] if case.get("natural") else []) + [str(i) for i in case["order"]]))


def mc(ck, name, variants, maxlen, devs=(), export=False, workers=3, invs=None, maxcuts=0, offsets=(), same=False):
    d = os.path.join(ck.work, name)
    os.makedirs(d, exist_ok=True)
    with open(os.path.join(d, "MCPipe.tla"), "w") as f:
        f.write("---- MODULE MCPipe ----\nEXTENDS HttpPipeline\nMCVariants == {%s}\nMCOffsets == {%s}\n====\n" % (", ".join(
            '[k |-> "%s", n |-> %d, close |-> %s, sp |-> %d, tr |-> %d]' % (
                v[0], v[1], "TRUE" if v[2] else "FALSE", v[3] if len(v) > 3 else (1 if v[2] else 0),
                v[4] if len(v) > 4 else (1 if v[0] == "C" else 0))
            for v in variants), ", ".join(str(o) for o in offsets)))
    cfg = os.path.join(d, "MCPipe.cfg")
    vf.write_cfg(cfg, constants={"Variants": "<- MCVariants", "MaxLen": maxlen, "Workers": workers,
                                 "Dev_CompletionOrder": "Dev_CompletionOrder" in devs,
                                 "Dev_BadFramingWaits": "Dev_BadFramingWaits" in devs,
                                 "Dev_SplitSendUnlocked": "Dev_SplitSendUnlocked" in devs,
                                 "Dev_ExtractOnlyFirst": "Dev_ExtractOnlyFirst" in devs,
                                 "Dev_CloseDropsQueued": "Dev_CloseDropsQueued" in devs,
                                 "Dev_ScanResumeSkips": "Dev_ScanResumeSkips" in devs,
                                 "Dev_OneTrailerOnly": "Dev_OneTrailerOnly" in devs,
                                 "Dev_HeadBodyAfterHandler": "Dev_HeadBodyAfterHandler" in devs,
                                 "MaxCuts": maxcuts, "CutOffsets": "<- MCOffsets", "SameReqCuts": same},
                 invariants=(invs or ["InOrder", "AllAnswered", "NoInterleave", "HeadNoBody"]) + (["CaseOut"] if export else []))
    return vf.run_tlc(os.path.join(d, "MCPipe.tla"), cfg, tag="C16_" + name, workers=4 if export else 2, coverage=export,
                      lib_dirs=[SPECDIR], timeout=1500)


def cases_of(r):
    out, seen = [], set()
    for ln in r.prints:
        if not ln.startswith('"{'):
            continue
        try:
            c = json.loads(json.loads(ln))
        except Exception:
            continue
        key = json.dumps(c, sort_keys=True)
        if key not in seen:
            seen.add(key)
            out.append(c)
    out.sort(key=lambda c: json.dumps(c, sort_keys=True))
    return out


def nontrivial(case):
    ks = [r["k"] for r in case["pipe"]]
    return len(ks) > 1 or ks[0] not in ("G", "P", "N", "M", "O") or case["pipe"][0]["close"] or bool(case.get("cuts"))


def trace_cfg(ck, allowed, evalpass=False):
    p = os.path.join(ck.work, "trace_%s.cfg" % ("eval" if evalpass else "dev" if allowed else "strict"))
    vf.write_cfg(p, constants={"DevAllowed": "{" + ", ".join('"%s"' % a for a in allowed) + "}", "Eval": evalpass},
                 invariants=["TraceChk"], postcondition="TracePost")
    return p


def write_execs(path, execs, idxs):
    with open(path, "w") as f:
        for i in idxs:
            for e in execs[i][1]:
                f.write(json.dumps(e, separators=(",", ":")) + "\n")
            f.write('{"e":"Reset"}\n')


def run_driver(ck, lines, name):
    cases_path = os.path.join(ck.work, name + ".cases.txt")
    with open(cases_path, "w") as f:
        f.write("\n".join(lines) + "\n")
    out_path = os.path.join(ck.work, name + ".ndjson")
    rc, out = vf.run_driver("drv_httppipe", ["run", cases_path, out_path, vf.NCPU * 2], timeout=3000)
    if rc != 0:
        raise vf.Infra("drv_httppipe failed: " + out[-2000:])
    ck.note("driver %s: %s" % (name, out.strip()))
    return out_path


def known_list(ck):
    """the property's known findings; until checks/C16.meta.json is merged into known_findings.json they are read from there"""
    ids = {k["id"] for k in ck.known}
    meta = os.path.join(vf.ROOT, "checks", "C16.meta.json")
    if os.path.exists(meta):
        for k in json.load(open(meta)).get("findings", []):
            if k.get("property") == ck.prop and k.get("status") == "known" and k["id"] not in ids:
                ck.known.append(k)


def describe(case, evs):
    return "pipeline %s%s, handlers return in order %s%s: %s" % (
        json.dumps(case["pipe"], separators=(",", ":")),
        ", delivered in %d segments cut at <<request, octets after the start of its header terminator>> = %s" % (
            len(case["cuts"]) + 1, case["cuts"]) if case.get("cuts") else "", case["order"], " (natural run, delays %s us)" % case.get("delays") if case.get("natural") else "",
        json.dumps([{k: v for k, v in e.items()} for e in evs if e["e"] in ("Release", "Resp", "End")], separators=(",", ":"))[:700])


def judge(ck, cases, lines, out_path, name, retry=True):
    events = vf.read_ndjson(out_path)
    execs = vf.split_executions(events)
    if any(e["e"] == "Infra" for e in events):
        raise vf.Infra("%s: %s" % (name, [e for e in events if e["e"] == "Infra"][0]))
    if any(e["e"] == "HarnessTimeout" for e in events):
        raise vf.Infra("%s: a group exceeded the harness limit" % name)
    if any(e["e"] == "Crashed" for e in events):
        rp = ck.save_replay(name + "_crash", {"cases.txt": "\n".join(lines) + "\n"})
        ck.violation("the server process crashed (signal / abort) while serving generated pipelines", rp)
        return
    if len(execs) != len(cases):
        raise vf.Infra("%s: %d executions recorded for %d cases" % (name, len(execs), len(cases)))
    ck.evaluations += len(execs)
    for c in cases:
        if nontrivial(c):
            ck.nontrivial_keys.add(json.dumps(c, sort_keys=True))
    import re
    trace_tla = os.path.join(SPECDIR, "HttpPipelineTrace.tla")
    cfg_eval, cfg = trace_cfg(ck, [], True), trace_cfg(ck, DEV_ACTIONS)
    nchunks = max(1, min(8, len(cases) // 300 + 1))
    chunks = [list(range(len(cases)))[k::nchunks] for k in range(nchunks)]

    # ---- pass 1 (Eval): which executions does the property itself explain?  deterministic, never blocks
    def eval_chunk(k):
        p = os.path.join(ck.work, "%s.eval%d.ndjson" % (name, k))
        write_execs(p, execs, chunks[k])
        v = vf.validate_trace(trace_tla, cfg_eval, p, tag="C16_eval_%s_%d" % (name, k))
        if v.error or not v.accepted:
            raise vf.Infra("evaluation pass did not consume the trace: %s" % (v.error or v.out[-800:]))
        return {chunks[k][int(m.group(1))] for m in re.finditer(r'<<"NOTABS", (\d+)>>', v.out)}
    with cf.ThreadPoolExecutor(max_workers=8) as ex:
        notabs = sorted(set().union(*ex.map(eval_chunk, range(nchunks))))
    ck.traces += len(cases) - len(notabs)

    # ---- pass 2: the others must be explained with the deviation actions of the known findings
    n2 = max(1, min(8, len(notabs) // 200 + 1))
    chunks2 = [notabs[k::n2] for k in range(n2)]

    def validate_chunk(k):
        idxs = list(chunks2[k])
        rejected, devs = [], {}
        for _ in range(14):      # a handful of rejected executions per chunk is all the report needs
            if not idxs:
                break
            p = os.path.join(ck.work, "%s.val%d.ndjson" % (name, k))
            write_execs(p, execs, idxs)
            v = vf.validate_trace(trace_tla, cfg, p, tag="C16_val_%s_%d" % (name, k))
            if v.error:
                raise vf.Infra("trace validation error: " + v.error)
            if v.accepted:
                for m in re.finditer(r'<<"DEVS", (\d+), \{([^}]*)\}>>', v.out):
                    devs.setdefault(idxs[int(m.group(1))], set()).update(x.strip().strip('"') for x in m.group(2).split(","))
                missing = [i for i in idxs if i not in devs]
                if missing:
                    raise vf.Infra("execution %d accepted in pass 2 without a recorded deviation" % missing[0])
                return idxs, rejected, devs
            line, x = 0, None
            for pos, i in enumerate(idxs):
                n = len(execs[i][1]) + 1
                if line < v.maxl <= line + n:
                    x = pos
                    break
                line += n
            if x is None:
                raise vf.Infra("cannot locate rejected line %d" % v.maxl)
            k_ev = v.maxl - line - 1
            rejected.append((idxs[x], execs[idxs[x]][1][k_ev] if 0 <= k_ev < len(execs[idxs[x]][1]) else {"e": "?"}))
            idxs = idxs[:x] + idxs[x + 1:]
        # too many rejections in this chunk: what is left was not decided
        ck.undecided = getattr(ck, "undecided", 0) + len(idxs)
        return [], rejected, {}

    with cf.ThreadPoolExecutor(max_workers=8) as ex:
        results = list(ex.map(validate_chunk, range(n2))) if notabs else []
    trace_tla = os.path.join(SPECDIR, "HttpPipelineTrace.tla")
    rejected, devs = [], {}
    for idxs, rej, dv in results:
        ck.traces += len(idxs)
        rejected += rej
        devs.update({i: dv[i] for i in idxs})
    if getattr(ck, "undecided", 0):
        ck.note("%d executions left undecided after 14 rejections per chunk" % ck.undecided)
    ck.note("%s: %d executions: %d explained by the property, %d only with a deviation action, %d rejected" % (
        name, len(cases), len(cases) - len(notabs), len(devs), len(rejected)))
    # ---- deviations -> known findings (by signature) or violations
    by_action = {}
    for i, acts in devs.items():
        for a in acts:
            by_action.setdefault(a, []).append(i)
    for a, idxs in sorted(by_action.items()):
        i = sorted(idxs)[0]
        what = "%s in %d of %d executions, e.g. %s" % (a, len(idxs), len(cases), describe(cases[i], execs[i][1]))
        known = any(k.get("status") == "known" and k.get("trace_signature") == SIGNATURES[a] for k in ck.known)
        rp = None
        if not known:
            rp = ck.save_replay("%s_%s" % (name, a), {"case.txt": lines[i] + "\n",
                                                     "trace.ndjson": "\n".join(json.dumps(e) for e in execs[i][1]) + "\n"})
        ck.classify(SIGNATURES[a], what, rp)
        ck.dev_counts[a] = ck.dev_counts.get(a, 0) + len(idxs)
    # ---- rejections: re-run alone with long waits before reporting
    if rejected and retry:
        # Before anything is reported the case is run again, alone, with long waits.  A rejection that rests on a wait
        # bound (a response / the close did not come) is re-run once; one that rests on octets that were on the wire
        # (a response that fits no request, garbage between responses) may need a particular interleaving of the
        # server's threads and is re-run up to 12 times.  Up to 4 cases of every kind are re-run, the others counted.
        buckets = {}
        for i, ev in rejected:
            buckets.setdefault(explain(ev), []).append((i, ev))
        chosen = []
        for kind in sorted(buckets):
            chosen += [(i, ev, kind) for i, ev in buckets[kind][:4]]
        if len(chosen) < len(rejected):
            ck.note("%d rejected executions; %d of them (up to 4 of every kind) are re-run: %s" % (
                len(rejected), len(chosen), {k: len(v) for k, v in sorted(buckets.items())}))
        rl, owner = [], []
        for n, (i, ev, kind) in enumerate(chosen):
            reps = 1 if soft(ev, cases[i]) else 12
            for r in range(reps):
                f = lines[i].split(" | ")
                w = f[0].split()
                w[0], w[1], w[3] = str(len(rl)), "1", "6000"
                f[0] = " ".join(w)
                rl.append(" | ".join(f))
                owner.append(n)
        out2 = run_driver(ck, rl, name + ".rerun")
        ev2 = vf.split_executions(vf.read_ndjson(out2))
        if len(ev2) != len(rl):
            raise vf.Infra("%s: re-run produced %d executions for %d cases" % (name, len(ev2), len(rl)))

        def revalidate(m):
            p = os.path.join(ck.work, "%s.rr%d.ndjson" % (name, m))
            with open(p, "w") as f:
                for e in ev2[m][1]:
                    f.write(json.dumps(e, separators=(",", ":")) + "\n")
                f.write('{"e":"Reset"}\n')
            return p, vf.validate_trace(trace_tla, cfg, p, tag="C16_rr_%s_%d" % (name, m))
        with cf.ThreadPoolExecutor(max_workers=8) as ex:
            rvs = list(ex.map(revalidate, range(len(rl))))
        confirmed = {}
        for m, (p, v) in enumerate(rvs):
            if v.error:
                raise vf.Infra("trace validation error: " + v.error)
            if not v.accepted and owner[m] not in confirmed:
                confirmed[owner[m]] = (m, p, v)
        per_kind = {}
        for n, (i, ev, kind) in enumerate(chosen):
            if n not in confirmed:
                ck.note("rejection not repeated on re-run (ignored): %s - %s" % (kind, describe(cases[i], execs[i][1])))
                continue
            m, p, v = confirmed[n]
            bad = ev2[m][1][min(v.maxl, len(ev2[m][1])) - 1] if ev2[m][1] else {}
            per_kind[kind] = per_kind.get(kind, 0) + 1
            if per_kind[kind] <= 3 and len(ck.violations) < 12:
                rp = ck.save_replay("%s_%d" % (name, i), {"case.txt": rl[m] + "\n", "trace.ndjson": p})
                ck.violation("%s; first fact that neither the property nor a known deviation explains: %s - %s" % (
                    explain(bad), json.dumps(bad), describe(cases[i], ev2[m][1])), rp)
            else:
                ck.more_violations = getattr(ck, "more_violations", 0) + 1
        if confirmed:
            ck.more_violations = getattr(ck, "more_violations", 0) + len(rejected) - len(chosen)


GATED = ("G", "H", "P", "C", "T", "R", "L", "S204", "S304", "HS204", "HS304", "D", "HD")


def soft(ev, case):
    """does the rejection rest on something that did NOT arrive within the wait bound (rather than on octets that did
    arrive / a handler that was entered)?"""
    if ev.get("e") != "End" or ev.get("garbage"):
        return False
    return all(1 <= i <= len(case["pipe"]) and case["pipe"][i - 1]["k"] in GATED for i in ev.get("invoked", []))


def explain(ev):
    """a human reading of the first unexplained fact (the verdict itself is TLC's)"""
    if ev.get("e") == "Resp":
        if ev.get("alien") or not ev.get("fill", True):
            return "NoInterleave: the body of a response is not the octets its handler wrote (octets of another response inside / Content-Length is not the body that follows)"
        return "a response on the wire is no well-formed response to any unanswered request (wrong status / length / duplicate / for an unparsable message)"
    if ev.get("e") == "End":
        if ev.get("garbage"):
            return "NoInterleave: octets that are no response where a response must start (interleaved or mis-framed responses)"
        if ev.get("left"):
            return "an incomplete response was still on the wire when the wait ended"
        if not ev.get("closed"):
            return "AllAnswered: a complete request got neither a response nor a close within the wait bound (or the connection stayed open after a closing request)"
        return "AllAnswered: the connection was closed with requests unanswered that no closing request explains, or a handler was entered for an unparsable request"
    return "unexplained fact"


def R(k, n=0, close=False, sp=None, tr=0):
    return {"k": k, "n": n, "close": close, "sp": (1 if close else 0) if sp is None else sp, "tr": tr}


def resp(for_, st, cl, bl=None, fill=True, alien=False):
    return {"e": "Resp", "for": for_, "st": st, "cl": cl, "bl": cl if bl is None else bl, "fill": fill, "alien": alien}


def end(closed=False, left=0, garbage=False, invoked=(), pfor=0, pcl=-1, pgot=0):
    return {"e": "End", "closed": closed, "left": left, "garbage": garbage, "invoked": list(invoked), "pfor": pfor, "pcl": pcl, "pgot": pgot}


def self_test_trace(ck):
    """the trace specification against FIXED synthetic executions (independent of the tree under test): the conforming ones
    must be accepted by the property alone, the corrupted ones rejected even with the deviation actions allowed"""
    cfg_dev, cfg_strict, cfg_eval = trace_cfg(ck, DEV_ACTIONS), trace_cfg(ck, []), trace_cfg(ck, [], True)
    trace_tla = os.path.join(SPECDIR, "HttpPipelineTrace.tla")
    rel = lambda i: {"e": "Release", "i": i}
    two = [{"e": "Begin", "reqs": [R("G", 5), R("G", 5)]}, rel(1), resp(1, 200, 5), rel(2), resp(2, 200, 5), end(invoked=[1, 2])]
    big = [{"e": "Begin", "reqs": [R("L", 64), R("G", 5)]}, rel(1), rel(2), resp(1, 200, 65536), resp(2, 200, 5), end(invoked=[1, 2])]
    good = {
        "plain": two,
        "large": big,
        "closing": [{"e": "Begin", "reqs": [R("G", 5, True), R("G", 5)]}, rel(1), resp(1, 200, 5), end(closed=True, invoked=[1, 2])],
        "unparsable": [{"e": "Begin", "reqs": [R("U", 4)]}, end(closed=True)],
        "bodiless status, no octets": [{"e": "Begin", "reqs": [R("S304", 5), R("G", 5)]}, rel(1), resp(1, 304, 5, 0), rel(2), resp(2, 200, 5), end(invoked=[1, 2])],
        "bodiless status, self-consistent": [{"e": "Begin", "reqs": [R("S204", 5), R("HS204", 5)]}, rel(1), resp(1, 204, 5, 5), rel(2), resp(2, 204, -1, 0),
                                             end(invoked=[1, 2])],
        "close spelled Close": [{"e": "Begin", "reqs": [R("G", 5, True, 5), R("G", 5)]}, rel(1), resp(1, 200, 5), end(closed=True, invoked=[1, 2])],
        "head, default handler": [{"e": "Begin", "reqs": [R("HD", 5), R("D", 5)]}, rel(1), resp(1, 404, 5, 0), rel(2), resp(2, 404, 5), end(invoked=[1, 2])],
        "head, 405 / built-in 404": [{"e": "Begin", "reqs": [R("HM"), R("HN"), R("G", 5)]}, resp(0, 405, 18, 0), resp(0, 404, 9, 0), rel(3), resp(3, 200, 5),
                                     end(invoked=[3])],
        "three trailer fields": [{"e": "Begin", "reqs": [R("C", 3, tr=3), R("G", 5)]}, rel(1), resp(1, 200, 3), rel(2), resp(2, 200, 5), end(invoked=[1, 2])],
        "head": [{"e": "Begin", "reqs": [R("H", 5), R("T")]}, rel(1), resp(1, 200, 5, 0), rel(2), resp(2, 500, 21, 21, False), end(invoked=[1, 2])],
    }
    reversed_two = [two[0], rel(2), resp(2, 200, 5), rel(1), resp(1, 200, 5), end(invoked=[1, 2])]
    bad = {
        "duplicate response": two[:3] + [resp(1, 200, 5)] + two[3:],
        "Content-Length != body": [two[0], rel(1), resp(1, 200, 5, 4), rel(2), resp(2, 200, 5), end(left=1, invoked=[1, 2])],
        "silence after an undecidable request": [{"e": "Begin", "reqs": [R("U", 1)]}, end(closed=False)],
        "complete request left waiting": [two[0], rel(1), resp(1, 200, 5), rel(2), end(invoked=[1])],
        "response before its handler returned": [two[0], rel(1), resp(1, 200, 5), resp(2, 200, 5), rel(2), end(invoked=[1, 2])],
        "interleaved body (in order)": [big[0], rel(1), rel(2), resp(1, 200, 65536, None, False, True), end(left=130, garbage=True, invoked=[1, 2])],
        "interleaved body (out of order)": [big[0], rel(2), rel(1), resp(2, 200, 5), resp(1, 200, 65536, None, False, True), end(invoked=[1, 2])],
        "garbage between responses": two[:-1] + [end(left=40, garbage=True, invoked=[1, 2])],
        "body after HEAD": [{"e": "Begin", "reqs": [R("H", 5)]}, rel(1), resp(1, 200, 5, 0), end(left=5, garbage=True, invoked=[1])],
        "body after HEAD (default handler)": [{"e": "Begin", "reqs": [R("HD", 5), R("G", 5)]}, rel(1), resp(1, 404, 5, 0), rel(2),
                                              end(left=140, garbage=True, invoked=[1, 2])],
        "HEAD 405 with its body": [{"e": "Begin", "reqs": [R("HM")]}, resp(0, 405, 18, 18), end()],
        "valid request after two trailer fields answered 400": [{"e": "Begin", "reqs": [R("C", 3, tr=2), R("G", 5)]}, rel(1), resp(1, 200, 3),
                                                                resp(0, 400, 11), rel(2), end(closed=True, invoked=[1])],
        "one chunked request, two responses": [{"e": "Begin", "reqs": [R("C", 3, tr=3)]}, rel(1), resp(1, 200, 3), resp(0, 400, 11),
                                               end(closed=True, invoked=[1])],
        "complete request (terminator split over two segments) never answered": [{"e": "Begin", "reqs": [R("G", 5)]}, rel(1), end(closed=False)],
        "throw answered 200": [{"e": "Begin", "reqs": [R("T")]}, rel(1), resp(1, 200, 21, 21, False), end(invoked=[1])],
        "no close after Connection: close": [{"e": "Begin", "reqs": [R("G", 5, True)]}, rel(1), resp(1, 200, 5), end(closed=False, invoked=[1])],
        "handler entered for a wrapped Content-Length": [{"e": "Begin", "reqs": [R("U", 4)]}, resp(1, 200, 3), end(closed=False, invoked=[1])],
        "handler entered, then closed": [{"e": "Begin", "reqs": [R("U", 5)]}, end(closed=True, invoked=[1])],
        "two responses for one unparsable message": [{"e": "Begin", "reqs": [R("U", 5)]}, resp(0, 400, 11), resp(0, 400, 11), end(closed=True)],
        "Connection: Close not followed by a close": [{"e": "Begin", "reqs": [R("G", 5, True, 2), R("G", 5)]}, rel(1), resp(1, 200, 5), rel(2),
                                                      resp(2, 200, 5), end(invoked=[1, 2])],
        "304 without Content-Length followed by body octets": [{"e": "Begin", "reqs": [R("S304", 5), R("G", 5)]}, rel(1), resp(1, 304, -1, 0), rel(2),
                                                               end(left=130, garbage=True, invoked=[1, 2])],
        "204 with a Content-Length that is not the body": [{"e": "Begin", "reqs": [R("S204", 5)]}, rel(1), resp(1, 204, 5, 3), end(invoked=[1])],
        "HEAD 304 with body": [{"e": "Begin", "reqs": [R("HS304", 5)]}, rel(1), resp(1, 304, 5, 5), end(invoked=[1])],
        "small response cut by the close": [{"e": "Begin", "reqs": [R("G", 5, True)]}, rel(1), end(closed=True, left=90, invoked=[1], pfor=1, pcl=5, pgot=2)],
        "large response cut, connection left open": [{"e": "Begin", "reqs": [R("L", 4096)]}, rel(1),
                                                     end(closed=False, left=300000, invoked=[1], pfor=1, pcl=4194304, pgot=299900)],
        "large response cut by a close nobody asked for": [{"e": "Begin", "reqs": [R("L", 4096)]}, rel(1),
                                                           end(closed=True, left=300000, invoked=[1], pfor=1, pcl=4194304, pgot=299900)],
    }
    trunc = [{"e": "Begin", "reqs": [R("L", 4096, True)]}, rel(1), end(closed=True, left=300000, invoked=[1], pfor=1, pcl=4194304, pgot=299900)]

    def val(tag, evs, cfg):
        p = os.path.join(ck.work, "selftest_%s.ndjson" % "".join(ch if ch.isalnum() else "_" for ch in tag))
        with open(p, "w") as f:
            for e in evs:
                f.write(json.dumps(e) + "\n")
            f.write('{"e":"Reset"}\n')
        v = vf.validate_trace(trace_tla, cfg, p, tag="C16_selftest")
        if v.error:
            raise vf.Infra("self-test validation error (%s): %s" % (tag, v.error))
        return v

    jobs = [("good/" + k, evs, cfg_eval) for k, evs in good.items()] + [("good-strict/" + k, evs, cfg_strict) for k, evs in good.items()] + \
        [("bad/" + k, evs, cfg_dev) for k, evs in bad.items()] + \
        [("order/eval", reversed_two, cfg_eval), ("order/strict", reversed_two, cfg_strict), ("order/dev", reversed_two, cfg_dev),
         ("trunc/strict", trunc, cfg_strict), ("trunc/dev", trunc, cfg_dev)]
    with cf.ThreadPoolExecutor(max_workers=8) as ex:
        res = list(ex.map(lambda j: val(*j), jobs))
    for (tag, evs, cfg), v in zip(jobs, res):
        if tag.startswith("good/") and not (v.accepted and "NOTABS" not in v.out):
            raise vf.Infra("self-test: the evaluation pass does not explain the conforming execution '%s'" % tag)
        if tag.startswith("good-strict/") and not v.accepted:
            raise vf.Infra("self-test: the strict trace specification rejects the conforming execution '%s'" % tag)
        if tag.startswith("bad/") and v.accepted:
            raise vf.Infra("self-test: HttpPipelineTrace (deviation actions allowed) accepted: " + tag[4:])
        if tag == "order/eval" and not (v.accepted and "NOTABS" in v.out):
            raise vf.Infra("self-test: the evaluation pass did not flag responses in reverse order")
        if tag == "order/strict" and v.accepted:
            raise vf.Infra("self-test: the strict HttpPipelineTrace accepted responses in reverse order")
        if tag == "trunc/strict" and v.accepted:
            raise vf.Infra("self-test: the strict HttpPipelineTrace accepted a truncated response")
        if tag == "trunc/dev" and not (v.accepted and "DevCloseTruncates" in v.out):
            raise vf.Infra("self-test: HttpPipelineTrace with DevCloseTruncates rejected a large response cut by its own close")
        if tag == "order/dev" and not (v.accepted and "DevRespOutOfOrder" in v.out):
            raise vf.Infra("self-test: HttpPipelineTrace with DevRespOutOfOrder rejected a reversed but well-formed execution")
    ck.note("trace specification self-test: %d conforming and %d corrupted synthetic executions decided as expected" % (len(good), len(bad)))


def run(ck):
    thorough = ck.tier == "thorough"
    ck.nontrivial_keys = set()
    ck.dev_counts = {}
    known_list(ck)
    ck.rule = ("cases = terminal states of spec/http/HttpPipeline.tla: every pipeline of <= 3 requests over the request classes "
               "(handler with set_content, HEAD, POST echo with Content-Length / chunked body, throwing handler, raw body with "
               "manual Content-Length, 404, 405, OPTIONS, unparsable request line, undecidable length; with and without "
               "Connection: close; chunked requests with 0..3 trailer fields; HEAD on a routed target / no route + default handler that "
               "sets a body / 405 / built-in 404; the pipeline delivered in 1..3 segments cut at every position around the header "
               "terminator of a request; large bodies of 64 KiB / 1 MiB / 4 MiB; Content-Length values that wrap modulo 2^64) x every "
               "order in which the gated handlers return, including returns while a large response is between its write steps; "
               "plus ungated natural repetitions of large + small pipelines with handler delays; non-trivial = more than one "
               "request, or a HEAD / chunked / throwing / raw / large / unparsable / closing request")
    variants = V_QUICK + (V_MORE if thorough else [])
    with cf.ThreadPoolExecutor(max_workers=10) as ex:
        fb = ex.submit(ck.make, "drv_httppipe")
        fst = ex.submit(self_test_trace, ck)
        fd3 = ex.submit(mc, ck, "dev_split", V_SMALL, 2, ("Dev_CompletionOrder", "Dev_SplitSendUnlocked"), False, 3, ["NoInterleave"])
        fd4 = ex.submit(mc, ck, "dev_first", V_SMALL, 2, ("Dev_ExtractOnlyFirst",))
        fd5 = ex.submit(mc, ck, "dev_trunc", V_SMALL + [("L", 1024, True)], 2, ("Dev_CloseDropsQueued",))
        f2 = ex.submit(mc, ck, "len2", variants, 2, (), True)
        f2c = ex.submit(mc, ck, "len2c", V_BASE + V_NEW, 2, (), True)
        fs1 = ex.submit(mc, ck, "seg1", V_SEG1 + (V_NEW if thorough else []), 2, (), True, 3, None, 1, (-1, 0, 1, 2, 3, 4))
        fs2 = ex.submit(mc, ck, "seg2", V_SEG2 + ([("H", 5, False), ("G", 5, True)] if thorough else []), 2, (), True, 3, None, 2, (0, 1, 2, 3, 4), True)
        fd6 = ex.submit(mc, ck, "dev_scan", [("G", 5, False), ("P", 3, False)], 2, ("Dev_ScanResumeSkips",), False, 3, None, 1, (0, 1, 2, 3, 4))
        fd7 = ex.submit(mc, ck, "dev_trail", [("G", 5, False), ("C", 3, False, 0, 2)], 2, ("Dev_OneTrailerOnly",))
        fd8 = ex.submit(mc, ck, "dev_head", [("G", 5, False), ("HD", 5, False), ("H", 5, False)], 2, ("Dev_HeadBodyAfterHandler",), False, 3, ["HeadNoBody"])
        f2b = ex.submit(mc, ck, "len2b", V_BASE + V_SPELL + V_STATUS + (variants if thorough else []), 2, (), True)
        f3 = ex.submit(mc, ck, "len3", variants + V_NEW if thorough else V_SMALL, 3, (), True)
        fd1 = ex.submit(mc, ck, "dev_order", V_SMALL, 2, ("Dev_CompletionOrder",))
        fd2 = ex.submit(mc, ck, "dev_wait", V_SMALL, 2, ("Dev_BadFramingWaits",))
        fw = ex.submit(mc, ck, "workers1", V_SMALL, 3, (), False, 1)
        fb.result()
        r2, r3, rd1, rd2, rw = f2.result(), f3.result(), fd1.result(), fd2.result(), fw.result()
        r2b, r2c, rs1, rs2 = f2b.result(), f2c.result(), fs1.result(), fs2.result()
        rd6, rd7, rd8 = fd6.result(), fd7.result(), fd8.result()
        rd3, rd4, rd5 = fd3.result(), fd4.result(), fd5.result()
        fst.result()
    for nm, r in (("len<=2", r2), ("len<=2, Connection spellings / bodiless statuses", r2b), ("len<=3", r3), ("one worker", rw),
                  ("len<=2, trailer fields / HEAD targets", r2c), ("len<=2, one cut", rs1), ("len<=2, two cuts in one request", rs2)):
        if r.error:
            raise vf.Infra("TLC failed on HttpPipeline (%s): %s" % (nm, r.error))
        ck.states += r.distinct
        ck.transitions += r.generated
        for a, (tk, gn) in r.coverage.items():
            ck.cov[a] = ck.cov.get(a, 0) + tk
        ck.note("HttpPipeline.tla %s: %s" % (nm, r.summary()))
        if r.violated:
            rp = ck.save_replay("impl_spec", {"tlc.out": r.out})
            ck.violation("HttpPipeline.tla (sequenced design) violates %s" % r.violated, rp)
    for a in ["IoExtract", "IoGiveUp", "Start", "FinishStep", "SendStep", "SendHeadStep", "SendBodyStep", "CloseStep", "Deliver"]:
        if ck.cov.get(a, 0) == 0:
            raise vf.Infra("self-test: Impl action %s never taken" % a)
    if rd1.violated != "InOrder":
        raise vf.Infra("self-test: HttpPipeline with Dev_CompletionOrder should violate InOrder, got %r %s" % (rd1.violated, rd1.error))
    if rd2.violated != "AllAnswered":
        raise vf.Infra("self-test: HttpPipeline with Dev_BadFramingWaits should violate AllAnswered, got %r %s" % (rd2.violated, rd2.error))
    if rd1.violated == "NoInterleave":
        raise vf.Infra("self-test: completion-order sends alone must not violate NoInterleave")
    if rd3.violated != "NoInterleave":
        raise vf.Infra("self-test: HttpPipeline with Dev_SplitSendUnlocked should violate NoInterleave, got %r %s" % (rd3.violated, rd3.error))
    if rd4.violated != "AllAnswered":
        raise vf.Infra("self-test: HttpPipeline with Dev_ExtractOnlyFirst should violate AllAnswered, got %r %s" % (rd4.violated, rd4.error))
    if rd5.violated != "AllAnswered":
        raise vf.Infra("self-test: HttpPipeline with Dev_CloseDropsQueued should violate AllAnswered, got %r %s" % (rd5.violated, rd5.error))
    if rd6.violated != "AllAnswered":
        raise vf.Infra("self-test: HttpPipeline with Dev_ScanResumeSkips should violate AllAnswered, got %r %s" % (rd6.violated, rd6.error))
    if rd7.violated != "AllAnswered":
        raise vf.Infra("self-test: HttpPipeline with Dev_OneTrailerOnly should violate AllAnswered, got %r %s" % (rd7.violated, rd7.error))
    if rd8.violated != "HeadNoBody":
        raise vf.Infra("self-test: HttpPipeline with Dev_HeadBodyAfterHandler should violate HeadNoBody, got %r %s" % (rd8.violated, rd8.error))
    ck.states += rd6.distinct + rd7.distinct + rd8.distinct
    ck.states += rd1.distinct + rd2.distinct + rd3.distinct + rd4.distinct + rd5.distinct
    ck.transitions += rd1.generated + rd2.generated + rd3.generated + rd4.generated
    ck.exhaustive = True
    seen, cases = set(), []
    for c in cases_of(r2) + cases_of(r2b) + cases_of(r3) + cases_of(r2c) + cases_of(rs1) + cases_of(rs2):
        key = json.dumps(c, sort_keys=True)
        if key not in seen:
            seen.add(key)
            cases.append(c)
    if len(cases) < 100:
        raise vf.Infra("generator produced only %d cases" % len(cases))
    for sp in range(2, 9):
        if not any(any(r.get("sp") == sp for r in c["pipe"][:-1]) for c in cases):
            raise vf.Infra("generator produced no pipeline with Connection spelling %d followed by another request" % sp)
    for cls in ("U", "B", "H", "T", "C", "L", "S204", "S304", "HS204", "HS304", "D", "HD", "HM", "HN"):
        if not any(any(r["k"] == cls for r in c["pipe"]) for c in cases):
            raise vf.Infra("generator produced no pipeline with request class " + cls)
    for cls in ("H", "HD", "HM", "HN"):
        if not any(c["pipe"][0]["k"] == cls and len(c["pipe"]) > 1 for c in cases):
            raise vf.Infra("generator produced no pipeline in which another request follows a HEAD of class " + cls)
    for tr in range(4):
        if not any(c["pipe"][0]["k"] == "C" and c["pipe"][0].get("tr") == tr and len(c["pipe"]) > 1 for c in cases) or \
                not any(c["pipe"][-1]["k"] == "C" and c["pipe"][-1].get("tr") == tr for c in cases):
            raise vf.Infra("generator produced no chunked request with %d trailer fields (followed by another request / last)" % tr)
    for o in (-1, 0, 1, 2, 3, 4):
        for i in (1, 2):
            if not any(c.get("cuts") == [[i, o]] for c in cases):
                raise vf.Infra("generator produced no pipeline cut once at <<%d, %d>>" % (i, o))
    if not any(len(c.get("cuts") or []) == 2 and all(1 <= o <= 3 for _, o in c["cuts"]) for c in cases):
        raise vf.Infra("generator produced no pipeline in three segments with both cuts inside one header terminator")
    if not any(c["order"] != sorted(c["order"]) for c in cases):
        raise vf.Infra("generator produced no case whose handlers return out of request order")
    if not any(any(i < 0 for i in c["order"]) for c in cases):
        raise vf.Infra("generator produced no case in which a handler returns while a large response is being written")
    for v in (4, 5):
        if not any(any(r["k"] == "U" and r["n"] == v for r in c["pipe"]) for c in cases):
            raise vf.Infra("generator produced no pipeline with a wrapping Content-Length (U%d)" % v)
    # ---- natural runs: no gate, the small handlers return 0..max_us after they were entered, while the large response is
    # being built and written; many repetitions
    G5 = {"k": "G", "n": 5, "close": False}
    nat = []
    for kb, max_us, reps in ((4096, 15000, 300 if thorough else 36), (1024, 5000, 200 if thorough else 24), (64, 800, 100 if thorough else 12)):
        for r in range(reps):
            big = {"k": "L", "n": kb, "close": False}
            pipe = [big, G5, G5] if r % 3 else [G5, big, G5]
            nat.append({"pipe": pipe, "order": [1, 2, 3], "natural": True, "wantResp": 3, "wantClose": False,
                        "delays": [ck.rng.randrange(1, max_us) if q["k"] == "G" else None for q in pipe]})
    cases += nat
    # ---- one connection at a time: groups of sequential cases share a server
    per_group = 12
    lines = [case_line(c, i // per_group, 1, i % per_group, 1500) for i, c in enumerate(cases)]
    out_path = run_driver(ck, lines, "pipe")
    judge(ck, cases, lines, out_path, "pipe")
    # ---- many connections at once
    if thorough:
        pick = [c for c in cases if len(c["pipe"]) >= 2]
        ck.rng.shuffle(pick)
        pick = pick[:4000]
        par = 6
        lines2 = [case_line(c, i // par, par, i % par, 2500) for i, c in enumerate(pick)]
        out2 = run_driver(ck, lines2, "many")
        judge(ck, pick, lines2, out2, "many")
    ck.nontrivial = len(ck.nontrivial_keys)
    ck.note("deviation actions needed: %s" % ck.dev_counts)
    for c in (cases[0], [c for c in cases if len(c.get("cuts") or []) == 2][0], [c for c in cases if c["order"] != sorted(c["order"])][0], [c for c in cases if c["pipe"][-1]["k"] == "U"][-1],
              [c for c in cases if any(i < 0 for i in c["order"])][0], nat[0]):
        ck.sample({"pipeline": c["pipe"], "handlers_return_in_order": c["order"], "responses_expected": c["wantResp"],
                   "close_expected": c["wantClose"], "cuts": c.get("cuts"), "natural_run_delays_us": c.get("delays"),
                   "bytes": case_line(c, 0, 1, 0, 0).split(" | ")[3][:200]})


def replay(ck, path):
    ck.make("drv_httppipe")
    ck.nontrivial_keys = set()
    ck.dev_counts = {}
    known_list(ck)
    line = open(os.path.join(path, "case.txt")).read().strip()
    f = line.split(" | ")
    w = f[0].split()
    case = {"pipe": json.loads(f[1]), "order": [int(x) for x in f[4].split(",") if x.strip() and x.strip() != "*"],
            "natural": "*" in f[4], "wantResp": int(w[4]), "wantClose": w[5] == "1"}
    out_path = run_driver(ck, [line], "replay")
    print(open(out_path).read())
    judge(ck, [case], [line], out_path, "replay")
