"""X24 (extra, beyond the listed properties; not registered in MANIFEST.json) - iora::network IPv4 / IPv6 / IpAddress /
CidrNetwork (include/iora/network/ip_utils.hpp; the repository has no unit test for this header).

  1. spec/extra/IpUtils.tla is generator + Impl specification: Init enumerates the configured cases (texts over small token
     alphabets incl. EVERY empty/non-empty field pattern up to 10 fields, values with every zero-run layout, every prefix
     length 0..32 / 0..128 with the probe address differing from the network in ONE bit), one action per entry point computes
     the result with operators shaped like the code; invariants Refines / RoundTrip compare with the DECLARATIVE definitions of
     spec/extra/IpOps.tla (fields of the text, bits of the address, RFC 4291 / RFC 5952).  Every Dev_* flag must make TLC
     report a violation (self-test).
  2. every terminal state is a case: harness/drv_iputils.cpp (ASan + UBSan) calls the real functions.
  3. TLC validates the recorded events against spec/extra/IpUtilsTrace.tla (the evaluator judges the LOGGED input, so the
     verdict does not depend on the generator's prediction).  A result that is exactly the behaviour of a named as-built
     deviation (Dev_LenientColon, Dev_LenientPrefix - see X24.meta.json 'observations') is reported as OBSERVATION and the
     check stays green; anything else is a VIOLATION.
"""
import os, json
from collections import Counter
import vf
from checks import xtext_common as xc

SPECDIR = xc.SPECDIR
FAMS = ["V4Texts", "V4Vals", "N4Cases", "V6Texts", "V6Vals", "N6Cases", "C6Vals", "AnyTexts", "CidrTexts", "HasCases", "ReparseCases", "TrustCases"]
DEVS = {"Dev_LeadingZeroOk": ("Refines", "RoundTrip"), "Dev_Octet256": ("Refines", "RoundTrip"), "Dev_NoTrailCheck": ("Refines", "RoundTrip"),
        "Dev_Prefix0Shift": ("Refines",), "Dev_Private172Slash16": ("Refines",), "Dev_DcPosEarly": ("Refines",),
        "Dev_TieLast": ("Refines",), "Dev_CompressSingle": ("Refines",), "Dev_RemMaskLow": ("Refines",),
        "Dev_NoFamilyPrefixCheck": ("Refines",), "Dev_LenientColon": ("Refines",), "Dev_LenientPrefix": ("Refines",),
        "Dev_FailedParseMutates": ("Refines",), "Dev_TrustTextualHost": ("Refines",)}
ACTIONS = ["Parse4", "Format4", "InNet4", "Class4", "Parse6", "Format6", "InNet6", "Class6", "AnyAddr", "CidrParse", "CidrHas", "Reparse", "Trust"]
INVS = ["Refines", "RoundTrip", "Progress"]
WANT = {("P4", "ok"), ("P4", "rej"), ("P6", "ok"), ("P6", "rej"), ("P6", "lenient"), ("N4", "in"), ("N4", "out"), ("N4", "same"),
        ("N6", "in"), ("N6", "out"), ("N6", "same"), ("C4", "special"), ("C4", "plain"), ("C6", "special"), ("C6", "plain"),
        ("A", "ok"), ("A", "rej"), ("A", "lenient"), ("CI", "ok"), ("CI", "rej"), ("CI", "lenient"), ("H", "in"), ("H", "out"),
        ("H", "badnet"), ("F4", "fmt"), ("F6", "fmt"), ("RP", "second"), ("RP", "failed"), ("TL", "trusted"), ("TL", "not")}


def cfg_for(ck, name, dev=None, emit=True):
    p = os.path.join(ck.work, name + ".cfg")
    c = {f: "<- MC" + f for f in FAMS}
    for d in DEVS:
        c[d] = (d == dev)
    vf.write_cfg(p, constants=c, invariants=INVS + (["Emit"] if emit else []))
    return p


def nums(v):
    return " ".join(str(a) for a in v)


def to_line(c):
    k = c["kind"]
    if k in ("P4", "P6", "A", "CI"):
        return "%s %s" % (k, xc.hexs(c["x"]))
    if k in ("F4", "C4", "F6", "C6"):
        return "%s %s" % (k, nums(c["x"]))
    if k in ("N4", "N6"):
        return "%s %s %s %d" % (k, nums(c["x"]), nums(c["y"]), c["p"])
    if k in ("H", "RP", "TL"):
        return "%s %s %s" % (k, xc.hexs(c["x"]), xc.hexs(c["y"]))
    raise vf.Infra("unknown case kind %r" % k)


def drive_and_judge(ck, tag, lines_in, known):
    cp = os.path.join(ck.work, tag + ".cases")
    op = os.path.join(ck.work, tag + ".ndjson")
    open(cp, "w").write("\n".join(lines_in) + "\n")
    n, crashed, hung = xc.run_drv("drv_iputils.asan", cp, op, batch=400, parallel=6)
    lines, bad, obs = xc.validate_sharded(ck, "IpUtilsTrace", op, nshards=4)
    if len(lines) != len(lines_in):
        raise vf.Infra("drv_iputils: %d events for %d cases" % (len(lines), len(lines_in)))
    ck.evaluations += len(lines)
    ck.traces += len(lines) - len(bad)
    if crashed or hung:
        ck.note("driver: %d crashed, %d hung; sanitizer output: %s" % (crashed, hung, xc.worker_stderr(op, 1500)))
    xc.report_bad(ck, "IpUtilsTrace", lines, bad, lambda ln: lines_in[ln - 1])
    by = xc.report_obs(ck, lines, obs, known, limit=2)
    return lines, bad, by


def txt(v):
    return bytes(v).decode("latin-1")


def run(ck):
    thorough = ck.tier == "thorough"
    ck.make("drv_iputils.asan")
    known = xc.load_observations("X24")
    ck.rule = ("cases = ALL terminal states of IpUtils.tla: IPv4 texts o.o.o.o over 6 octet tokens + 21 tokens in each position + "
               "structural variants; IPv6 texts = every empty/non-empty field pattern up to 10 fields (thorough: 3 field values up "
               "to 9 fields) + 21 group tokens in 7 positions + mapped / suffixed forms; values with every zero-run layout; "
               "containment for EVERY prefix length 0..33 / 0..129 with a probe that differs from the network in one bit; one-bit "
               "neighbours of every IANA block; CIDR texts = 18 addresses x 30 prefix texts; 19 networks x 42 probe texts. Expected "
               "result by IpOps.tla (fields / bits). Non-trivial = the Abs class is not a plain rejection / the probe differs from "
               "the network")
    if thorough:
        src = open(os.path.join(SPECDIR, "MCIpUtils.tla")).read()
        body = src[src.index("EXTENDS IpUtils") + len("EXTENDS IpUtils"):src.rindex("====")]
        body = body.replace("AllBits == FALSE", "AllBits == TRUE")
        body = body.replace("MCV6Texts == UNION {{Coloned(f, 1) : f \\in [1..n -> {<<>>, One}]} : n \\in 1..MaxFields}",
                            "MCV6Texts == UNION {{Coloned(f, 1) : f \\in [1..n -> {<<>>, One}]} : n \\in 1..MaxFields}\n"
                            "             \\cup UNION {{Coloned(f, 1) : f \\in [1..n -> {<<>>, One, <<97, 66, 99, 68>>}]} : n \\in 1..9}")
        body = body.replace("MCV6Vals == [1..8 -> {0, 1}]", "MCV6Vals == [1..8 -> {0, 1, 43981}]")
        if "43981" not in body or "AllBits == TRUE" not in body or "<<97, 66, 99, 68>>" not in body:
            raise vf.Infra("could not derive the thorough configuration from MCIpUtils.tla")
        mod = xc.write_mc(ck, "MCIpUtilsT", "IpUtils", [body])
        cfg = cfg_for(ck, "MCIpUtilsT")
    else:
        mod, cfg = os.path.join(SPECDIR, "MCIpUtils.tla"), os.path.join(SPECDIR, "MCIpUtils.cfg")
    # each deviation flag must be caught by the model checker: started first, they overlap with the generator run and the driver
    dev_handle = xc.dev_selftests_start(ck, [(d, os.path.join(SPECDIR, "MCIpUtilsDev.tla"), cfg_for(ck, "dev_" + d, dev=d, emit=False), exp)
                                             for d, exp in DEVS.items()], parallel=2)
    r, cases = xc.run_gen(ck, mod, cfg, "gen", "IpUtils.", ACTIONS, what="Impl of ip_utils.hpp", timeout=1500)
    if r.violated:
        xc.dev_selftests_join(ck, dev_handle)
        return
    if not cases:
        raise vf.Infra("no cases")
    cases.sort(key=lambda c: (c["kind"], len(c["x"]), c["x"], c["y"], c["p"]))
    classes = Counter((c["kind"], c["cls"]) for c in cases)
    ck.note("IpUtils.tla: %d cases, classes %s" % (len(cases), {"%s/%s" % k: v for k, v in sorted(classes.items())}))
    for k in WANT:
        if classes.get(k, 0) == 0:
            raise vf.Infra("generator produced no case of class %s/%s" % k)
    prefixes4 = {c["p"] for c in cases if c["kind"] == "N4"}
    prefixes6 = {c["p"] for c in cases if c["kind"] == "N6"}
    if not set(range(0, 33)) <= prefixes4 or not set(range(0, 129)) <= prefixes6:
        raise vf.Infra("generator does not cover every prefix length")
    lines_in = [to_line(c) for c in cases]
    lines, bad, by = drive_and_judge(ck, "ip", lines_in, known)
    badset = {ln for ln, _ in bad}
    obsset = {ln for lns in by.values() for ln in lns}
    # the Impl model (strict) predicts every result except the named deviations: anything else the oracle accepted is drift
    drift = 0
    for k, (c, ln) in enumerate(zip(cases, lines), 1):
        if k in badset or k in obsset:
            continue
        e = json.loads(ln)
        pr = c["res"]
        for f, v in pr.items():
            if f in e and e[f] != v and not (c["kind"] in ("N4", "N6") and c["p"] > (32 if c["kind"] == "N4" else 128)) \
                    and not (f in ("fam", "p") and not pr.get("ok", pr.get("valid", True))):
                drift += 1
                break
    if drift:
        ck.note("model drift: %d events accepted by the Abs oracle differ from the Impl model's prediction" % drift)
    # the lenient classes of the generator must be exactly what shows up as OBS (vacuity of the deviation machinery both ways)
    lenient = sum(1 for c in cases if c["cls"] == "lenient")
    ck.note("generator classes 'lenient': %d cases; events reported as OBS: %d" % (lenient, len(obsset)))
    ck.nontrivial = sum(1 for c in cases if c["cls"] not in ("rej", "same", "plain", "badnet", "not"))
    ck.exhaustive = True
    ck.assumptions.append("bounds: the token alphabets and families of spec/extra/MCIpUtils.tla%s" % (" (thorough: 3 field values, all 128 bits)" if thorough else ""))
    picks = [x for x in cases if x["kind"] == "P6" and x["cls"] == "lenient"][:1] + [x for x in cases if x["kind"] == "CI" and x["cls"] == "lenient"][:1] + \
            [x for x in cases if x["kind"] == "F6" and x["x"].count(0) >= 4][:1] + [x for x in cases if x["kind"] == "H" and x["cls"] == "in"][:1]
    for c in picks:
        ck.sample({"kind": c["kind"], "x": txt(c["x"]) if c["kind"] in ("P4", "P6", "A", "CI", "H", "RP", "TL") else c["x"],
                   "y": txt(c["y"]) if c["kind"] in ("H", "RP", "TL") else c["y"], "class": c["cls"], "model": json.dumps(c["res"])[:160]})
    xc.dev_selftests_join(ck, dev_handle)

    # oracle self-test on synthesised events (independent of the code under test)
    def t(s):
        return [ord(ch) for ch in s]
    z8 = [0] * 8
    net6 = [0x20, 0x01, 0x0d, 0xb8] + [0] * 12
    good = [dict(e="P4", ok=True, v=[1, 2, 3, 4], iv=True, **{"in": t("1.2.3.4")}), dict(e="P4", ok=False, v=[], iv=False, **{"in": t("01.2.3.4")}),
            dict(e="F4", v=[10, 0, 0, 255], out=t("10.0.0.255")),
            dict(e="N4", ip=[10, 0, 0, 1], net=[10, 128, 0, 0], p=8, r=True, sr=True), dict(e="N4", ip=[10, 0, 0, 1], net=[10, 128, 0, 0], p=9, r=False, sr=False),
            dict(e="N4", ip=[1, 2, 3, 4], net=[200, 0, 0, 0], p=0, r=True, sr=True),
            dict(e="C4", v=[172, 31, 0, 1], priv=True, loop=False, spriv=True), dict(e="C4", v=[172, 32, 0, 1], priv=False, loop=False, spriv=False),
            dict(e="P6", ok=True, g=[1, 0, 0, 0, 0, 0, 0, 2], iv=True, **{"in": t("1::2")}), dict(e="P6", ok=False, g=[], iv=False, **{"in": t("1:::2")}),
            dict(e="P6", ok=True, g=[0, 0, 0, 0, 0, 0xffff, 0x102, 0x304], iv=True, **{"in": t("::FFFF:1.2.3.4")}),
            dict(e="F6", g=[0x2001, 0xdb8, 0, 0, 1, 0, 0, 1], out=t("2001:db8::1:0:0:1")), dict(e="F6", g=z8, out=t("::")),
            dict(e="F6", g=[1, 0, 2, 0, 3, 0, 4, 0], out=t("1:0:2:0:3:0:4:0")),
            dict(e="N6", ip=net6[:15] + [1], net=net6, p=127, r=True), dict(e="N6", ip=net6[:15] + [1], net=net6, p=128, r=False),
            dict(e="C6", b=[0xfe, 0xbf] + [0] * 14, loop=False, ll=True, ula=False, m4=False),
            dict(e="A", ok=True, fam=6, str=t("2001:db8::1"), any=True, **{"in": t("2001:0DB8:0:0:0:0:0:1")}),
            dict(e="CI", ok=True, fam=4, p=8, str=t("10.0.0.0/8"), single=False, **{"in": t("10.0.0.0/8")}),
            dict(e="CI", ok=False, fam=4, p=33, str=[], single=False, **{"in": t("10.0.0.0/33")}),
            dict(e="H", c=t("10.0.0.0/8"), ip=t("10.9.9.9"), cok=True, r=True), dict(e="H", c=t("10.0.0.0/8"), ip=t("::1"), cok=True, r=False)]
    corrupt = [dict(e="P4", ok=True, v=[1, 2, 3, 4], iv=True, **{"in": t("01.2.3.4")}), dict(e="P4", ok=True, v=[1, 2, 3, 5], iv=True, **{"in": t("1.2.3.4")}),
               dict(e="P4", ok=True, v=[1, 2, 3, 4], iv=True, **{"in": t("1.2.3.4 ")}), dict(e="F4", v=[10, 0, 0, 255], out=t("10.0.0.0255")),
               dict(e="N4", ip=[1, 2, 3, 4], net=[200, 0, 0, 0], p=0, r=False, sr=False), dict(e="N4", ip=[10, 0, 0, 1], net=[10, 128, 0, 0], p=9, r=True, sr=True),
               dict(e="N4", ip=[10, 0, 0, 1], net=[10, 0, 0, 0], p=32, r=True, sr=True),
               dict(e="C4", v=[172, 31, 0, 1], priv=False, loop=False, spriv=False), dict(e="C4", v=[128, 0, 0, 1], priv=False, loop=True, spriv=False),
               dict(e="P6", ok=True, g=[0, 0, 0, 0, 0, 0, 1, 2], iv=True, **{"in": t("1::2")}), dict(e="P6", ok=True, g=[1, 0, 0, 0, 0, 0, 0, 2], iv=True, **{"in": t("1::::2")}),
               dict(e="P6", ok=True, g=[1, 0, 0, 0, 0, 0, 2, 3], iv=True, **{"in": t("1::2::3")}), dict(e="P6", ok=True, g=[0x1234, 0, 0, 0, 0, 0, 0, 0], iv=True, **{"in": t("12345::")}),
               dict(e="F6", g=[0x2001, 0xdb8, 0, 0, 1, 0, 0, 1], out=t("2001:db8:0:0:1::1")), dict(e="F6", g=[1, 0, 2, 0, 3, 0, 4, 0], out=t("1::2:0:3:0:4:0")),
               dict(e="F6", g=[0xa, 0, 0, 0, 0, 0, 0, 1], out=t("A::1")), dict(e="F6", g=[0xa, 0, 0, 0, 0, 0, 0, 1], out=t("000a::1")),
               dict(e="N6", ip=net6[:15] + [1], net=net6, p=128, r=True), dict(e="N6", ip=[0xa0] + net6[1:], net=net6, p=0, r=False),
               dict(e="C6", b=[0xfe, 0xc0] + [0] * 14, loop=False, ll=True, ula=False, m4=False),
               dict(e="A", ok=True, fam=6, str=t("2001:0DB8:0:0:0:0:0:1"), any=True, **{"in": t("2001:0DB8:0:0:0:0:0:1")}),
               dict(e="CI", ok=True, fam=4, p=33, str=t("10.0.0.0/33"), single=False, **{"in": t("10.0.0.0/33")}),
               dict(e="CI", ok=True, fam=4, p=32, str=t("10.0.0.0"), single=False, **{"in": t("10.0.0.0")}),
               dict(e="CI", ok=True, fam=4, p=9, str=t("10.0.0.0/9"), single=False, **{"in": t("10.0.0.0/8x")}),
               dict(e="H", c=t("10.0.0.0/8"), ip=t("11.0.0.0"), cok=True, r=True), dict(e="H", c=t("::/0"), ip=t("1.2.3.4"), cok=True, r=True),
               dict(e="Crashed", k=3)]
    xc.selftest_oracle(ck, "IpUtilsTrace", good, corrupt)
    # the documented as-built behaviour must come out as OBS (not BAD, not silently accepted)
    asbuilt = [dict(e="P6", ok=True, g=[1, 0, 0, 0, 0, 0, 0, 2], iv=True, **{"in": t("1:::2")}),
               dict(e="P6", ok=True, g=[1, 2, 3, 4, 5, 6, 7, 8], iv=True, **{"in": t(":1:2:3:4:5:6:7:8")}),
               dict(e="CI", ok=True, fam=4, p=8, str=t("10.0.0.0/8"), single=False, **{"in": t("10.0.0.0/8x")}),
               dict(e="CI", ok=True, fam=4, p=0, str=t("10.0.0.0/0"), single=False, **{"in": t("10.0.0.0/0x10")})]
    b2, o2 = xc.judge_lines(ck, "IpUtilsTrace", asbuilt, "asbuilt")
    if b2 or sorted(x for _, x in o2) != [1, 2, 3, 4] or {d for d, _ in o2} != {"Dev_LenientColon", "Dev_LenientPrefix"}:
        raise vf.Infra("self-test: documented as-built behaviour is not reported as OBS: BAD=%s OBS=%s" % (sorted(b2), o2))


def replay(ck, path):
    ck.make("drv_iputils.asan")
    lines_in = [ln.strip() for ln in open(os.path.join(path, "cases.txt")) if ln.strip()]
    lines, bad, by = drive_and_judge(ck, "replay", lines_in, xc.load_observations("X24"))
    print("\n".join(lines[:50]))
