"""C08, timer-service half: TimerService.tla model-checked (with self-tests for the two repaired deviations); scenario scripts
(incl. the schedules the TLC counterexamples of those deviations prescribe) run against the real TimerService / pool in real
time; recorded traces validated by TLC against the Abs oracle TimerTrace.tla."""
import os, json, concurrent.futures as cf
import vf

SPECDIR = os.path.join(vf.SPEC, "timer")
INVS = ["NoEarly", "OneShotOnce", "NoStartAfterCancelTrue", "StoppedRefuses", "NothingAfterStop"]


def svc_cfg(ck, name, token=True, clear=True, maxtime=4, clearheap=True, cycles=0, ids="{1, 2}"):
    p = os.path.join(ck.work, name + ".cfg")
    vf.write_cfg(p, constants={"Ids": ids, "PerIds": "{2}", "Delays": "{0, 1, 2}", "MaxTime": maxtime,
                               "UseCancelToken": token, "ClearAcceptingOnStop": clear, "ResetClearsHeap": clearheap,
                               "MaxCycles": cycles}, invariants=INVS)
    return p


def scenarios(ck, thorough):
    rng = ck.rng
    S = []
    # the TLC counterexample of UseCancelToken=FALSE: Schedule(1) SchedulePeriodic(2) Tick Collect Cancel(2) Start
    for ms in ([20, 35] if not thorough else [10, 20, 35, 50]):
        S.append("svc svc | atsame:1:2:%d, waitstart:1, cancel:2, release:1, wait:%d" % (ms, 3 * ms))
        S.append("svc pool | atsame:1:2:%d, waitstart:1, cancel:2, release:1, wait:%d" % (ms, 3 * ms))
    # the TLC counterexample of ClearAcceptingOnStop=FALSE: DrainBegin DrainTimeout Stop Joined LateSchedule
    # (stop() drains for 5 s: a gated handler keeps the drain from completing)
    S.append("svc svc | at:1:5:g, waitstart:1, thread:wait:5600+release:1, stop, late:3:5, wait:30")
    # drain()/stop() overlapping a collected batch: the service thread is paused at its n-th mutex unlock after the timer became due
    # (TimerService.tla: Collect ; DrainBegin ; <drain returns?> ; Start) - the handler must not start after drain returned
    for n in (1, 2, 3, 4):
        S.append("svc svc | at:1:40, wait:10, pauseunlock:%d:250, wait:60, drain:2000, wait:300" % n)
        S.append("svc svc | at:1:40, at:2:40, wait:10, pauseunlock:%d:200, wait:60, stop, wait:250" % n)
    # stop -> reset -> start cycles: a timer cancelled (or left pending) before the restart, new timers afterwards - with the
    # identifiers starting again - fire once, at their own deadlines
    S.append("svc svc | at:1:60, cancel:1, restart, at:2:250, wait:400")
    S.append("svc svc | at:1:80, at:2:40, wait:10, cancel:2, restart, at:3:200, at:4:30, wait:300, restart, at:5:20, wait:60")
    S.append("svc svc | per:1:30, at:2:500, wait:70, restart, at:3:120, per:4:40, wait:200, cancel:4, wait:50")
    # the pool's stop() while one of its services is being drained by another thread (a handler still running, one still pending)
    S.append("svc pool | at:1:30:g, at:2:150, waitstart:1, thread:drain:3000, thread:wait:120+release:1, wait:20, poolstop, wait:300")
    S.append("svc pool | at:1:20, per:2:25, wait:60, poolstop, late:3:5, wait:60")
    # statistics switched off: the results of cancel() / schedule must be the same
    S.append("svc nostat | at:1:80, at:2:30, wait:5, cancel:1, wait:120, cancel:2")
    S.append("svc nostat | at:1:40:g, per:2:20, waitstart:1, cancel:2, cancel:1, release:1, wait:60, stop, late:3:5")
    # plain life cycle
    S.append("svc svc | at:1:20, per:2:15, wait:100, cancel:2, cancel:1, wait:50")
    S.append("svc pool | at:1:10, at:2:30, cancel:2, wait:60, stop, late:3:5, wait:30")
    S.append("svc svc | at:1:0, at:2:1, at:3:40, wait:10, drain:2000, late:4:5, wait:20")
    S.append("svc svc | at:1:30:g, at:2:30, waitstart:1, cancel:2, cancel:1, release:1, wait:40")
    S.append("svc svc | per:1:10:g, waitstart:1, cancel:1, release:1, wait:60")
    S.append("svc svc | at:1:1500, wait:20, drain:200, wait:20")
    n = 120 if thorough else 24
    for i in range(n):
        ops = []
        keys = list(range(1, 7))
        live = []
        for _ in range(rng.randint(3, 8)):
            r = rng.random()
            if r < 0.4 and keys:
                k = keys.pop(0)
                kind = "per" if rng.random() < 0.3 else "at"
                ms = rng.choice([0, 1, 5, 12, 25, 40]) if kind == "at" else rng.choice([7, 12, 25])
                ops.append("%s:%d:%d" % (kind, k, ms)); live.append(k)
            elif r < 0.65 and live:
                ops.append("cancel:%d" % rng.choice(live))
            else:
                ops.append("wait:%d" % rng.choice([1, 6, 15, 30]))
        tail = rng.choice([["wait:60"], ["stop", "late:9:5", "wait:20"], ["drain:1500", "late:9:5", "wait:20"], ["wait:30", "stop"]])
        S.append("svc %s | %s" % (rng.choice(["svc", "pool", "nostat"]), ", ".join(ops + tail)))
    return S


def run(ck):
    thorough = ck.tier == "thorough"
    ck.make("drv_timersvc")
    tla_path = os.path.join(SPECDIR, "TimerService.tla")
    jobs = [("svc_code", True, True, 5 if thorough else 4), ("svc_notoken", False, True, 4), ("svc_noclear", True, False, 4)]
    # the stop -> reset -> start cycle (two one-shot timers, three in the thorough tier, one restart): the code clears the heap; not clearing it must violate NoEarly
    cyc = [("svc_cycle", True, 5 if thorough else 4), ("svc_cycle_keepheap", False, 4)]

    def go(job):
        name, tok, clr, mt = job
        return job, vf.run_tlc(tla_path, svc_cfg(ck, name, tok, clr, mt), tag="C08_" + name, workers=4, coverage=(tok and clr), timeout=1200)

    def goc(job):
        name, clearheap, mt = job
        return job, vf.run_tlc(tla_path, svc_cfg(ck, name, True, True, mt, clearheap=clearheap, cycles=1, ids="{1, 3, 4}" if thorough else "{1, 3}"), tag="C08_" + name,
                               workers=4, coverage=clearheap, timeout=1200)
    with cf.ThreadPoolExecutor(max_workers=5) as ex:
        fut = [ex.submit(go, j) for j in jobs] + [ex.submit(goc, j) for j in cyc]
        allres = [f.result() for f in fut]
    res = allres[:len(jobs)]
    for (name, clearheap, mt), r in allres[len(jobs):]:
        if r.error:
            raise vf.Infra("TLC failed on TimerService %s: %s" % (name, r.error))
        ck.states += r.distinct
        ck.transitions += r.generated
        if clearheap:
            for a, (tk, gn) in r.coverage.items():
                ck.cov["Svc." + a] = ck.cov.get("Svc." + a, 0) + gn
            ck.note("TimerService.tla with a restart cycle: %s" % r.summary())
            if r.violated:
                rp = ck.save_replay("svc_model_cycle", {"tlc.out": r.out})
                ck.violation("TimerService.tla (restart cycle) violates %s" % r.violated, rp)
        elif r.violated != "NoEarly":
            raise vf.Infra("self-test: TimerService.tla with ResetClearsHeap=FALSE should violate NoEarly, got %r" % r.violated)
    for (name, tok, clr, mt), r in res:
        if r.error:
            raise vf.Infra("TLC failed on TimerService %s: %s" % (name, r.error))
        ck.states += r.distinct
        ck.transitions += r.generated
        if tok and clr:
            for a, (tk, gn) in r.coverage.items():
                ck.cov["Svc." + a] = ck.cov.get("Svc." + a, 0) + gn
            ck.note("TimerService.tla: %s" % r.summary())
            if r.violated:
                rp = ck.save_replay("svc_model", {"tlc.out": r.out})
                ck.violation("TimerService.tla (the design the code follows) violates %s" % r.violated, rp)
        else:
            want = "NoStartAfterCancelTrue" if not tok else "StoppedRefuses"
            if r.violated != want:
                raise vf.Infra("self-test: TimerService.tla %s should violate %s, got %r" % (name, want, r.violated))
    for a in ["Schedule", "SchedulePeriodic", "Cancel", "Tick", "Collect", "Start", "DrainBegin", "DrainTimeout", "Stop", "Joined", "LateSchedule",
              "Reset", "Restart"]:
        if ck.cov.get("Svc." + a, 0) == 0:
            raise vf.Infra("self-test: TimerService action %s never taken" % a)
    lines = scenarios(ck, thorough)
    run_cases(ck, lines, "service")


def run_cases(ck, lines, name):
    from checks import C08
    cp = os.path.join(ck.work, name + "_cases.txt")
    open(cp, "w").write("\n".join(lines) + "\n")
    outp = os.path.join(ck.work, name + ".ndjson")
    rc, out = vf.run_driver("drv_timersvc", ["run", cp, outp, 16], timeout=1200)
    if rc != 0:
        raise vf.Infra("drv_timersvc failed: " + out[-2000:])
    ck.sample({"kind": "timer service scenario", "case": lines[0]})
    C08.judge(ck, outp, lines, name, "TimerTrace")


def replay_case(ck, case):
    run_cases(ck, [case], "replay")
