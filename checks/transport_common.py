"""shared by C02 (fan-out), C03, C04, C05: run cases on drv_s_transport (real Transport::Impl on a scripted engine under the
deterministic scheduler) and judge the recorded traces against spec/transport/TransportTrace.tla"""
import os, json
import vf

SPECDIR = os.path.join(vf.SPEC, "transport")
DRV = "drv_s_transport"
ENGINE_DRV = "drv_sio_engine"       # the real TcpEngine / UdpEngine under the scheduler (vf/sched_io.cpp), judged by EngineTrace.tla


def run_cases(ck, lines, name, nontrivial, variant="", drv=None, spec="TransportTrace"):
    drv = drv or DRV
    cp = os.path.join(ck.work, name + "_cases.txt")
    open(cp, "w").write("\n".join(lines) + "\n")
    outp = os.path.join(ck.work, name + ".ndjson")
    rc, out = vf.run_driver(drv + variant, ["run", cp, outp, 16], timeout=1800,
                            env={"ASAN_OPTIONS": "detect_leaks=0:abort_on_error=1", "TSAN_OPTIONS": "halt_on_error=1 report_signal_unsafe=0 report_thread_leaks=0 suppressions=" + os.path.join(vf.HARNESS, "tsan.supp")})
    if rc != 0:
        raise vf.Infra("%s failed: %s" % (drv + variant, out[-2000:]))
    return judge(ck, outp, lines, name, nontrivial, diag=out, spec=spec)


def run_dfs(ck, case, bound, maxexec, name, nontrivial, variant="", drv=None, spec="TransportTrace"):
    drv = drv or DRV
    outp = os.path.join(ck.work, name + ".ndjson")
    rc, out = vf.run_driver(drv + variant, ["dfs", case, bound, maxexec, outp, 16], timeout=3000,
                            env={"ASAN_OPTIONS": "detect_leaks=0:abort_on_error=1", "TSAN_OPTIONS": "halt_on_error=1 report_signal_unsafe=0 report_thread_leaks=0 suppressions=" + os.path.join(vf.HARNESS, "tsan.supp")})
    if rc != 0:
        raise vf.Infra("%s dfs failed: %s" % (drv, out[-2000:]))
    ck.note("dfs%s %s bound=%d: %s" % (variant, case[:110], bound, out.strip().splitlines()[-1] if out.strip() else ""))
    return judge(ck, outp, None, name, nontrivial, case=case + " | dfs %d" % bound, diag=out, spec=spec)


def judge(ck, trace_path, lines, name, nontrivial, case=None, diag="", spec="TransportTrace"):
    events = vf.read_ndjson(trace_path)
    execs = vf.split_executions(events)
    ck.evaluations += len(execs)
    keys = getattr(ck, "keys", set())
    inconclusive = 0

    def cline(i):
        return lines[i] if lines is not None and i < len(lines) else (case or "?")
    crashed = 0
    keep = []
    for i, (start, evs) in enumerate(execs):
        bad = [e for e in evs if e["e"] in ("Crashed", "HarnessTimeout")]
        if bad:
            if bad[0]["e"] == "HarnessTimeout":
                raise vf.Infra("execution %d of %s exceeded the harness wall-clock limit (%s)" % (i, name, cline(i)))
            crashed += 1
            if crashed == 1:
                rp = ck.save_replay("%s_crash_%d" % (name, i), {"trace.ndjson": "\n".join(json.dumps(e) for e in evs) + "\n",
                                                              "case.txt": cline(i) + "\n", "driver.out": diag[-6000:]})
                ck.classify({"spec": spec, "event": "Crashed"},
                            "execution crashed (abort / signal / sanitizer report) — %s" % cline(i), rp)
            continue
        keep.append((start, evs))
        end = [e for e in evs if e["e"] == "End"]
        if end and end[0]["outcome"] in ("steplimit", "external"):
            inconclusive += 1
        if nontrivial(evs):
            keys.add(json.dumps([e for e in evs if e["e"] != "End"], sort_keys=True))
    ck.keys = keys
    ck.nontrivial = len(keys)
    if crashed:
        flat = []
        for start, evs in keep:
            flat += evs + [{"e": "Reset"}]
        trace_path = trace_path + ".nocrash"
        open(trace_path, "w").write("\n".join(json.dumps(e) for e in flat) + "\n")
        events = flat
        execs = vf.split_executions(events)
        lines = None
    v = ck.validate(os.path.join(SPECDIR, spec + ".tla"), os.path.join(SPECDIR, spec + ".cfg"), trace_path,
                    n_exec=len(execs))
    ck.note("%s: %d executions, crashed=%d, inconclusive=%d" % (name, len(execs), crashed, inconclusive))
    if len(execs) >= 20 and inconclusive * 3 > len(execs):
        # executions that ran into the step limit decide nothing: a third of them is a harness problem (or a livelock) that
        # must not pass silently
        raise vf.Infra("%s: %d of %d executions ended at the step limit (inconclusive)" % (name, inconclusive, len(execs)))
    if execs:
        ck.sample({"kind": name, "case": cline(0), "events": execs[0][1][:14]})
    if not v.accepted:
        x = vf.exec_index_of_line(events, v.maxl)
        start, evs = execs[min(x, len(execs) - 1)]
        bad_ev = events[v.maxl - 1] if v.maxl <= len(events) else {}
        rp = ck.save_replay("%s_reject_%d" % (name, x), {
            "trace.ndjson": "\n".join(json.dumps(e) for e in evs) + "\n", "case.txt": cline(x) + "\n",
            "why.txt": "%s.tla cannot match event %d of this execution: %s\n" % (spec, v.maxl - start + 1, json.dumps(bad_ev))})
        ck.classify({"spec": spec, "event": bad_ev.get("e"), "res": bad_ev.get("res", bad_ev.get("err"))},
                    "%s execution not explainable by %s.tla (%s): first unmatched event %s" % ("transport" if spec == "TransportTrace" else "real-engine", spec, cline(x)[:230], json.dumps(bad_ev)), rp)
        return False
    return crashed == 0


def replay(ck, path, nontrivial=lambda evs: True):
    case = open(os.path.join(path, "case.txt")).read().strip()
    parts = [x.strip() for x in case.split("|")]
    # cases of the real-engine driver begin with the protocol, the others with the buffer cap
    kw = dict(drv=ENGINE_DRV, spec="EngineTrace") if parts[0].split()[0] in ("tcp", "udp") else {}
    ck.make(kw.get("drv", DRV))
    if parts[-1].startswith("dfs"):
        run_dfs(ck, " | ".join(parts[:2]), int(parts[-1].split()[1]), 6000, "replay", nontrivial, **kw)
    else:
        run_cases(ck, [case], "replay", nontrivial, **kw)
