"""X16 (extra, not registered in MANIFEST.json) - iora::parsers::toml (include/iora/parsers/minimal_toml.hpp;
tests/parsers/iora_test_minimal_toml_serializer_array_of_tables.cpp, tests/core/iora_test_config_loader*.cpp).

  1. spec/extra/TomlData.tla fixes the vocabulary (line lexemes: key/value lines of every supported value kind, [table] and
     [[array of tables]] headers, blank / comment lines, malformed lines, lines TOML and the code read differently);
     spec/extra/TomlOps.tla is an EVALUATOR of such documents in TLA+: Eval(doc, {}) is the TOML v1.0 meaning of the supported
     subset (tree, or rejected) with the round-trip law parse(serialize(t)) = t; Eval(doc, KnownDevs) is the code as built,
     one named deviation per decision point.  spec/extra/Toml.tla is the generator: its states are ALL documents of up to
     MaxLen lines per family; invariants Refines (for every Dev_* flag TLC must report the slip) and AbsLaws.
  2. every state is a case: harness/drv_toml.cpp (ASan+UBSan) runs parse -> flatten -> serialize -> parse -> flatten ->
     serialize on the real code, every document in a child of its own under a CPU-time limit (non-termination of the
     first or of the second parse is an outcome, not a stall of the check).
  3. TLC validates the events against spec/extra/TomlTrace.tla.  A result outside the TOML semantics that is EXACTLY the
     documented as-built behaviour is reported as OBSERVATION Dev_<name> (see X16.meta.json 'observations'; the check
     stays green), anything else is a VIOLATION - so the deviations are pinned as they are: a new one, or a change of an
     old one into something else that is still wrong, is reported.
"""
import os, re, json, concurrent.futures as cf
from collections import Counter
import vf
from checks import xtext_common as xc
try:
    import tomllib
except ImportError:          # python < 3.11: the set-up cross-check of the lexeme table is skipped
    tomllib = None

SPECDIR = xc.SPECDIR
KNOWN = ["Dev_EmptyKeyHang", "Dev_InsertOverwrites", "Dev_DupTableMerged", "Dev_EmptyHeaderIsRoot", "Dev_SameLineStatements",
         "Dev_NumberPrefixAccepted", "Dev_LiteralStringEscapes", "Dev_UnknownEscapeKept", "Dev_DottedKeyLiteral", "Dev_EmptyArrayBecomesAot",
         "Dev_EmptyTableDropped", "Dev_FloatIntegralToInt", "Dev_FloatPrecision15", "Dev_NestedArrayLost"]
HYPO = ["Dev_HeaderNotScoped", "Dev_AotOverwrites", "Dev_BoolAsInt"]
DEVS = KNOWN + HYPO
JVM = {"JAVA_TOOL_OPTIONS": "-Xss64m -Xmx4g -XX:ParallelGCThreads=2 -DTLA-Library=%s" % os.pathsep.join([os.path.join(vf.SPEC, "common"), SPECDIR])}
# family, alphabet, final-newline flags, MaxLen quick, MaxLen thorough
CONFIGS = [
    ("scoping", ["Ka1", "Ka2", "Kbs", "Kx", "Tt", "Ttu", "Ar", "Atr"], [True], 4, 5),
    ("values", ["Ka1", "Kan", "Kap", "Kam", "Kac", "Kak", "Kbs", "Kbe", "Kbz", "Kbh", "Kbt", "Kbf", "Kc", "Kce", "Kcm", "Kd", "Kdn", "Kd1", "Kde", "Kdp",
                "Kcd", "Kcn", "Kn1", "Kn2", "Kl", "Kq"], [True], 2, 3),
    ("conflicts", ["Ka1", "Kc", "Kce", "Tt", "Ta", "Tc", "Tr", "Ar", "At", "Aa", "Ac", "Atr", "Kx", "Ttu", "Ku"], [True], 3, 3),
    ("malformed", ["Bne", "Bnv", "Bh", "Ba", "Bb", "Bbx", "Bv", "Bo", "Bs", "Bk", "Bj", "Os", "Oa", "Ka1", "Tt", "Z", "Zc"], [True], 3, 4),
    ("lenient", ["M1", "E1", "D1", "Ka1", "Kbs", "Tt", "Kx", "Ttc", "Ars"], [True], 3, 4),
    ("hang", ["H1", "H2", "H3", "Ka1", "Tt", "Zc"], [True, False], 2, 3),
    ("blank", ["Z", "Zc", "Zs", "Zt", "Ka1", "Tt", "Kx2", "Ttc", "Kac", "Kbh"], [True], 3, 3),
    ("eof", ["Ka1", "Kbs", "Tt", "Ar", "Z", "Zc", "Bnv", "Os", "Oa", "Kc", "Kbt", "Kd", "Kcm"], [False], 2, 3),
    ("roundtrip", ["Tt", "Ttu", "Ar", "Atr", "Kx", "Ky", "Kd1", "Kdp", "Kcn", "Kcd", "Kce", "Kbe", "Z"], [True], 3, 3),
]


def mc(ck, name, families, emit=True, tables=False, devinv=False, flag=None):
    fams = ", ".join("%s |-> [a |-> %s, n |-> %d, nl |-> %s]" % (n, vf.tla(set(a)), m, vf.tla(set(nl))) for n, a, nl, m in families)
    defs = ["MCFamilies == [%s]" % fams]
    if tables:
        defs.append("ASSUME PrintT(ToJson(Tables))")
    invs = ["Refines", "AbsLaws"] + (["Emit2"] if emit else [])
    if devinv:
        for d in KNOWN:
            defs.append('Inv_%s == Eval(lex, {"%s"}) \\in Allowed(lex)' % (d, d[4:]))
        invs = ["Inv_" + d for d in KNOWN]
    mod = xc.write_mc(ck, "MCT_" + name, "Toml", defs)
    cfg = os.path.join(ck.work, "MCT_%s.cfg" % name)
    c = {"Families": "<- MCFamilies"}
    for d in DEVS:
        c[d] = (d == flag)
    vf.write_cfg(cfg, constants=c, invariants=invs)
    return mod, cfg


DEV_FAMS = [("devA", ["H1", "Ka1", "Ka2", "Tt", "E1", "M1", "Kn1", "Kl", "Kq", "D1", "Kce", "Ac", "Kd1", "Kdp", "Kcn", "Ar", "Kx", "Kbt"], [True], 3)]


def dev_selftest(ck):
    """every deviation must make TLC report a violation of Refines on a small family that contains a witness for each: the
    observed ones in one run (-continue, Inv_Dev_X is Refines with F = {X}), the hypothetical slips with their CONSTANT flag
    TRUE (they transform the result outside TomlOps); plus the coverage run on the small static configuration"""
    mod, cfg = mc(ck, "dev", DEV_FAMS, emit=False, devinv=True)
    r = vf.run_tlc(mod, cfg, tag="X16_dev", workers=1, timeout=900, lib_dirs=[SPECDIR], env=JVM, extra=["-continue"])
    hit = set(re.findall(r"Invariant Inv_(Dev_\w+) is violated", r.out))
    if hit != set(KNOWN):
        raise vf.Infra("self-test: deviations not caught by TLC: %s (%s)" % (sorted(set(KNOWN) - hit), (r.out or "")[-600:]))
    flags = HYPO + (KNOWN if ck.tier == "thorough" else KNOWN[:1])
    jobs = []
    for d in flags:
        m2, c2 = mc(ck, "flag_" + d, DEV_FAMS, emit=False, flag=d)
        jobs.append((d, m2, c2, ("Refines",)))
    xc.dev_selftests(ck, jobs, parallel=2, env=JVM)
    rc, _ = xc.run_gen(ck, os.path.join(SPECDIR, "MCToml.tla"), os.path.join(SPECDIR, "MCToml.cfg"), "cov", "Toml.", ["Next"],
                       workers=1, invariant_is_violation=False, env=JVM)
    return "each of %d observed deviations violates Refines (F = {X}); CONSTANT flags %s each violate Refines; coverage run: action Next taken %d times" % (
        len(KNOWN), ", ".join(flags), rc.coverage["Next"][1])


def canon_py(v):
    if isinstance(v, bool):
        return "b:true" if v else "b:false"
    if isinstance(v, int):
        return "i:%d" % v
    if isinstance(v, float):
        return "f:%.17g" % v
    if isinstance(v, str):
        return "s:" + v.encode().hex()
    if isinstance(v, list):
        return "a:[" + ",".join(canon_py(x) for x in v) + "]"
    return "?"


def check_tables(t):
    """the TOML reading of every line lexeme against Python's tomllib (set-up cross-check, infrastructure only)"""
    if tomllib is None:
        return
    for name, x in t["lexemes"].items():
        k, txt = x["k"], x["txt"]
        try:
            d = tomllib.loads(txt + "\n")
            ok = True
        except tomllib.TOMLDecodeError:
            d, ok = None, False
        want = None
        if k == "kv":
            want = (x["val"] != "!")
            good = (not ok) if not want else (list(d.keys()) == [x["key"]] and canon_py(d[x["key"]]) == x["val"])
        elif k in ("tab", "aot"):
            node = d
            good = ok
            for i, p in enumerate(x["path"]):
                good = good and isinstance(node, dict) and p in node
                if good:
                    node = node[p]
            good = good and (node == {} if k == "tab" else node == [{}])
        elif k == "blank":
            good = ok and d == {}
        elif k == "dotted":
            good = ok and d == {"t": {"x": 1}}
        elif k == "nokey":
            good = (ok and d == {x["key"]: 1}) if x["val"] else not ok
        else:                                   # bad, open, multi, emptyhdr: not TOML
            good = not ok
            if name == "Bo":                    # tomllib has arbitrary-precision integers; TOML demands an error beyond 64 bits
                good = True
        if not good:
            raise vf.Infra("TomlData: lexeme %s (%s) %r is read by tomllib as %r (%s), table says key=%r val=%r path=%r" % (
                name, k, txt, d, "valid" if ok else "invalid", x["key"], x["val"], x["path"]))


def generate(ck, thorough):
    fams = [(n, a, nl, th if thorough else q) for n, a, nl, q, th in CONFIGS]
    mod, cfg = mc(ck, "gen", fams, tables=True)
    r = vf.run_tlc(mod, cfg, tag="X16_gen", workers=4, timeout=2400, lib_dirs=[SPECDIR], env=JVM)
    if r.error:
        raise vf.Infra("TLC failed on Toml.tla: %s" % r.error)
    prints = xc.tlc_json_prints(r)
    tabs = [p for p in prints if "lexemes" in p]
    if not tabs:
        raise vf.Infra("TLC did not print the table of TomlData")
    check_tables(tabs[0])
    cases = [p for p in prints if "lexemes" not in p]
    if not r.violated and len(cases) != r.distinct:
        raise vf.Infra("generator: %d case lines for %d states" % (len(cases), r.distinct))
    return r, cases, {n: m for n, a, nl, m in fams}, tabs[0]


def with_jvm(fn):
    old = vf.validate_trace
    vf.validate_trace = lambda m, c, tr, **kw: old(m, c, tr, **dict(kw, env=dict(JVM, JAVA_TOOL_OPTIONS=JVM["JAVA_TOOL_OPTIONS"] + " -Dtlc2.tool.queue.IStateQueue=StateDeque")))
    try:
        return fn()
    finally:
        vf.validate_trace = old


def drive_and_judge(ck, tag, lines_in):
    cp = os.path.join(ck.work, tag + ".cases")
    op = os.path.join(ck.work, tag + ".ndjson")
    open(cp, "w").write("\n".join(lines_in) + "\n")
    n, crashed, hung = xc.run_drv("drv_toml.asan", cp, op, batch=300, parallel=8)
    lines, bad, obs = with_jvm(lambda: xc.validate_sharded(ck, "TomlTrace", op, nshards=4))
    if len(lines) != len(lines_in):
        raise vf.Infra("drv_toml: %d events for %d cases" % (len(lines), len(lines_in)))
    ck.evaluations += len(lines)
    ck.traces += len(lines) - len({ln for ln, _ in bad})
    if crashed or hung:
        ck.note("driver: %d crashed, %d hung; sanitizer output: %s" % (crashed, hung, xc.worker_stderr(op, 1500)))
    xc.report_bad(ck, "TomlTrace", lines, bad, lambda ln: lines_in[ln - 1])
    by = xc.report_obs(ck, lines, obs, xc.load_observations("X16"), limit=1)
    return lines, bad, by


def run(ck):
    thorough = ck.tier == "thorough"
    ck.make("drv_toml.asan")
    ck.rule = ("cases = ALL states of Toml.tla per line-lexeme family (scoping by headers, every value kind, name conflicts, malformed lines, "
               "lenient readings, non-terminating lines, blank / comment lines, no final newline, round-trip-sensitive values): every document "
               "of up to MaxLen lines (quick 2-4, thorough 3-5 for the scoping / values / malformed / lenient families; a document the as-built semantics gives up on is a case but is not extended); "
               "expected tree / rejection / round trip by TomlOps!Eval. Non-trivial = a document with a header or at least two lines")
    bg = cf.ThreadPoolExecutor(max_workers=1)
    devf = bg.submit(dev_selftest, ck)
    r, allcases, maxlens, t = generate(ck, thorough)
    if r.violated:
        rp = ck.save_replay("impl_spec", {"tlc.out": r.out[-30000:]})
        ck.violation("Toml.tla violates its invariant %s" % r.violated, rp)
        ck.note("self-test: " + devf.result())
        return
    lexemes = t["lexemes"]
    ck.states += r.distinct
    ck.transitions += r.generated
    cases, stats, seen = [], {}, set()
    for name, alphabet, nls, q, th in CONFIGS:
        cs = [c for c in allcases if c["fam"] == name]
        used = {x for c in cs for x in c["lex"]}
        if not cs or used != set(alphabet):
            raise vf.Infra("generator family %s never used the lexemes %s" % (name, sorted(set(alphabet) - used)))
        stats[name] = (len(cs), sum(1 for c in cs if c["p1"] == "rej"), sum(1 for c in cs if c["dev"]), maxlens[name])
        ck.cov["Next[%s]" % name] = len(cs)
        for c in cs:
            key = (tuple(c["lex"]), c["nl"])
            if key not in seen:
                seen.add(key)
                cases.append(c)
    ck.note("Toml.tla: %s; %d distinct documents; per family (cases, rejected by TOML, with a deviation that matters, MaxLen): %s" % (
        r.summary(), len(cases), stats))
    nrej, nok = sum(1 for c in cases if c["p1"] == "rej"), sum(1 for c in cases if c["p1"] == "ok")
    if nrej < 50 or nok < 50:
        raise vf.Infra("generator is vacuous: %d valid, %d invalid documents" % (nok, nrej))
    predicted = Counter("Dev_" + d for c in cases for d in c["dev"])
    for d in KNOWN:
        if predicted.get(d, 0) == 0:
            raise vf.Infra("no generated document is sensitive to the documented deviation %s" % d)
    ck.rng.shuffle(cases)

    def text_of(c):
        ls = [lexemes[x]["txt"] for x in c["lex"]]
        return "".join(s + ("\n" if (j < len(ls) - 1 or c["nl"]) else "") for j, s in enumerate(ls))
    lines_in = ["T h %d %s %s" % (1 if c["nl"] else 0, ",".join(c["lex"]) or "-", text_of(c).encode().hex() or "-")
                for c in cases]
    lines, bad, by = drive_and_judge(ck, "toml", lines_in)
    badset = {ln for ln, _ in bad}
    seen_obs = Counter({d: len(set(lns)) for d, lns in by.items()})
    gone = [d for d in KNOWN if predicted[d] and not seen_obs.get(d)]
    if gone and not bad:
        ck.note("documented deviations NOT reproduced (code changed?): %s" % ", ".join(gone))
    ck.note("observed deviations (documents): %s" % dict(seen_obs))
    ck.nontrivial = sum(1 for c in cases if len(c["lex"]) >= 2 or any(lexemes[x]["k"] in ("tab", "aot") for x in c["lex"]))
    ck.exhaustive = True
    ck.assumptions.append("bounds: documents of up to MaxLen lines per family over the fixed line vocabulary of TomlData.tla")
    for pick in (lambda c: c["fam"] == "scoping" and c["p1"] == "ok" and len(c["t1"]) >= 3 and not c["dev"], lambda c: c["fam"] == "conflicts" and c["p1"] == "rej" and not c["dev"],
                 lambda c: "EmptyKeyHang" in c["dev"], lambda c: "NestedArrayLost" in c["dev"]):
        for c in cases:
            if pick(c):
                ck.sample({"family": c["fam"], "document": text_of(c), "TOML": c["p1"], "tree": c["t1"][:6], "as built": c["bp1"] + "/" + c["bp2"], "deviations": c["dev"]})
                break

    # oracle self-test on synthesised events
    def ev(lex, p1, t1, p2=None, t2=None, nl=True, fix=True, doc=None, **kw):
        ls = [lexemes[x]["txt"] for x in lex]
        d = dict(e="Toml", lex=lex, nl=nl, doc=doc if doc is not None else "".join(s + ("\n" if (j < len(ls) - 1 or nl) else "") for j, s in enumerate(ls)),
                 p1=p1, x1="none", t1=t1, ser="ok" if p1 == "ok" else "na", p2=p2 or ("ok" if p1 == "ok" else "na"), t2=t1 if t2 is None else t2, fix=fix)
        d.update(kw)
        return d
    A1, BX = ["a", "i:1"], ["b", "s:78"]
    good = [ev(["Ka1", "Kbs"], "ok", [A1, BX]), ev(["Tt", "Kx", "Ttu"], "ok", [["t", "x", "i:1"], ["t", "u", "{}"]]),
            ev(["Ar", "Kx", "Ar"], "ok", [["r", "#0", "x", "i:1"], ["r", "#1", "{}"]]), ev(["Ka1", "Ka2"], "rej", []), ev(["Tt", "Tt"], "rej", []),
            ev(["Ka1", "Ta"], "rej", []), ev(["Bnv"], "rej", []), ev(["H1"], "rej", []), ev(["Kd1"], "ok", [["d", "f:1"]]), ev(["D1"], "rej", []),
            ev(["D1"], "ok", [["t", "x", "i:1"]]), ev(["Kcn"], "ok", [["c", "a:[a:[i:1,i:2],a:[i:3]]"]]), ev(["Ka1"], "ok", [A1], nl=False)]
    corrupt = [ev(["Ka1", "Kbs"], "ok", [A1]), ev(["Tt", "Kx"], "ok", [["x", "i:1"]]), ev(["Ar", "Kx", "Ar", "Kx"], "ok", [["r", "#0", "x", "i:1"]]),
               ev(["Kbt"], "ok", [["b", "i:1"]]), ev(["Bnv"], "ok", []), ev(["Ka1"], "rej", []), ev(["Ka1"], "hang", []), ev(["Ka1"], "crash", []),
               ev(["Ka1", "Ka2"], "ok", [A1]),                      # duplicate key: FIRST wins is not the documented deviation
               ev(["Kd1"], "ok", [["d", "f:1"]], t2=[["d", "s:31"]]), ev(["Tt", "Kx"], "ok", [["t", "x", "i:1"]], t2=[]), ev(["Ka1"], "ok", [A1], fix=False),
               ev(["Ka1"], "ok", [A1], doc="a = 2\n"), ev(["Kcn"], "ok", [["c", "a:[a:[i:1,i:2],a:[i:3]]"]], t2=[["c", "a:[]"]]), dict(e="Crashed", k=1)]
    # documented as-built behaviour must come out as OBS (not BAD, not silently accepted)
    obsv = [ev(["Ka1", "Ka2"], "ok", [["a", "i:2"]]), ev(["H1"], "hang", []), ev(["Tt", "Kx", "Ttu"], "ok", [["t", "x", "i:1"], ["t", "u", "{}"]], t2=[["t", "x", "i:1"]]),
            ev(["Kd1"], "ok", [["d", "f:1"]], t2=[["d", "i:1"]]), ev(["Kcn"], "ok", [["c", "a:[a:[i:1,i:2],a:[i:3]]"]], p2="rej", t2=[], fix=False)]
    with_jvm(lambda: xc.selftest_oracle(ck, "TomlTrace", good, corrupt))
    b2, o2 = with_jvm(lambda: xc.judge_lines(ck, "TomlTrace", obsv, "obs"))
    if b2 or {x for _, x in o2} != set(range(1, len(obsv) + 1)):
        raise vf.Infra("self-test: documented as-built behaviour is not reported as OBS: BAD=%s OBS=%s" % (sorted(b2), o2))
    ck.note("self-test: " + devf.result())
    bg.shutdown()


def replay(ck, path):
    ck.make("drv_toml.asan")
    lines_in = [ln.strip() for ln in open(os.path.join(path, "cases.txt")) if ln.strip()]
    lines, bad, by = drive_and_judge(ck, "replay", lines_in)
    print("\n".join(lines[:50]))
