"""X20 (extra, beyond the listed properties; not registered in MANIFEST.json) - iora::core::Logger (core/logger.hpp), the asynchronous
logger: level filter, the two queues between producers and the writer thread, flush(), shutdown(), set/clearExternalHandler,
re-init racing producers.

  1. spec/extra/Logger.tla (Impl: one action per critical section of data.mutex; handler call outside the lock) is model-checked
     exhaustively in three configurations (stream sink / external handler / handler cleared by the controller); every Dev_* flag must
     make TLC report a violation, and Strong = TRUE (strict handler order, strict flush, nothing stranded, no spinning worker) must be
     violated - these counterexamples are the OBSERVATIONS and are replayed on the real code as directed probes.
  2. The state graphs (transition cover), the counterexamples, seeded random schedules of a family of programs (sync mode, re-init and
     setLevel racing producers, two handlers, several flushers) and a preemption-bounded DFS drive the REAL Logger under the
     deterministic scheduler; output is observed at the sinks themselves (log file, captured std::cout, the handler).
  3. Every recorded execution is judged by spec/extra/LoggerTrace.tla; named deviations are accepted and reported as OBSERVATION."""
import os, re, json
import vf
from checks import xcore_common as xc

SPECDIR = xc.SPECDIR
TRACE = os.path.join(SPECDIR, "LoggerTrace.tla")
TRACE_CFG = os.path.join(SPECDIR, "LoggerTrace.cfg")
INVS = ["AtMostOnce", "LevelOk", "OkInv", "OrderW", "OrderH", "TearOut", "AfterShut", "NoSpin", "NoStuck"]
ACTIONS = {"file": ["LogSkip", "LogPush", "FlushStart", "FDrain", "FRet", "WDrain", "SStart", "SExit", "SJoin"],
           "handler": ["LogPush", "FPop", "FCall", "FDrain", "FRet", "WPop", "WCall", "WDrain", "SStart", "SExit", "SJoin"],
           "clear": ["CClear1", "CClear2", "FPop", "WPop", "SJoin"]}
CFGS = {"file": dict(UseHandler=False, WithClear=False), "handler": dict(UseHandler=True, WithClear=False), "clear": dict(UseHandler=True, WithClear=True)}
DEVS = {"Dev_LevelOff": (("OkInv",), "file"), "Dev_FlushSkipsQueue": (("OkInv",), "file"), "Dev_FlushSkipsRaw": (("OkInv",), "handler"),
        "Dev_WriteOutsideLock": (("OkInv", "OrderW", "AfterShut"), "file"), "Dev_NoDrainWait": (("TearOut",), "clear"),
        "Dev_ShutdownNoJoin": (("AfterShut", "OkInv"), "file"), "Dev_WorkerLifo": (("OrderH",), "handler")}
STRONG = {"handler": ("OrderH", "OkInv"), "clear": ("OkInv", "NoSpin", "OrderH")}
DEFS = 'MCLvls == [p \\in Prods |-> IF p = "p1" THEN <<2, 3, 2>> ELSE <<1, 2, 4>>]'
PROG = {"file": "m=init:2:1,go,idle ; p1=%s,flush ; p2=%s ; c=shutdown", "handler": "m=init:2:1,seth:1,go,idle ; p1=%s,flush ; p2=%s ; c=shutdown",
        "clear": "m=init:2:1,seth:1,go,idle ; p1=%s,flush ; p2=%s ; c=clrh,shutdown"}
TAIL = ["p1*", "p2*", "c*", "wk1*", "p1*", "p2*", "c*", "m*", "wk1*", "c*", "m*"]
# programs for seeded random schedules (beyond the shape of the Impl model)
RANDOM_PROGS = [
    "0 | m=init:2:1,go,idle ; p1=log:2,log:3,flush,log:2 ; p2=log:1,log:2,flush ; c=log:5,shutdown",
    "1 | m=init:2:1,go,idle ; p1=log:2,log:3,flush ; p2=log:2,log:2,log:4 ; c=flush,shutdown",
    "0 | m=init:2:0,go ; p1=log:2,log:3,flush ; p2=log:1,log:2 ; c=level:1,log:1",                      # synchronous mode + setLevel racing
    "0 | m=init:1:1,go,idle ; p1=log:1,log:2,log:1 ; p2=log:2,log:1,flush ; c=level:2,level:1,flush",    # level filter racing producers
    "0 | m=init:2:1,go,idle ; p1=log:2,log:3 ; p2=log:2,flush ; c=shutdown,init:2:1,log:2,flush",        # shutdown + re-init racing producers
    "0 | m=init:2:1,go,idle ; p1=log:2,log:3,flush ; p2=log:2 ; c=init:1:1,log:1,flush",                 # re-init without shutdown (queues emptied)
    "0 | m=init:2:0,go,idle ; p1=log:2,log:3 ; p2=log:2,flush ; c=init:2:1,log:2,flush",                 # sync -> async
    "1 | m=init:2:1,seth:1,go,idle ; p1=log:2,log:3,flush ; p2=log:1,log:2 ; c=flush,shutdown",          # handler, two flushers + worker
    "1 | m=init:2:1,seth:1,go,idle ; p1=log:2,log:3,flush ; p2=log:2,log:2,flush ; c=seth:2,log:3,flush",   # handler replaced while messages are queued
    "0 | m=init:2:1,seth:1,go,idle ; p1=log:2,log:3,flush ; p2=log:2 ; c=clrh,log:4,flush",              # handler cleared: stranded raw queue, console instead of file
    "1 | m=init:2:1,seth:1,go,idle ; p1=log:2,log:3 ; p2=log:2,flush ; c=clrh,seth:2,flush",             # stranded messages go to the next handler
    "1 | m=init:2:0,seth:1,go ; p1=log:2,log:3 ; p2=log:1,log:2 ; c=clrh,log:2",                         # synchronous handler
    "0 | m=init:2:1,go,idle ; p1=log:2,shutdown ; p2=log:2,log:3,flush ; c=log:2,flush",                 # shutdown by a producer
    "1 | m=init:2:1,seth:1,go,idle ; p1=log:2,log:3,flush,log:2,flush ; p2=log:2,flush,log:3 ; c=flush,flush",
]
DFS_PROGS = ["0 | m=init:2:1,go ; p1=log:2,log:3,flush ; c=log:2,shutdown", "1 | m=init:2:1,seth:1,go ; p1=log:2,log:2,flush ; c=shutdown"]
OBS_TEXT = {
    "HandlerReorder": "external handler: two messages of ONE producer were delivered out of order (one thread popped the older message, another popped and delivered the newer one first: worker vs flush())",
    "FlushInflight": "external handler: flush()/shutdown() returned while a message accepted before it was still held, undelivered, by another thread",
    "Stranded": "clearExternalHandler() with a non-empty raw queue: the queued messages are neither delivered nor written (lost unless a handler is installed again)",
    "WorkerSpin": "after clearExternalHandler() with a non-empty raw queue the writer thread's wait predicate stays true with nothing to do: it spins (never parks) until shutdown",
    "FlushDuringSwap": "external handler: a flush() that overlaps setExternalHandler() (gate closed while the old handler drains) returns without delivering the raw queue; the messages reach the new handler later",
    "ReinitDrops": "init() while messages are queued (re-init without shutdown) discards them",
    "ConsoleAfterHandler": "file configured: after setExternalHandler()+clearExternalHandler() output goes to std::cout, not back to the file (stream closed by set, not reopened the same day) - the header says 'File logging will be restored on next log call'"}


def consts(name, nmsg, flushers, devs=(), strong=False):
    c = dict(Prods={"p1", "p2"}, NMsg=nmsg, Flushers=set(flushers), MinLevel=2, Lvls="<- MCLvls", Strong=strong)
    c.update(CFGS[name])
    for d in DEVS:
        c[d] = d in devs
    return c


def prog_of(name, nmsg):
    l1, l2 = [2, 3, 2][:nmsg], [1, 2, 4][:nmsg]
    return PROG[name] % (",".join("log:%d" % x for x in l1), ",".join("log:%d" % x for x in l2))


def plan_of(labels):
    plan = ["m*join"]
    for act, a in labels:
        t = a[0] if a else None
        if act == "LogPush": plan.append(t + "*signal")
        elif act == "FPop": plan.append(t + "*point:h")
        elif act == "FCall": plan.append(t + "*lock")
        elif act == "FDrain": plan.append(t + ("*unlock" if t == "c" else "*point:ret"))
        elif act == "WPop": plan.append("wk1*point:h")
        elif act == "WCall": plan.append("wk1*lock")
        elif act == "WDrain": plan.append("wk1*cv_wait")
        elif act == "CClear1": plan.append("c*unlock")
        elif act == "CClear2": plan.append("c*point:ret")
        elif act == "SExit": plan.append("c*join")
        elif act == "SJoin": plan.append("c*point:ret")
    return " ".join(plan + TAIL)


def run(ck):
    thorough = ck.tier == "thorough"
    ck.make("drv_s_logger")
    ck.rule = ("Logger: transition cover of the TLC state graphs of Logger.tla (stream / handler / cleared handler) and the counterexamples of its "
               "deviation flags as schedules of the real Logger under the deterministic scheduler, seeded random schedules of 14 programs, "
               "preemption-bounded DFS; non-trivial = distinct executions in which output appeared while a flush()/shutdown() was in progress")
    fl = ["p1", "p2"] if thorough else ["p1"]
    jobs = {}
    for name in CFGS:
        nmsg = 3 if thorough and name == "file" else 2
        t, c = xc.write_mc(ck, "MCLog_" + name, "Logger", consts(name, nmsg, fl), INVS, defs=DEFS, view="View")
        jobs["mc_" + name] = dict(module_path=t, cfg_path=c, workers=4 if thorough else 2, coverage=True)
        t, c = xc.write_mc(ck, "GenLog_" + name, "Logger", consts(name, 2, ["p1"]), INVS, defs=DEFS, view="View")
        jobs["gen_" + name] = dict(module_path=t, cfg_path=c, workers=1, dump_dot=os.path.join(ck.work, "g_%s.dot" % name))
    for d, (inv, name) in DEVS.items():
        t, c = xc.write_mc(ck, "MC_" + d, "Logger", consts(name, 2, ["p1"], devs=[d]), INVS, defs=DEFS, view="View")
        jobs[d] = dict(module_path=t, cfg_path=c, workers=1, dump_trace=os.path.join(ck.work, d + ".json"))
    for name, inv in STRONG.items():
        t, c = xc.write_mc(ck, "MCStrong_" + name, "Logger", consts(name, 2, ["p1"], strong=True), INVS, defs=DEFS, view="View")
        jobs["strong_" + name] = dict(module_path=t, cfg_path=c, workers=1, dump_trace=os.path.join(ck.work, "strong_%s.json" % name))
    res = xc.tlc_many(jobs, max_parallel=4)
    for name in CFGS:
        for k in ("mc_" + name, "gen_" + name):
            r = res[k]
            if r.error:
                raise vf.Infra("TLC %s: %s" % (k, r.error[-1500:]))
            if r.violated:
                ck.violation("Logger.tla (%s) violates %s" % (k, r.violated), ck.save_replay("impl_" + k, {"tlc.out": r.out[-20000:]}))
                return
        xc.account(ck, res["mc_" + name], name + ".")
        xc.require_actions(ck, res["mc_" + name], ACTIONS[name], "Logger.tla/" + name)
        ck.note("Logger.tla %s (2 producers x %d messages, flushers %s): %s" % (name, 3 if thorough and name == "file" else 2, ",".join(fl), res["mc_" + name].summary()))
    ck.exhaustive = True
    for d, (inv, name) in DEVS.items():
        if res[d].violated not in inv:
            raise vf.Infra("self-test: Logger.tla with %s should violate one of %s, got %r %s" % (d, inv, res[d].violated, (res[d].error or "")[-400:]))
    for name, inv in STRONG.items():
        if res["strong_" + name].violated not in inv:
            raise vf.Infra("self-test: Logger.tla/%s with Strong = TRUE should violate one of %s, got %r" % (name, inv, res["strong_" + name].violated))
    ck.note("self-test: %d deviation flags each violate their invariant; the strong readings are violated by the design (handler: %s, clear: %s)"
            % (len(DEVS), res["strong_handler"].violated, res["strong_clear"].violated))
    # ---------------------------------------------------------------- schedules -> the real Logger
    lines, kinds = [], []

    def add(sink, prog, sched, kind):
        lines.append("%d | %s | %s" % (sink, prog, sched)); kinds.append(kind)
    for d, (inv, name) in DEVS.items():          # counterexamples of the deviating designs, replayed on the real code
        lab = xc.cex_labels(res[d])
        if lab:
            add(0 if name == "file" else 1, prog_of(name, 2), "replay " + plan_of(lab), "probe:" + d)
    for name in STRONG:
        lab = xc.cex_labels(res["strong_" + name])
        if lab:
            add(0, prog_of(name, 2), "replay " + plan_of(lab), "probe:strong_" + name)
            add(1, prog_of(name, 2), "replay " + plan_of(lab), "probe:strong_" + name)
    ncover = 0
    for name in CFGS:
        dot = os.path.join(ck.work, "g_%s.dot" % name)
        g = vf.Graph.load(dot); os.remove(dot)
        paths, covered, total = g.transition_cover(ck.rng, maxlen=40, limit=700 if thorough else 220)
        ck.note("state graph %s: %d nodes, %d edges; %d cover behaviours (%d edges)" % (name, len(g.nodes), total, len(paths), covered))
        for i, p in enumerate(paths):
            add(i % 2 if name != "file" else (0 if i % 4 else 1), prog_of(name, 2), "replay " + plan_of(xc.graph_labels(p)), "cover:" + name)
            ncover += 1
    if ncover < 300:
        raise vf.Infra("too few cover behaviours (%d)" % ncover)
    nseeds = 120 if thorough else 36
    for pi, pr in enumerate(RANDOM_PROGS):
        sink, prog = pr.split(" | ")
        for s in range(nseeds):
            add(int(sink), prog, "random %d" % (ck.seed * 1000 + pi * 131 + s), "random:%d" % pi)
            if s % 4 == 0:                          # the other sink as well
                add(1 - int(sink), prog, "random %d" % (ck.seed * 1000 + pi * 131 + s + 7), "random:%d" % pi)
    outp = xc.run_driver_cases(ck, "drv_s_logger", lines, "log", par=8)
    dfs_outs = []
    for i, pr in enumerate(DFS_PROGS):
        o = os.path.join(ck.work, "dfs%d.ndjson" % i)
        rc, out = vf.run_driver("drv_s_logger", ["dfs", pr, 2, 1500 if thorough else 300, o, 8], timeout=900)
        if rc != 0:
            raise vf.Infra("drv_s_logger dfs failed: " + out[-1000:])
        ck.note("dfs %s (preemption bound 2): %s" % (pr, out.strip().splitlines()[-1]))
        dfs_outs.append(o)
    allp = os.path.join(ck.work, "all.ndjson")
    with open(allp, "w") as f:
        f.write(open(outp).read())
        for o in dfs_outs:
            f.write(open(o).read())
    execs = xc.exec_texts(allp)
    ck.evaluations += len(execs)

    def case_of(x):
        return lines[x] if x < len(lines) else "dfs"
    for x, e in enumerate(execs):
        if any('"e":"Crashed"' in y or '"e":"HarnessTimeout"' in y for y in e):
            ck.violation("Logger execution crashed or hung (%s)" % case_of(x), ck.save_replay("crash", {"trace.ndjson": "\n".join(e) + "\n", "case.txt": case_of(x) + "\n"}))
            return

    def nontrivial(e):
        depth = 0
        for y in e:
            if '"e":"FlushCall"' in y or '"e":"ShutCall"' in y: depth += 1
            elif '"e":"FlushRet"' in y or '"e":"ShutRet"' in y: depth -= 1
            elif depth > 0 and ('"e":"W"' in y or '"e":"H"' in y): return True
        return False
    ck.nontrivial = len({"\n".join(e) for e in execs if nontrivial(e)})
    i0 = kinds.index("cover:handler")
    ck.sample({"kind": "TLC behaviour replayed (handler)", "case": lines[i0], "events": [json.loads(y) for y in execs[i0][1:14]]})
    ok, bad, obs = xc.validate_sharded(ck, TRACE, TRACE_CFG, allp, nshards=4)
    if not ok:
        x = bad["exec"]
        rp = ck.save_replay("reject_%d" % x, {"trace.ndjson": "\n".join(execs[x]) + "\n", "case.txt": case_of(x) + "\n"})
        ck.violation("Logger execution rejected by LoggerTrace.tla at %s (%s)" % (json.dumps(bad["event"]), case_of(x)), rp)
        return
    raw = open(allp).read().splitlines()
    for name in sorted(obs):
        xs = sorted({xc.exec_of_line(raw, ln) for ln in obs[name][:400]})
        ck.note("OBSERVATION %s: %s - seen in >= %d executions; first: %s" % (name, OBS_TEXT.get(name, ""), len(xs), case_of(xs[0])))
    unknown = set(obs) - set(OBS_TEXT)
    if unknown:
        raise vf.Infra("unknown observation names " + str(unknown))
    for name in ("HandlerReorder", "FlushInflight", "Stranded", "WorkerSpin"):
        if name not in obs:
            ck.note("model drift: deviation %s (shown by TLC for the design) was not reproduced on the code in this run" % name)
    # ---------------------------------------------------------------- oracle self-tests (corrupted executions must be rejected)
    base = next(e for e, k in zip(execs, kinds) if k == "cover:file" and sum('"e":"W"' in y for y in e) >= 3 and '"s":"c"' not in "".join(e))
    iw = [i for i, y in enumerate(base) if '"e":"W"' in y]
    xc.must_reject(ck, TRACE, TRACE_CFG, "\n".join(base[:iw[0] + 1] + [base[iw[0]]] + base[iw[0] + 1:]) + "\n", "message written twice")
    xc.must_reject(ck, TRACE, TRACE_CFG, "\n".join(y for i, y in enumerate(base) if i != iw[0]) + "\n", "accepted message never written")
    last = [i for i, y in enumerate(base) if '"e":"ShutRet"' in y][-1]
    xc.must_reject(ck, TRACE, TRACE_CFG, "\n".join([y for i, y in enumerate(base[:last + 1]) if i != iw[-1]] + [base[iw[-1]]] + base[last + 1:]) + "\n", "written after shutdown returned")
    d = json.loads(base[iw[0]])
    xc.must_reject(ck, TRACE, TRACE_CFG, "\n".join(base[:iw[0]] + [json.dumps(dict(d, lv=d["lv"] + 1))] + base[iw[0] + 1:]) + "\n", "wrong level tag")
    hb = next((e for e, k in zip(execs, kinds) if k.startswith("random:") and '"e":"ClrHRet"' in "".join(e) and '"e":"H"' in "".join(e)), None)
    if hb is None:
        raise vf.Infra("no execution with a handler delivery and a clearExternalHandler for the self-test")
    ih = next(i for i, y in enumerate(hb) if '"e":"H"' in y)
    ic = next(i for i, y in enumerate(hb) if '"e":"ClrHRet"' in y)
    if ih < ic:
        moved = hb[:ih] + hb[ih + 2:ic + 1] + hb[ih:ih + 2] + hb[ic + 1:] if '"e":"HEnd"' in hb[ih + 1] else None
        if moved:
            xc.must_reject(ck, TRACE, TRACE_CFG, "\n".join(moved) + "\n", "handler invoked after clearExternalHandler returned")
    ck.note("oracle self-test: duplicate / missing / late (after shutdown) / mis-tagged output and a handler call after clear are rejected")


def replay(ck, path):
    run(ck)
