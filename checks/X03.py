"""X03 (extra, not in MANIFEST.json) — iora::core::SlidingWindowCounter: at most Max acquisitions succeed in any window, refusals
only when full.  SlidingWindow.tla model-checked; concurrent callers with virtual time under the scheduler validated against
WindowTrace.tla."""
import os, json
import vf
SPECDIR = os.path.join(vf.SPEC, "extra")


def run(ck):
    ck.make("drv_s_window")
    ck.rule = "random programs of 2-3 callers (acquire / sleep) under random schedules with virtual time"
    r = vf.run_tlc(os.path.join(SPECDIR, "SlidingWindow.tla"), os.path.join(SPECDIR, "SlidingWindow.cfg"), tag="X03", workers=4, coverage=True, timeout=600)
    if r.error:
        raise vf.Infra("TLC failed: " + r.error)
    ck.states += r.distinct; ck.transitions += r.generated
    ck.note("SlidingWindow.tla: %s" % r.summary())
    if r.violated:
        ck.violation("SlidingWindow.tla violates %s" % r.violated, ck.save_replay("impl", {"tlc.out": r.out})); return
    lines = []
    for i in range(800 if ck.tier == "thorough" else 200):
        progs = []
        for name in ("a", "b", "c")[: ck.rng.randint(2, 3)]:
            progs.append(name + "=" + ",".join(ck.rng.choice(["A", "A", "A", "S"]) for _ in range(ck.rng.randint(2, 6))))
        lines.append("%d %d | %s | random %d" % (ck.rng.choice([1, 2, 3]), ck.rng.choice([1, 2, 3]), ";".join(progs), ck.seed * 13 + i))
    cp = os.path.join(ck.work, "cases.txt"); open(cp, "w").write("\n".join(lines) + "\n")
    outp = os.path.join(ck.work, "w.ndjson")
    rc, out = vf.run_driver("drv_s_window", ["run", cp, outp], timeout=900)
    if rc != 0:
        raise vf.Infra("drv_s_window failed: " + out[-1000:])
    events = vf.read_ndjson(outp); execs = vf.split_executions(events)
    ck.evaluations += len(execs); ck.nontrivial = len({json.dumps(e[1]) for e in execs if any(x.get("ok") is False for x in e[1])})
    v = ck.validate(os.path.join(SPECDIR, "WindowTrace.tla"), os.path.join(SPECDIR, "WindowTrace.cfg"), outp, n_exec=len(execs))
    ck.sample({"kind": "sliding window execution", "case": lines[0], "events": execs[0][1][:10]})
    if not v.accepted:
        x = vf.exec_index_of_line(events, v.maxl)
        rp = ck.save_replay("reject_%d" % x, {"trace.ndjson": "\n".join(json.dumps(e) for e in execs[x][1]) + "\n", "case.txt": lines[x] + "\n"})
        ck.violation("sliding window execution rejected at %s (%s)" % (json.dumps(events[v.maxl - 1]), lines[x]), rp)


def replay(ck, path):
    run(ck)
