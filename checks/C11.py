"""C11 — persistent stores recover every acknowledged write after a crash.

1. TLC checks spec/storage/KvLog.tla (Impl: the three files as abstract values, one action per file operation,
   crashes between and inside them, reopen = load + truncate + open-append) exhaustively for Inv_Recovered: every
   reopen shows, per key, the last completed effect or the new state of the operation in flight - and again after
   any continuation.  Same for spec/storage/JsonFile.tla (flush = temp + rename).
   Self-tests: with Dev_TornTailNotTruncated / Dev_TruncLogBeforeRename / Dev_JsonSaveTruncatesInPlace = TRUE TLC must
   report the violation; the operation history of each counterexample becomes a case for the real code (probe).
2. The same specifications in generator mode print operation histories (all histories of 2 operations, seeded
   simulation for longer ones).  harness/drv_kvcrash.cpp runs each history on the REAL KVStore / JsonFileStore with
   interposed file-system calls, takes a directory image after every call and at byte cuts inside every write,
   reopens every image with a fresh store, reads all keys, runs the rest of the history as continuation, closes,
   reopens and reads again (and crashes the continuation again at depth 2).
3. Every distinct event list  Begin Op.. Crash(op) Recovered(map) Op.. Close Recovered(map)  is validated by TLC
   against the Abs oracles spec/storage/KvLogTrace.tla / JsonFileTrace.tla - the specification decides what a
   reopen may show.  A store that crashes while recovering is a violation; a hang is an infrastructure error.
The file-operation sequence the model predicts for each history is compared with the calls the real store made;
a difference is model drift (noted), never an alarm.
"""
import os, json, re, concurrent.futures as cf
import vf

SPECDIR = os.path.join(vf.SPEC, "storage")
ALL_KINDS = ["set", "setx", "rm", "exp", "per", "batch", "clear", "rmp", "compact", "reopen", "tick"]
NOTICK_KINDS = [k for k in ALL_KINDS if k != "tick"]
TTL_KINDS = ["setx", "exp", "per", "compact", "reopen", "tick"]      # expiry changes around compaction and the clock jump
KV_ACTIONS = ["Call", "Ret", "StepAppend", "StepWriteTmp", "StepRename", "StepCloseLog", "StepTruncLog", "StepOpenAppend",
              "CrashBetween", "CrashInAppend", "CrashInWriteTmp", "CleanClose", "Reopen", "TimePasses"]
JS_ACTIONS = ["JSet", "JRm", "CallFlush", "RetFlush", "StepOpenTmp", "StepWriteTmp", "StepRename", "CrashBetween",
              "CrashInWrite", "CleanClose", "Reopen"]
# model file operation -> the calls the interposer sees for it (CloseLog = fclose: not a mutating call)
FOP_CALLS = {"Append": ["write"], "WriteTmp": ["open_trunc", "write"], "Rename": ["rename"], "CloseLog": [],
             "TruncLog": ["open_trunc"], "OpenAppend": ["open_append"]}


def kv_module(ck, name, **const):
    d = os.path.join(ck.work, name)
    os.makedirs(d, exist_ok=True)
    c = dict(NK=2, NV=2, NE=1, MaxOps=3, MaxCrash=2, Dev_TornTailNotTruncated=False, Dev_TruncLogBeforeRename=False,
             Dev_SnapshotExpiryCheckedEarly=False, Emit=False)
    kinds = const.pop("kinds", ALL_KINDS)
    invs = const.pop("invariants", ["Inv_Recovered", "Inv_MemIsBase", "Inv_Files"])
    c.update(const)
    with open(os.path.join(d, "MCKvLog.tla"), "w") as f:
        f.write("---- MODULE MCKvLog ----\nEXTENDS KvLog\nMCKinds == %s\n====\n" % vf.tla(set(kinds)))
    consts = dict(c)
    consts["OpKinds"] = "<- MCKinds"
    cfg = os.path.join(d, "MCKvLog.cfg")
    vf.write_cfg(cfg, constants=consts, invariants=invs)
    return os.path.join(d, "MCKvLog.tla"), cfg


def js_module(ck, name, **const):
    d = os.path.join(ck.work, name)
    os.makedirs(d, exist_ok=True)
    c = dict(NK=2, NV=2, MaxOps=5, MaxCrash=2, Dev_JsonSaveTruncatesInPlace=False, Emit=False)
    invs = const.pop("invariants", ["Inv_Recovered", "Inv_FileNeverTorn"])
    c.update(const)
    with open(os.path.join(d, "MCJsonFile.tla"), "w") as f:
        f.write("---- MODULE MCJsonFile ----\nEXTENDS JsonFile\n====\n")
    cfg = os.path.join(d, "MCJsonFile.cfg")
    vf.write_cfg(cfg, constants=c, invariants=invs)
    return os.path.join(d, "MCJsonFile.tla"), cfg


def hist_lines(r):
    """HIST lines printed by the generator -> {history: file-op list or None}"""
    out = {}
    for ln in r.prints:
        m = re.match(r'^"HIST (.*)"$', ln.strip())
        if not m:
            continue
        body = m.group(1)
        if " # " in body or body.endswith(" #") or body.endswith("# "):
            h, _, fo = body.partition(" # ")
            h = h.rstrip(" #")
            out[h.strip()] = [x for x in fo.strip().split(",") if x]
        else:
            out[body.strip()] = None
    return out


def cex_history(r):
    """operation history of a TLC counterexample of KvLog / JsonFile (the probe for the real code)"""
    ops = []
    if not r.trace_json:
        return None
    for a in r.trace_json["counterexample"]["action"]:
        name, ctx = a[1]["name"], a[1].get("context", {})
        if name == "Call":
            o = ctx["o"]
            k, v, e = o["k"], o["v"], o["e"]
            t = o["op"]
            if t == "set": ops.append("set %d %d" % (k, v))
            elif t == "setx": ops.append("setx %d %d %d" % (k, v, e))
            elif t in ("rm", "per"): ops.append("%s %d" % (t, k))
            elif t == "exp": ops.append("exp %d %d" % (k, e))
            elif t == "batch": ops.append("batch %d %s" % (e, ",".join("%d:%d" % (a_, b_) for a_, b_ in zip(o["ks"], o["vs"]))))
            elif t == "rmp": ops.append("rmp 1")
            else: ops.append(t)
        elif name == "CleanClose":
            ops.append("reopen")
        elif name == "TimePasses":
            ops.append("tick")
        elif name == "JSet":
            ops.append("jset %d %d" % (ctx["k"], ctx["v"]))
        elif name == "JRm":
            ops.append("jrm %d" % ctx["k"])
        elif name == "CallFlush":
            ops.append("jflush")
    return ";".join(ops)


def run_tlc_jobs(ck, jobs, nworkers=4):
    """jobs: list of (tag, module, cfg, kwargs) run in parallel; returns {tag: TlcResult}"""
    def one(j):
        tag, mod, cfg, kw = j
        return tag, vf.run_tlc(mod, cfg, tag="C11_" + tag, lib_dirs=[SPECDIR], **kw)
    with cf.ThreadPoolExecutor(max_workers=nworkers) as ex:
        return dict(ex.map(one, jobs))


def run(ck):
    thorough = ck.tier == "thorough"
    ck.make("drv_kvcrash")
    ck.rule = ("histories = operation sequences printed by TLC from KvLog.tla / JsonFile.tla in generator mode (all "
               "2-operation histories incl. the clock jump `tick`, seeded simulation for 4-5 operations, all 4-step TTL / "
               "expireAt / persist / compact / reopen / tick histories over one key, counterexamples of the Dev_* self-tests); for "
               "each history the driver takes an image of the store directory after every intercepted file-system call "
               "and at byte cuts inside every write, recovers each image with a fresh store and continues; a case is "
               "non-trivial when a crash hit an operation in flight (torn record, half-done compaction or flush)")
    # ------------------------------------------------------------------ 1. model checking, self-tests, generators
    jobs = []
    mod, cfg = kv_module(ck, "mc", MaxOps=3)
    jobs.append(("kv_mc", mod, cfg, dict(workers=6, coverage=True, timeout=1500)))
    if thorough:
        mod, cfg = kv_module(ck, "mc4", MaxOps=4, kinds=NOTICK_KINDS)
        jobs.append(("kv_mc4", mod, cfg, dict(workers=8, timeout=2400)))
        mod, cfg = kv_module(ck, "mcT", MaxOps=6, kinds=TTL_KINDS, NK=1, NV=1, NE=2)
        jobs.append(("kv_mcT", mod, cfg, dict(workers=4, timeout=2400)))
    mod, cfg = kv_module(ck, "dev_snap", kinds=TTL_KINDS, NK=1, NV=1, NE=2, MaxOps=5, MaxCrash=1,
                         Dev_SnapshotExpiryCheckedEarly=True, invariants=["Inv_Recovered"])
    jobs.append(("kv_dev_snap", mod, cfg, dict(workers=1, dump_trace=os.path.join(ck.work, "cex_snap.json"))))
    mod, cfg = kv_module(ck, "genT", kinds=TTL_KINDS, NK=1, NV=1, NE=2, MaxOps=4, MaxCrash=0, Emit=True, invariants=["EmitInv"])
    jobs.append(("kv_genT", mod, cfg, dict(workers=2)))
    mod, cfg = kv_module(ck, "dev_torn", Dev_TornTailNotTruncated=True, invariants=["Inv_Recovered"])
    jobs.append(("kv_dev_torn", mod, cfg, dict(workers=1, dump_trace=os.path.join(ck.work, "cex_torn.json"))))
    mod, cfg = kv_module(ck, "dev_order", Dev_TruncLogBeforeRename=True, invariants=["Inv_Recovered"])
    jobs.append(("kv_dev_order", mod, cfg, dict(workers=1, dump_trace=os.path.join(ck.work, "cex_order.json"))))
    mod, cfg = js_module(ck, "jmc", MaxOps=6 if thorough else 5)
    jobs.append(("js_mc", mod, cfg, dict(workers=2, coverage=True)))
    mod, cfg = js_module(ck, "jdev", Dev_JsonSaveTruncatesInPlace=True, invariants=["Inv_Recovered"])
    jobs.append(("js_dev", mod, cfg, dict(workers=1, dump_trace=os.path.join(ck.work, "cex_json.json"))))
    # generators: crashes off, Emit on
    mod, cfg = kv_module(ck, "gen2", MaxOps=2, MaxCrash=0, Emit=True, NE=2, invariants=["EmitInv"])
    jobs.append(("kv_gen2", mod, cfg, dict(workers=2)))
    nsim = 150 if thorough else 40
    mod, cfg = kv_module(ck, "gen5", MaxOps=5 if thorough else 4, MaxCrash=0, Emit=True, NK=3, NV=3, NE=2,
                         invariants=["EmitInv"])
    jobs.append(("kv_gen5", mod, cfg, dict(workers=2, simulate="num=%d" % nsim, depth=60, seed=ck.seed)))
    mod, cfg = js_module(ck, "jgen", MaxOps=4, MaxCrash=0, Emit=True, invariants=["EmitInv"])
    jobs.append(("js_gen", mod, cfg, dict(workers=2)))
    res = run_tlc_jobs(ck, jobs, nworkers=5)
    for tag, r in res.items():
        if r.error:
            raise vf.Infra("TLC failed (%s): %s" % (tag, r.error))
        ck.states += r.distinct
        ck.transitions += r.generated
        ck.note("TLC %s: %s" % (tag, r.summary()))
    for tag in ("kv_mc", "js_mc", "kv_mc4", "kv_mcT"):
        if tag not in res:
            continue
        r = res[tag]
        for a, (tk, gn) in r.coverage.items():
            ck.cov[a] = ck.cov.get(a, 0) + gn
        if r.violated:
            rp = ck.save_replay("impl_spec_" + tag, {"tlc.out": r.out})
            ck.violation("%s: the Impl specification violates %s with all deviation flags off" % (tag, r.violated), rp)
    if not res["kv_mc"].violated and not res["js_mc"].violated:
        for a in KV_ACTIONS + JS_ACTIONS:
            if ck.cov.get(a, 0) == 0:
                raise vf.Infra("self-test: Impl action %s never taken" % a)
    ck.exhaustive = True
    probes = []
    for tag, what in (("kv_dev_torn", "Dev_TornTailNotTruncated"), ("kv_dev_order", "Dev_TruncLogBeforeRename"),
                      ("kv_dev_snap", "Dev_SnapshotExpiryCheckedEarly"), ("js_dev", "Dev_JsonSaveTruncatesInPlace")):
        r = res[tag]
        if r.violated != "Inv_Recovered":
            raise vf.Infra("self-test: Impl with %s = TRUE must violate Inv_Recovered, got %r" % (what, r.violated))
        h = cex_history(r)
        if not h:
            raise vf.Infra("self-test: no counterexample exported for " + what)
        probes.append((("json" if tag == "js_dev" else "kv maxlog=0 big=0"), h, what))
        ck.sample({"kind": "probe: TLC counterexample of %s, replayed on the real store" % what, "history": h})
    # ------------------------------------------------------------------ 2. cases
    rng = ck.rng
    pairs = hist_lines(res["kv_gen2"])
    longs = hist_lines(res["kv_gen5"])
    jhist = hist_lines(res["js_gen"])
    ttlh = {h: f for h, f in hist_lines(res["kv_genT"]).items() if "tick" in h and ("setx" in h or "exp" in h)}
    if len(pairs) < 400 or len(longs) < 20 or len(jhist) < 100 or len(ttlh) < 300:
        raise vf.Infra("generator produced too few histories: %d pairs, %d long, %d json, %d ttl/clock" % (
            len(pairs), len(longs), len(jhist), len(ttlh)))
    expect = {}
    expect.update(pairs)
    expect.update(longs)
    expect.update(ttlh)
    ttl_list = sorted(ttlh)
    rng.shuffle(ttl_list)
    pair_list = sorted(pairs)
    long_list = sorted(longs)
    j_list = sorted(jhist)
    rng.shuffle(pair_list)
    rng.shuffle(long_list)
    rng.shuffle(j_list)
    interesting = [h for h in long_list if "compact" in h or "reopen" in h]
    if thorough:
        a_cases = [("kv maxlog=0 big=0", h) for h in pair_list] + [("kv maxlog=0 big=0", h) for h in long_list[:500]]
        a_cases += [("kv maxlog=90 big=0", h) for h in long_list[:150]]
        a_cases += [("json", h) for h in j_list[:600]]
        b_cases = [("kv maxlog=0 big=0", h) for h in (interesting[:60] + long_list[:60])]
        b_cases += [("kv maxlog=90 big=0", h) for h in long_list[60:90]] + [("json", h) for h in j_list[:60]]
        c_cases = [("kv maxlog=0 big=1", h) for h in long_list[:80]]
    else:
        a_cases = [("kv maxlog=0 big=0", h) for h in pair_list[:250]] + [("kv maxlog=0 big=0", h) for h in long_list[:110]]
        a_cases += [("kv maxlog=90 big=0", h) for h in long_list[70:110]]
        a_cases += [("json", h) for h in j_list[:150]]
        b_cases = [("kv maxlog=0 big=0", h) for h in (interesting[:12] + long_list[:12])] + [("json", h) for h in j_list[:10]]
        c_cases = [("kv maxlog=0 big=1", h) for h in long_list[:16]]
    t_cases = [("kv maxlog=0 big=0", h) for h in (ttl_list if thorough else ttl_list[:260])]
    a_cases = [(c, h) for c, h, _ in probes] + a_cases
    b_cases = [(c, h) for c, h, _ in probes] + b_cases
    runs = [("A", a_cases, 1, "all", "spread", 200000), ("B", b_cases, 2, "all" if thorough else "spread", "spread", 60000),
            ("C", c_cases, 1, "spread", "spread", 200000),
            ("T", t_cases, 1, "all" if thorough else "spread", "spread", 200000)]
    totals = dict(jobs=0, distinct=0, nontrivial_distinct=0, level1=0, level2=0, cut_images=0, dropped=0)
    traces = []
    for name, cases, depth, cuts1, cuts2, cap in runs:
        stats, out_path = drive(ck, name, cases, depth, cuts1, cuts2, cap)
        for k in totals:
            totals[k] += stats.get(k, 0)
        if stats["timeouts"]:
            raise vf.Infra("drv_kvcrash: %d history trees exceeded the wall-clock limit (run %s)" % (stats["timeouts"], name))
        traces.append((name, cases, out_path, stats))
        ck.note("run %s: %d histories, depth %d, cuts %s/%s: %s" % (name, len(cases), depth, cuts1, cuts2, json.dumps(stats)))
    ck.evaluations = totals["jobs"]
    ck.nontrivial = totals["nontrivial_distinct"]
    if totals["level1"] == 0 or totals["cut_images"] == 0 or totals["nontrivial_distinct"] == 0 or totals["level2"] == 0:
        raise vf.Infra("self-test: the driver produced no crash images (%s)" % json.dumps(totals))
    if totals["dropped"]:
        ck.note("job cap reached: %d deeper crash images were not run" % totals["dropped"])
    # ------------------------------------------------------------------ 3. judge
    drift = 0
    for name, cases, out_path, stats in traces:
        drift += judge(ck, name, cases, out_path, expect)
    ck.note("model drift (file-operation sequence of a history differs from the Impl expansion): %d histories" % drift)
    selftest_corrupt(ck, traces[0][2])


def drive(ck, name, cases, depth, cuts1, cuts2, cap):
    cases_path = os.path.join(ck.work, "cases_%s.txt" % name)
    with open(cases_path, "w") as f:
        for c, h in cases:
            f.write("%s | %s\n" % (c, h))
    out_path = os.path.join(ck.work, "crash_%s.ndjson" % name)
    scratch = os.path.join(ck.work, "scratch_" + name)
    rc, out = vf.run_driver("drv_kvcrash", ["run", cases_path, out_path, scratch, min(16, vf.NCPU), depth, cuts1, cuts2, cap],
                            timeout=2400)
    if rc != 0:
        raise vf.Infra("drv_kvcrash failed: " + out[-2000:])
    try:
        stats = json.loads(out.strip().splitlines()[-1])
    except Exception:
        raise vf.Infra("drv_kvcrash: no statistics line: " + out[-500:])
    return stats, out_path


def split_by_store(path):
    """-> {'kv': [(case, [lines])], 'json': [...]}"""
    res = {"kv": [], "json": []}
    cur, kind, case = [], None, -1
    with open(path) as f:
        for ln in f:
            cur.append(ln)
            if ln.startswith('{"e":"Begin"'):
                e = json.loads(ln)
                kind, case = e["store"], e.get("case", -1)
            elif ln.startswith('{"e":"Reset"'):
                res.setdefault(kind if kind in res else "kv", []).append((case, cur))
                cur, kind, case = [], None, -1
    return res


def validate_execs(ck, tag, kind, execs, max_reject=4):
    """validate a list of (case, lines); returns list of (case, lines, first unmatched line text, reason)"""
    spec = "KvLogTrace" if kind == "kv" else "JsonFileTrace"
    rejected = []
    chunks, cur, n = [], [], 0
    for x in execs:
        cur.append(x)
        n += len(x[1])
        if n > 60000:
            chunks.append(cur)
            cur, n = [], 0
    if cur:
        chunks.append(cur)

    def one(ix):
        i, chunk = ix
        rej = []
        chunk = list(chunk)
        rounds = 0
        while chunk and rounds <= max_reject:
            p = os.path.join(ck.work, "val_%s_%s_%d.ndjson" % (tag, kind, i))
            with open(p, "w") as f:
                for _, lines in chunk:
                    f.writelines(lines)
            for attempt in (1, 2):
                v = vf.validate_trace(os.path.join(SPECDIR, spec + ".tla"), os.path.join(SPECDIR, spec + ".cfg"), p,
                                      tag="C11_val_%s_%s_%d" % (tag, kind, i), timeout=1500)
                if not v.error:
                    break
            if v.error:
                raise vf.Infra("trace validation error: " + v.error)
            if v.accepted:
                return rej, len(chunk), v
            # locate the execution that contains line maxl, record it, drop it, validate the rest
            ln, k = 0, 0
            while k < len(chunk) and ln + len(chunk[k][1]) < v.maxl:
                ln += len(chunk[k][1])
                k += 1
            if k >= len(chunk):
                raise vf.Infra("trace validation: cannot locate rejected line %d" % v.maxl)
            case, lines = chunk[k]
            bad = lines[v.maxl - ln - 1] if 0 <= v.maxl - ln - 1 < len(lines) else "?"
            rej.append((case, lines, bad.strip(), v.violated or ""))
            chunk = chunk[k + 1:]
            rounds += 1
        return rej, 0, None
    with cf.ThreadPoolExecutor(max_workers=6) as ex:
        for rej, nacc, v in ex.map(one, list(enumerate(chunks))):
            rejected += rej
    return rejected


def expected_calls(fops):
    out = []
    for f in fops:
        out += FOP_CALLS.get(f, [f])
    return out


def judge(ck, name, cases, out_path, expect):
    by = split_by_store(out_path)
    drift = 0
    died = 0
    seen_case = set()
    for kind in ("kv", "json"):
        execs = by[kind]
        if not execs:
            continue
        # crashes of the store itself while recovering / continuing
        ok_execs = []
        for case, lines in execs:
            if any('"e":"Crashed"' in l for l in lines):
                died += 1
                if died <= 3:
                    cl = case_line(cases, case)
                    rp = ck.save_replay("%s_died_%d" % (name, case), {"trace.ndjson": "".join(lines), "case.txt": cl + "\n"})
                    ck.violation("the store process died (signal / abort) while recovering or continuing: %s | %s" % (
                        cl, lines[-2].strip()[:200]), rp)
                continue
            ok_execs.append((case, lines))
            # model drift: level-0 execution of a history whose file operations the model predicted
            if kind == "kv" and case not in seen_case and 0 <= case < len(cases) and "maxlog=0 big=0" in cases[case][0]:
                end = json.loads(lines[-2]) if lines[-2].startswith('{"e":"End"') else None
                if end and end.get("level") == 0 and expect.get(cases[case][1]) is not None:
                    seen_case.add(case)
                    got = []
                    for seg in end.get("calls", "").split(";"):
                        if ":" in seg and not seg.startswith("-:"):
                            got += seg.split(":", 1)[1].split(",")
                    exp = expected_calls(expect[cases[case][1]])
                    # the clean-close / reopen phases issue open_append (and nothing else): ignore them on both sides
                    got = [g for g in got if g != "open_append"]
                    exp = [g for g in exp if g != "open_append"]
                    if got != exp:
                        drift += 1
                        if drift <= 3:
                            ck.note("model drift: %s: Impl predicts %s, store issued %s" % (cases[case][1], exp, got))
        rej = validate_execs(ck, name, kind, ok_execs)
        ck.traces += len(ok_execs) - len(rej)
        ck.note("run %s/%s: %d distinct executions validated, %d rejected" % (name, kind, len(ok_execs), len(rej)))
        if ok_execs:
            ck.sample({"kind": "%s/%s" % (name, kind), "case": case_line(cases, ok_execs[-1][0]),
                       "events": [json.loads(l) for l in ok_execs[-1][1][:10]]})
        reported = set()
        for case, lines, bad, why in rej:
            cl = case_line(cases, case)
            if cl in reported:
                continue
            reported.add(cl)
            # re-run the history alone before reporting it
            again = confirm(ck, cl, kind)
            if again is None:
                ck.note("rejection not repeated on re-run (ignored): %s" % cl)
                continue
            rp = ck.save_replay("%s_%s_reject_%d" % (name, kind, case), {
                "trace.ndjson": "".join(again[0]), "case.txt": cl + "\n",
                "why.txt": "%sTrace.tla cannot match: %s %s\nfirst seen in run %s: %s\n" % (
                    "KvLog" if kind == "kv" else "JsonFile", again[1], again[2], name, bad)})
            ck.violation("reopen shows a state the specification does not admit (%s): %s" % (cl, summarize(again[0])), rp)
    return drift


def summarize(lines):
    out = []
    for l in lines:
        try:
            e = json.loads(l)
        except Exception:
            continue
        k = e["e"]
        if k in ("Op", "JOp", "Crash", "OpThrew"):
            a = e["op"]
            if e.get("k"): a += " %d" % e["k"]
            if e.get("v"): a += " %d" % e["v"]
            if e.get("ex"): a += " e%d" % e["ex"]
            if e.get("ks"): a += " %s=%s" % (e["ks"], e["vs"])
            out.append(("CRASH in " if k == "Crash" else "THREW " if k == "OpThrew" else "") + a)
        elif k == "Recovered":
            out.append("recovered %s%s%s" % (e["vals"], e["exps"] if any(e["exps"]) else "", "" if e["ok"] else " OPEN FAILED"))
        elif k == "Close":
            out.append("close")
    return "; ".join(out)[:600]


def case_line(cases, i):
    if 0 <= i < len(cases):
        return "%s | %s" % cases[i]
    return "?"


def confirm(ck, cl, kind):
    """re-run one history (depth 2, every byte) and return (lines, bad line, reason) of a rejected execution, or None"""
    cfgtxt, _, h = cl.partition(" | ")
    big = "big=1" in cfgtxt
    stats, out_path = drive(ck, "confirm", [(cfgtxt, h)], 2, "spread" if big else "all", "spread", 100000)
    by = split_by_store(out_path)
    rej = validate_execs(ck, "confirm", kind, by[kind], max_reject=0)
    if not rej:
        return None
    case, lines, bad, why = rej[0]
    return lines, bad, why


def selftest_corrupt(ck, out_path):
    """a corrupted recording must be rejected: a foreign value on a key no operation of the history touches"""
    by = split_by_store(out_path)
    for case, lines in by["kv"]:
        ops = [json.loads(l) for l in lines if l.startswith('{"e":"Op"') or l.startswith('{"e":"Crash"')]
        if not ops or any(o["k"] == 3 or 3 in o["ks"] or o["op"] in ("clear",) for o in ops):
            continue
        if any('"e":"Crashed"' in l for l in lines) or not any(o["e"] == "Crash" for o in ops):
            continue
        idx = next(i for i, l in enumerate(lines) if l.startswith('{"e":"Recovered"'))
        e = json.loads(lines[idx])
        e["vals"][2] = 1
        bad = lines[:idx] + [json.dumps(e, separators=(",", ":")) + "\n"] + lines[idx + 1:]
        rej = validate_execs(ck, "selftest", "kv", [(case, bad)], max_reject=0)
        if not rej:
            raise vf.Infra("self-test: KvLogTrace accepted a corrupted recovery (foreign value on an untouched key)")
        ck.note("self-test: corrupted trace rejected at %s" % rej[0][2][:120])
        return
    raise vf.Infra("self-test: no execution with a crash and an untouched key found")


def replay(ck, path):
    """re-run one saved history against the current tree (depth 2, every byte cut) and re-validate it"""
    ck.make("drv_kvcrash")
    cl = open(os.path.join(path, "case.txt")).read().strip()
    kind = "json" if cl.startswith("json") else "kv"
    again = confirm(ck, cl, kind)
    if again is None:
        print("[C11] replay: every execution of '%s' is admitted by the specification" % cl)
        return
    print("".join(again[0]))
    rp = ck.save_replay("replay_reject", {"trace.ndjson": "".join(again[0]), "case.txt": cl + "\n",
                                          "why.txt": "%s %s\n" % (again[1], again[2])})
    ck.violation("reopen shows a state the specification does not admit (%s): %s" % (cl, summarize(again[0])), rp)
