"""C11 — persistent stores recover every acknowledged write after a crash.

1. TLC checks spec/storage/KvLog.tla (Impl: the three files as abstract values, one action per file operation,
   crashes between and inside them, reopen = load + truncate + open-append) exhaustively for Inv_Recovered: every
   reopen shows, per key, the last completed effect or the new state of the operation in flight - and again after
   any continuation.  Same for spec/storage/JsonFile.tla (flush = temp + rename).
   Self-tests: with Dev_TornTailNotTruncated / Dev_TruncLogBeforeRename / Dev_JsonSaveTruncatesInPlace = TRUE TLC must
   report the violation; the operation history of each counterexample becomes a case for the real code (probe).
2. The same specifications in generator mode print operation histories (all histories of 2 operations, seeded
   simulation for longer ones).  harness/drv_kvcrash.cpp runs each history on the REAL KVStore / JsonFileStore with
   interposed file-system calls, takes a directory image after every call and at byte cuts inside every write,
   reopens every image with a fresh store, reads all keys, runs the rest of the history as continuation, closes,
   reopens and reads again (and crashes the continuation again at depth 2).
3. Every distinct event list  Begin Op.. Crash(op) Recovered(map) Op.. Close Recovered(map)  is validated by TLC
   against the Abs oracles spec/storage/KvLogTrace.tla / JsonFileTrace.tla - the specification decides what a
   reopen may show.  A store that crashes while recovering is a violation; a hang is an infrastructure error.
The file-operation sequence the model predicts for each history is compared with the calls the real store made;
a difference is model drift (noted), never an alarm.
4. Directed families, selected by ghosts of the model (GenFilter) - never by looking at the code under test:
   X  histories with a compaction at whose rename the log holds an 'X' record that the replay over the NEW snapshot skips
      (expireAt / persist on a key of the old snapshot that is deleted later): a kill between the snapshot rename and the
      log reset, reopen, continuation, clean close, reopen (self-test Dev_CutCountsAppliedOnly);
   L  histories with a clear() of >= 2 keys, first unlimited (run L0 - the driver reports the log size after every file
      operation), then under EVERY log-size limit that falls between two of them: synchronous size-triggered compaction
      in and around clear() (KvLog.tla MaxLog, clear() is log-first; self-test Dev_CompactInsideAppend);
   R  JSON histories in which the background flusher (second actor of JsonFile.tla, `jbg`) has serialised the store and an
      explicit flush / clean close follows; the driver holds the real flush thread at its first file operation and opens
      the gate when the history thread meets a mutex the flusher owns (self-test Dev_BgWritesOutsideLock).
"""
import os, json, re, concurrent.futures as cf
import vf

SPECDIR = os.path.join(vf.SPEC, "storage")
ALL_KINDS = ["set", "setx", "rm", "exp", "per", "batch", "clear", "rmp", "compact", "reopen", "tick"]
NOTICK_KINDS = [k for k in ALL_KINDS if k != "tick"]
TTL_KINDS = ["setx", "exp", "per", "compact", "reopen", "tick"]      # expiry changes around compaction and the clock jump
KV_ACTIONS = ["Call", "Ret", "StepAppend", "StepWriteTmp", "StepRename", "StepCloseLog", "StepTruncLog", "StepOpenAppend",
              "StepMemClear", "CrashBetween", "CrashInAppend", "CrashInWriteTmp", "CleanClose", "Reopen", "TimePasses"]
JS_ACTIONS = ["JSet", "JRm", "CallFlush", "RetFlush", "StepOpenTmp", "StepWriteTmp", "StepRename", "CrashBetween",
              "CrashInWrite", "CleanClose", "Reopen", "BgStart", "BgOpenTmp", "BgWriteTmp", "BgRename", "CrashInBgWrite"]
# model file operation -> the calls the interposer sees for it (CloseLog = fclose: not a mutating call)
FOP_CALLS = {"Append": ["write"], "WriteTmp": ["open_trunc", "write"], "Rename": ["rename"], "CloseLog": [],
             "TruncLog": ["open_trunc"], "OpenAppend": ["open_append"], "MemClear": []}
ORPHAN_KINDS = ["set", "setx", "exp", "per", "rm", "compact"]     # family "orphan": 'X' records for keys deleted later
CLEAR_KINDS = ["set", "batch", "rm", "clear"]                     # family "clear2": clear() of >= 2 keys under a log-size limit
LIMIT_KINDS = ["set", "exp", "batch", "rm", "rmp", "clear", "compact", "reopen"]


def kv_module(ck, name, **const):
    d = os.path.join(ck.work, name)
    os.makedirs(d, exist_ok=True)
    c = dict(NK=2, NV=2, NE=1, MaxOps=3, MaxCrash=2, Dev_TornTailNotTruncated=False, Dev_TruncLogBeforeRename=False,
             Dev_SnapshotExpiryCheckedEarly=False, Dev_CutCountsAppliedOnly=False, Dev_CompactInsideAppend=False,
             MaxLog=0, Emit=False, GenFilter="")
    kinds = const.pop("kinds", ALL_KINDS)
    invs = const.pop("invariants", ["Inv_Recovered", "Inv_MemIsBase", "Inv_Files"])
    c.update(const)
    with open(os.path.join(d, "MCKvLog.tla"), "w") as f:
        f.write("---- MODULE MCKvLog ----\nEXTENDS KvLog\nMCKinds == %s\n====\n" % vf.tla(set(kinds)))
    consts = dict(c)
    consts["OpKinds"] = "<- MCKinds"
    consts["GenFilter"] = '"%s"' % c["GenFilter"]
    cfg = os.path.join(d, "MCKvLog.cfg")
    vf.write_cfg(cfg, constants=consts, invariants=invs)
    return os.path.join(d, "MCKvLog.tla"), cfg


def js_module(ck, name, **const):
    d = os.path.join(ck.work, name)
    os.makedirs(d, exist_ok=True)
    c = dict(NK=2, NV=2, MaxOps=5, MaxCrash=2, Dev_JsonSaveTruncatesInPlace=False, Dev_BgWritesOutsideLock=False, Emit=False)
    invs = const.pop("invariants", ["Inv_Recovered", "Inv_FileNeverTorn"])
    c.update(const)
    with open(os.path.join(d, "MCJsonFile.tla"), "w") as f:
        f.write("---- MODULE MCJsonFile ----\nEXTENDS JsonFile\n====\n")
    cfg = os.path.join(d, "MCJsonFile.cfg")
    vf.write_cfg(cfg, constants=c, invariants=invs)
    return os.path.join(d, "MCJsonFile.tla"), cfg


def hist_lines(r):
    """HIST lines printed by the generator -> {history: file-op list or None}"""
    out = {}
    for ln in r.prints:
        m = re.match(r'^"HIST (.*)"$', ln.strip())
        if not m:
            continue
        body = m.group(1)
        if " # " in body or body.endswith(" #") or body.endswith("# "):
            h, _, fo = body.partition(" # ")
            h = h.rstrip(" #")
            out[h.strip()] = [x for x in fo.strip().split(",") if x]
        else:
            out[body.strip()] = None
    return out


def cex_history(r):
    """operation history of a TLC counterexample of KvLog / JsonFile (the probe for the real code)"""
    ops = []
    if not r.trace_json:
        return None
    for a in r.trace_json["counterexample"]["action"]:
        name, ctx = a[1]["name"], a[1].get("context", {})
        if name == "Call":
            o = ctx["o"]
            k, v, e = o["k"], o["v"], o["e"]
            t = o["op"]
            if t == "set": ops.append("set %d %d" % (k, v))
            elif t == "setx": ops.append("setx %d %d %d" % (k, v, e))
            elif t in ("rm", "per"): ops.append("%s %d" % (t, k))
            elif t == "exp": ops.append("exp %d %d" % (k, e))
            elif t == "batch": ops.append("batch %d %s" % (e, ",".join("%d:%d" % (a_, b_) for a_, b_ in zip(o["ks"], o["vs"]))))
            elif t == "rmp": ops.append("rmp 1")
            else: ops.append(t)
        elif name == "CleanClose":
            ops.append("reopen")
        elif name == "TimePasses":
            ops.append("tick")
        elif name == "JSet":
            ops.append("jset %d %d" % (ctx["k"], ctx["v"]))
        elif name == "JRm":
            ops.append("jrm %d" % ctx["k"])
        elif name == "CallFlush":
            ops.append("jflush")
        elif name == "BgStart":
            ops.append("jbg")
    return ";".join(ops)


def run_tlc_jobs(ck, jobs, nworkers=4):
    """jobs: list of (tag, module, cfg, kwargs) run in parallel; returns {tag: TlcResult}"""
    def one(j):
        tag, mod, cfg, kw = j
        return tag, vf.run_tlc(mod, cfg, tag="C11_" + tag, lib_dirs=[SPECDIR], **kw)
    with cf.ThreadPoolExecutor(max_workers=nworkers) as ex:
        return dict(ex.map(one, jobs))


def run(ck):
    thorough = ck.tier == "thorough"
    ck.make("drv_kvcrash")
    ck.rule = ("histories = operation sequences printed by TLC from KvLog.tla / JsonFile.tla in generator mode (all "
               "2-operation histories incl. the clock jump `tick`, seeded simulation for 4-5 operations, all 4-step TTL / "
               "expireAt / persist / compact / reopen / tick histories over one key, counterexamples of the Dev_* self-tests); for "
               "each history the driver takes an image of the store directory after every intercepted file-system call "
               "and at byte cuts inside every write, recovers each image with a fresh store and continues; a case is "
               "non-trivial when a crash hit an operation in flight (torn record, half-done compaction or flush)")
    # ------------------------------------------------------------------ 1. model checking, self-tests, generators
    jobs = []
    mod, cfg = kv_module(ck, "mc", MaxOps=3)
    jobs.append(("kv_mc", mod, cfg, dict(workers=4, coverage=True, timeout=1500)))
    if thorough:
        mod, cfg = kv_module(ck, "mc4", MaxOps=4, kinds=NOTICK_KINDS)
        jobs.append(("kv_mc4", mod, cfg, dict(workers=8, timeout=2400)))
        mod, cfg = kv_module(ck, "mcT", MaxOps=6, kinds=TTL_KINDS, NK=1, NV=1, NE=2)
        jobs.append(("kv_mcT", mod, cfg, dict(workers=4, timeout=2400)))
    mod, cfg = kv_module(ck, "dev_snap", kinds=TTL_KINDS, NK=1, NV=1, NE=2, MaxOps=5, MaxCrash=1,
                         Dev_SnapshotExpiryCheckedEarly=True, invariants=["Inv_Recovered"])
    jobs.append(("kv_dev_snap", mod, cfg, dict(workers=1, dump_trace=os.path.join(ck.work, "cex_snap.json"))))
    mod, cfg = kv_module(ck, "genT", kinds=TTL_KINDS, NK=1, NV=1, NE=2, MaxOps=4, MaxCrash=0, Emit=True, invariants=["EmitInv"])
    jobs.append(("kv_genT", mod, cfg, dict(workers=2)))
    mod, cfg = kv_module(ck, "dev_torn", Dev_TornTailNotTruncated=True, invariants=["Inv_Recovered"])
    jobs.append(("kv_dev_torn", mod, cfg, dict(workers=1, dump_trace=os.path.join(ck.work, "cex_torn.json"))))
    mod, cfg = kv_module(ck, "dev_order", Dev_TruncLogBeforeRename=True, invariants=["Inv_Recovered"])
    jobs.append(("kv_dev_order", mod, cfg, dict(workers=1, dump_trace=os.path.join(ck.work, "cex_order.json"))))
    # size-triggered (inline) compaction: the log limit counted in records
    mod, cfg = kv_module(ck, "mcL", kinds=LIMIT_KINDS, MaxOps=3, MaxLog=2)
    jobs.append(("kv_mcL", mod, cfg, dict(workers=3, coverage=True, timeout=1500)))
    if thorough:
        mod, cfg = kv_module(ck, "mcL1", kinds=LIMIT_KINDS, MaxOps=4, MaxLog=1, NV=1)
        jobs.append(("kv_mcL1", mod, cfg, dict(workers=4, timeout=2400)))
    mod, cfg = kv_module(ck, "dev_inl", kinds=[k for k in LIMIT_KINDS if k != "exp"], MaxOps=3, MaxCrash=1, MaxLog=1,
                         Dev_CompactInsideAppend=True, invariants=["Inv_Recovered"])
    jobs.append(("kv_dev_inl", mod, cfg, dict(workers=1, dump_trace=os.path.join(ck.work, "cex_inl.json"))))
    # the torn-tail cut after a replay that skipped a record (orphan 'X' over the snapshot of a half-done compaction)
    mod, cfg = kv_module(ck, "dev_cut", kinds=["set", "exp", "rm", "compact"], NK=1, NV=1, MaxOps=6, MaxCrash=2,
                         Dev_CutCountsAppliedOnly=True, invariants=["Inv_Recovered"])
    jobs.append(("kv_dev_cut", mod, cfg, dict(workers=1, dump_trace=os.path.join(ck.work, "cex_cut.json"))))
    mod, cfg = kv_module(ck, "mcX", kinds=["set", "exp", "rm", "compact"], NK=2 if thorough else 1, NV=1, MaxOps=6, MaxCrash=2)
    jobs.append(("kv_mcX", mod, cfg, dict(workers=4 if thorough else 2, timeout=2400)))
    mod, cfg = kv_module(ck, "genX", kinds=ORPHAN_KINDS, NK=2, NV=1, MaxOps=6, MaxCrash=0, Emit=True, GenFilter="orphan",
                         invariants=["EmitInv"])
    jobs.append(("kv_genX", mod, cfg, dict(workers=2)))
    mod, cfg = kv_module(ck, "genC", kinds=CLEAR_KINDS, NK=3, NV=1, MaxOps=4, MaxCrash=0, Emit=True, GenFilter="clear2",
                         invariants=["EmitInv"])
    jobs.append(("kv_genC", mod, cfg, dict(workers=1)))
    mod, cfg = js_module(ck, "jmc", MaxOps=6 if thorough else 5)
    jobs.append(("js_mc", mod, cfg, dict(workers=2, coverage=True)))
    mod, cfg = js_module(ck, "jdev", Dev_JsonSaveTruncatesInPlace=True, invariants=["Inv_Recovered"])
    jobs.append(("js_dev", mod, cfg, dict(workers=1, dump_trace=os.path.join(ck.work, "cex_json.json"))))
    mod, cfg = js_module(ck, "jdevbg", MaxCrash=1, Dev_BgWritesOutsideLock=True, invariants=["Inv_Recovered"])
    jobs.append(("js_dev_bg", mod, cfg, dict(workers=1, dump_trace=os.path.join(ck.work, "cex_jsonbg.json"))))
    # generators: crashes off, Emit on
    mod, cfg = kv_module(ck, "gen2", MaxOps=2, MaxCrash=0, Emit=True, NE=2, invariants=["EmitInv"])
    jobs.append(("kv_gen2", mod, cfg, dict(workers=2)))
    nsim = 150 if thorough else 40
    mod, cfg = kv_module(ck, "gen5", MaxOps=5 if thorough else 4, MaxCrash=0, Emit=True, NK=3, NV=3, NE=2,
                         invariants=["EmitInv"])
    jobs.append(("kv_gen5", mod, cfg, dict(workers=2, simulate="num=%d" % nsim, depth=60, seed=ck.seed)))
    mod, cfg = js_module(ck, "jgen", MaxOps=4, MaxCrash=0, Emit=True, invariants=["EmitInv"])
    jobs.append(("js_gen", mod, cfg, dict(workers=2)))
    res = run_tlc_jobs(ck, jobs, nworkers=5)
    for tag, r in res.items():
        if r.error:
            raise vf.Infra("TLC failed (%s): %s" % (tag, r.error))
        ck.states += r.distinct
        ck.transitions += r.generated
        ck.note("TLC %s: %s" % (tag, r.summary()))
    for tag in ("kv_mc", "js_mc", "kv_mc4", "kv_mcT", "kv_mcL", "kv_mcL1", "kv_mcX"):
        if tag not in res:
            continue
        r = res[tag]
        for a, (tk, gn) in r.coverage.items():
            ck.cov[a] = ck.cov.get(a, 0) + gn
        if r.violated:
            rp = ck.save_replay("impl_spec_" + tag, {"tlc.out": r.out})
            ck.violation("%s: the Impl specification violates %s with all deviation flags off" % (tag, r.violated), rp)
    if not res["kv_mc"].violated and not res["js_mc"].violated:
        for a in KV_ACTIONS + JS_ACTIONS:
            if ck.cov.get(a, 0) == 0:
                raise vf.Infra("self-test: Impl action %s never taken" % a)
    ck.exhaustive = True
    probes = []
    for tag, what in (("kv_dev_torn", "Dev_TornTailNotTruncated"), ("kv_dev_order", "Dev_TruncLogBeforeRename"),
                      ("kv_dev_snap", "Dev_SnapshotExpiryCheckedEarly"), ("kv_dev_cut", "Dev_CutCountsAppliedOnly"),
                      ("kv_dev_inl", "Dev_CompactInsideAppend"), ("js_dev", "Dev_JsonSaveTruncatesInPlace"),
                      ("js_dev_bg", "Dev_BgWritesOutsideLock")):
        r = res[tag]
        if r.violated != "Inv_Recovered":
            raise vf.Infra("self-test: Impl with %s = TRUE must violate Inv_Recovered, got %r" % (what, r.violated))
        h = cex_history(r)
        if not h:
            raise vf.Infra("self-test: no counterexample exported for " + what)
        if tag == "kv_dev_inl":
            limit_probe = h          # run under every log-size limit that falls between two of its records (run L)
        else:
            probes.append((("json" if tag.startswith("js_dev") else "kv maxlog=0 big=0"), h, what))
        ck.sample({"kind": "probe: TLC counterexample of %s, replayed on the real store" % what, "history": h})
    # ------------------------------------------------------------------ 2. cases
    rng = ck.rng
    pairs = hist_lines(res["kv_gen2"])
    longs = hist_lines(res["kv_gen5"])
    jhist = hist_lines(res["js_gen"])
    ttlh = {h: f for h, f in hist_lines(res["kv_genT"]).items() if "tick" in h and ("setx" in h or "exp" in h)}
    orph = hist_lines(res["kv_genX"])
    clr2 = hist_lines(res["kv_genC"])
    if len(pairs) < 400 or len(longs) < 20 or len(jhist) < 100 or len(ttlh) < 300 or len(orph) < 50 or len(clr2) < 50:
        raise vf.Infra("generator produced too few histories: %d pairs, %d long, %d json, %d ttl/clock, %d orphan-X, %d clear" % (
            len(pairs), len(longs), len(jhist), len(ttlh), len(orph), len(clr2)))
    expect = {}
    expect.update(pairs)
    expect.update(longs)
    expect.update(ttlh)
    expect.update(orph)
    expect.update(clr2)
    orph_list = sorted(orph)
    clr2_list = sorted(clr2)
    rng.shuffle(orph_list)
    rng.shuffle(clr2_list)
    ttl_list = sorted(ttlh)
    rng.shuffle(ttl_list)
    pair_list = sorted(pairs)
    long_list = sorted(longs)
    j_list = sorted(jhist)
    rng.shuffle(pair_list)
    rng.shuffle(long_list)
    rng.shuffle(j_list)
    interesting = [h for h in long_list if "compact" in h or "reopen" in h]
    # family "flusher race": the background flusher has serialised the store (jbg) and an explicit flush / clean close follows
    race_list = [h for h in j_list if re.search(r"jbg;.*(jflush|reopen)", h)]
    if len(race_list) < 100:
        raise vf.Infra("generator produced too few background-flusher histories: %d" % len(race_list))
    r_cases = [("json", h) for h in (race_list if thorough else race_list[:160])]
    if thorough:
        a_cases = [("kv maxlog=0 big=0", h) for h in pair_list] + [("kv maxlog=0 big=0", h) for h in long_list[:500]]
        a_cases += [("kv maxlog=90 big=0", h) for h in long_list[:150]]
        a_cases += [("json", h) for h in j_list[:600]]
        b_cases = [("kv maxlog=0 big=0", h) for h in (interesting[:60] + long_list[:60])]
        b_cases += [("kv maxlog=90 big=0", h) for h in long_list[60:90]] + [("json", h) for h in j_list[:60]]
        c_cases = [("kv maxlog=0 big=1", h) for h in long_list[:80]]
    else:
        a_cases = [("kv maxlog=0 big=0", h) for h in pair_list[:250]] + [("kv maxlog=0 big=0", h) for h in long_list[:110]]
        a_cases += [("kv maxlog=90 big=0", h) for h in long_list[70:110]]
        a_cases += [("json", h) for h in j_list[:150]]
        b_cases = [("kv maxlog=0 big=0", h) for h in (interesting[:12] + long_list[:12])] + [("json", h) for h in j_list[:10]]
        c_cases = [("kv maxlog=0 big=1", h) for h in long_list[:16]]
    t_cases = [("kv maxlog=0 big=0", h) for h in (ttl_list if thorough else ttl_list[:260])]
    # family "orphan": a compaction killed between the snapshot rename and the log reset leaves a log whose replay over the
    # NEW snapshot skips an 'X' record; every level-1 execution is reopen, continuation, clean close, reopen
    x_cases = [("kv maxlog=0 big=0", h) for h in (orph_list if thorough else orph_list[:70])]
    # family "clear2" (+ the Dev_CompactInsideAppend counterexample): first without a limit (run L0, which also measures
    # the log size after every file operation), then under every limit that falls between two records (run L)
    l0_cases = [("kv maxlog=0 big=0", limit_probe)] + [("kv maxlog=0 big=0", h) for h in (clr2_list if thorough else clr2_list[:24])]
    a_cases = [(c, h) for c, h, _ in probes] + a_cases
    b_cases = [(c, h) for c, h, _ in probes] + b_cases
    runs = [("A", a_cases, 1, "all", "spread", 200000), ("B", b_cases, 2, "all" if thorough else "spread", "spread", 60000),
            ("C", c_cases, 1, "spread", "spread", 200000),
            ("T", t_cases, 1, "all" if thorough else "spread", "spread", 200000),
            ("R", r_cases, 1, "spread", "spread", 60000),
            ("X", x_cases, 2 if thorough else 1, "all" if thorough else "spread", "spread", 60000),
            ("L0", l0_cases, 1, "spread", "spread", 200000), ("L", None, 1, "all" if thorough else "spread", "spread", 200000)]
    totals = dict(jobs=0, distinct=0, nontrivial_distinct=0, level1=0, level2=0, cut_images=0, dropped=0)
    traces = []
    for name, cases, depth, cuts1, cuts2, cap in runs:
        if name == "L":
            cases = limit_cases(ck, traces[-1][1], traces[-1][2])
        stats, out_path = drive(ck, name, cases, depth, cuts1, cuts2, cap)
        for k in totals:
            totals[k] += stats.get(k, 0)
        if stats["timeouts"]:
            raise vf.Infra("drv_kvcrash: %d history trees exceeded the wall-clock limit (run %s)" % (stats["timeouts"], name))
        traces.append((name, cases, out_path, stats))
        ck.note("run %s: %d histories, depth %d, cuts %s/%s: %s" % (name, len(cases), depth, cuts1, cuts2, json.dumps(stats)))
    family_selftest(ck, traces)
    ck.evaluations = totals["jobs"]
    ck.nontrivial = totals["nontrivial_distinct"]
    if totals["level1"] == 0 or totals["cut_images"] == 0 or totals["nontrivial_distinct"] == 0 or totals["level2"] == 0:
        raise vf.Infra("self-test: the driver produced no crash images (%s)" % json.dumps(totals))
    if totals["dropped"]:
        ck.note("job cap reached: %d deeper crash images were not run" % totals["dropped"])
    # ------------------------------------------------------------------ 3. judge
    drift = 0
    for name, cases, out_path, stats in traces:
        drift += judge(ck, name, cases, out_path, expect)
    ck.note("model drift (file-operation sequence of a history differs from the Impl expansion): %d histories" % drift)
    selftest_corrupt(ck, traces[0][2])


def level0_ends(out_path):
    """-> {case index: End event of the level-0 execution}"""
    out = {}
    for case, lines in split_by_store(out_path)["kv"]:
        if len(lines) >= 2 and lines[-2].startswith('{"e":"End"'):
            e = json.loads(lines[-2])
            if e.get("level") == 0:
                out[case] = e
    return out


def limit_cases(ck, l0_cases, l0_out):
    """each history of run L0 under every log-size limit (bytes) that falls between two of its file operations: the sizes
    are the ones the real store's log had after each call of the unlimited run"""
    ends = level0_ends(l0_out)
    cases, nlim = [], 0
    for i, (c, h) in enumerate(l0_cases):
        e = ends.get(i)
        if e is None:
            continue
        sizes = sorted(set(int(z) for z in e.get("logsz", "").split(",") if z and int(z) > 0))
        for t in sizes[:-1]:
            cases.append(("kv maxlog=%d big=0" % t, h))
        nlim += max(0, len(sizes) - 1)
    if len(cases) < len(l0_cases):
        raise vf.Infra("self-test: no log-size limits derived from run L0 (%d cases from %d histories)" % (len(cases), len(l0_cases)))
    ck.note("run L: %d histories x log-size limits between their records = %d cases" % (len(l0_cases), len(cases)))
    return cases


def family_selftest(ck, traces):
    """no vacuity: the directed families reached the situations they are for"""
    by = {name: (cases, out_path) for name, cases, out_path, stats in traces}
    # X: some execution was killed inside a compaction right after its rename, and some level-0 history issued 'X' records
    n = 0
    with open(by["X"][1]) as f:
        for ln in f:
            if ln.startswith('{"e":"Crash"') and '"op":"compact"' in ln and re.search(r'L1:rename#\d+"', ln):
                n += 1
    if n == 0:
        raise vf.Infra("self-test: run X has no execution killed right after a compaction's rename")
    # L: a size-triggered compaction ran in the phase of a clear() that deleted at least two keys
    m = 0
    for case, e in level0_ends(by["L"][1]).items():
        for seg in e.get("calls", "").split(";"):
            if seg.startswith("clear:") and "rename" in seg and seg.split(":", 1)[1].split(",")[:2] == ["write", "write"]:
                m += 1
    if m == 0:
        raise vf.Infra("self-test: run L has no clear() of two keys with a size-triggered compaction")
    # R: the background flusher was really held with an image in hand, and some execution was killed while it wrote
    held = killed = 0
    with open(by["R"][1]) as f:
        for ln in f:
            if ln.startswith('{"e":"JOp","op":"jbg"') and '"v":1' in ln:
                held += 1
            elif ln.startswith('{"e":"Crash"') and '"op":"jbgwait"' in ln:
                killed += 1
    if held == 0 or killed == 0:
        raise vf.Infra("self-test: run R never held the background flusher at its first file operation (%d) / never "
                       "killed the store while the flusher wrote (%d)" % (held, killed))
    ck.note("background flusher: held with an image in hand in %d executions, %d executions killed while it wrote" % (held, killed))
    ck.note("directed families: %d executions killed right after a compaction's rename (run X); %d limited histories "
            "with a compaction inside clear()'s sequence of file operations (run L)" % (n, m))


def drive(ck, name, cases, depth, cuts1, cuts2, cap):
    cases_path = os.path.join(ck.work, "cases_%s.txt" % name)
    with open(cases_path, "w") as f:
        for c, h in cases:
            f.write("%s | %s\n" % (c, h))
    out_path = os.path.join(ck.work, "crash_%s.ndjson" % name)
    scratch = os.path.join(ck.work, "scratch_" + name)
    rc, out = vf.run_driver("drv_kvcrash", ["run", cases_path, out_path, scratch, min(16, vf.NCPU), depth, cuts1, cuts2, cap],
                            timeout=2400)
    if rc != 0:
        raise vf.Infra("drv_kvcrash failed: " + out[-2000:])
    try:
        stats = json.loads(out.strip().splitlines()[-1])
    except Exception:
        raise vf.Infra("drv_kvcrash: no statistics line: " + out[-500:])
    return stats, out_path


def split_by_store(path):
    """-> {'kv': [(case, [lines])], 'json': [...]}"""
    res = {"kv": [], "json": []}
    cur, kind, case = [], None, -1
    with open(path) as f:
        for ln in f:
            cur.append(ln)
            if ln.startswith('{"e":"Begin"'):
                e = json.loads(ln)
                kind, case = e["store"], e.get("case", -1)
            elif ln.startswith('{"e":"Reset"'):
                res.setdefault(kind if kind in res else "kv", []).append((case, cur))
                cur, kind, case = [], None, -1
    return res


def validate_execs(ck, tag, kind, execs, max_reject=4):
    """validate a list of (case, lines); returns list of (case, lines, first unmatched line text, reason)"""
    spec = "KvLogTrace" if kind == "kv" else "JsonFileTrace"
    rejected = []
    chunks, cur, n = [], [], 0
    for x in execs:
        cur.append(x)
        n += len(x[1])
        if n > 60000:
            chunks.append(cur)
            cur, n = [], 0
    if cur:
        chunks.append(cur)

    def one(ix):
        i, chunk = ix
        rej = []
        chunk = list(chunk)
        rounds = 0
        while chunk and rounds <= max_reject:
            p = os.path.join(ck.work, "val_%s_%s_%d.ndjson" % (tag, kind, i))
            with open(p, "w") as f:
                for _, lines in chunk:
                    f.writelines(lines)
            for attempt in (1, 2):
                v = vf.validate_trace(os.path.join(SPECDIR, spec + ".tla"), os.path.join(SPECDIR, spec + ".cfg"), p,
                                      tag="C11_val_%s_%s_%d" % (tag, kind, i), timeout=1500)
                if not v.error:
                    break
            if v.error:
                raise vf.Infra("trace validation error: " + v.error)
            if v.accepted:
                return rej, len(chunk), v
            # locate the execution that contains line maxl, record it, drop it, validate the rest
            ln, k = 0, 0
            while k < len(chunk) and ln + len(chunk[k][1]) < v.maxl:
                ln += len(chunk[k][1])
                k += 1
            if k >= len(chunk):
                raise vf.Infra("trace validation: cannot locate rejected line %d" % v.maxl)
            case, lines = chunk[k]
            bad = lines[v.maxl - ln - 1] if 0 <= v.maxl - ln - 1 < len(lines) else "?"
            rej.append((case, lines, bad.strip(), v.violated or ""))
            chunk = chunk[k + 1:]
            rounds += 1
        return rej, 0, None
    with cf.ThreadPoolExecutor(max_workers=6) as ex:
        for rej, nacc, v in ex.map(one, list(enumerate(chunks))):
            rejected += rej
    return rejected


def expected_calls(fops):
    out = []
    for f in fops:
        out += FOP_CALLS.get(f, [f])
    return out


def judge(ck, name, cases, out_path, expect):
    by = split_by_store(out_path)
    drift = 0
    died = 0
    seen_case = set()
    for kind in ("kv", "json"):
        execs = by[kind]
        if not execs:
            continue
        # crashes of the store itself while recovering / continuing
        ok_execs = []
        for case, lines in execs:
            if any('"e":"Crashed"' in l for l in lines):
                died += 1
                if died <= 3:
                    cl = case_line(cases, case)
                    rp = ck.save_replay("%s_died_%d" % (name, case), {"trace.ndjson": "".join(lines), "case.txt": cl + "\n"})
                    ck.violation("the store process died (signal / abort) while recovering or continuing: %s | %s" % (
                        cl, lines[-2].strip()[:200]), rp)
                continue
            ok_execs.append((case, lines))
            # model drift: level-0 execution of a history whose file operations the model predicted
            if kind == "kv" and case not in seen_case and 0 <= case < len(cases) and "maxlog=0 big=0" in cases[case][0]:
                end = json.loads(lines[-2]) if lines[-2].startswith('{"e":"End"') else None
                if end and end.get("level") == 0 and expect.get(cases[case][1]) is not None:
                    seen_case.add(case)
                    got = []
                    for seg in end.get("calls", "").split(";"):
                        if ":" in seg and not seg.startswith("-:"):
                            got += seg.split(":", 1)[1].split(",")
                    exp = expected_calls(expect[cases[case][1]])
                    # the clean-close / reopen phases issue open_append (and nothing else): ignore them on both sides
                    got = [g for g in got if g != "open_append"]
                    exp = [g for g in exp if g != "open_append"]
                    if got != exp:
                        drift += 1
                        if drift <= 3:
                            ck.note("model drift: %s: Impl predicts %s, store issued %s" % (cases[case][1], exp, got))
        rej = validate_execs(ck, name, kind, ok_execs)
        ck.traces += len(ok_execs) - len(rej)
        ck.note("run %s/%s: %d distinct executions validated, %d rejected" % (name, kind, len(ok_execs), len(rej)))
        if ok_execs:
            ck.sample({"kind": "%s/%s" % (name, kind), "case": case_line(cases, ok_execs[-1][0]),
                       "events": [json.loads(l) for l in ok_execs[-1][1][:10]]})
        reported = set()
        for case, lines, bad, why in rej:
            cl = case_line(cases, case)
            if cl in reported:
                continue
            reported.add(cl)
            # re-run the history alone before reporting it
            again = confirm(ck, cl, kind)
            if again is None:
                ck.note("rejection not repeated on re-run (ignored): %s" % cl)
                continue
            rp = ck.save_replay("%s_%s_reject_%d" % (name, kind, case), {
                "trace.ndjson": "".join(again[0]), "case.txt": cl + "\n",
                "why.txt": "%sTrace.tla cannot match: %s %s\nfirst seen in run %s: %s\n" % (
                    "KvLog" if kind == "kv" else "JsonFile", again[1], again[2], name, bad)})
            ck.violation("reopen shows a state the specification does not admit (%s): %s" % (cl, summarize(again[0])), rp)
    return drift


def summarize(lines):
    out = []
    for l in lines:
        try:
            e = json.loads(l)
        except Exception:
            continue
        k = e["e"]
        if k in ("Op", "JOp", "Crash", "OpThrew"):
            a = e["op"]
            if e.get("k"): a += " %d" % e["k"]
            if e.get("v"): a += " %d" % e["v"]
            if e.get("ex"): a += " e%d" % e["ex"]
            if e.get("ks"): a += " %s=%s" % (e["ks"], e["vs"])
            out.append(("CRASH in " if k == "Crash" else "THREW " if k == "OpThrew" else "") + a)
        elif k == "Recovered":
            out.append("recovered %s%s%s" % (e["vals"], e["exps"] if any(e["exps"]) else "", "" if e["ok"] else " OPEN FAILED"))
        elif k == "Close":
            out.append("close")
    return "; ".join(out)[:600]


def case_line(cases, i):
    if 0 <= i < len(cases):
        return "%s | %s" % cases[i]
    return "?"


def confirm(ck, cl, kind):
    """re-run one history (depth 2, every byte) and return (lines, bad line, reason) of a rejected execution, or None"""
    cfgtxt, _, h = cl.partition(" | ")
    big = "big=1" in cfgtxt
    stats, out_path = drive(ck, "confirm", [(cfgtxt, h)], 2, "spread" if big else "all", "spread", 100000)
    by = split_by_store(out_path)
    rej = validate_execs(ck, "confirm", kind, by[kind], max_reject=0)
    if not rej:
        return None
    case, lines, bad, why = rej[0]
    return lines, bad, why


def selftest_corrupt(ck, out_path):
    """a corrupted recording must be rejected: a foreign value on a key no operation of the history touches"""
    by = split_by_store(out_path)
    for case, lines in by["kv"]:
        ops = [json.loads(l) for l in lines if l.startswith('{"e":"Op"') or l.startswith('{"e":"Crash"')]
        if not ops or any(o["k"] == 3 or 3 in o["ks"] or o["op"] in ("clear",) for o in ops):
            continue
        if any('"e":"Crashed"' in l for l in lines) or not any(o["e"] == "Crash" for o in ops):
            continue
        idx = next(i for i, l in enumerate(lines) if l.startswith('{"e":"Recovered"'))
        e = json.loads(lines[idx])
        e["vals"][2] = 1
        bad = lines[:idx] + [json.dumps(e, separators=(",", ":")) + "\n"] + lines[idx + 1:]
        rej = validate_execs(ck, "selftest", "kv", [(case, bad)], max_reject=0)
        if not rej:
            raise vf.Infra("self-test: KvLogTrace accepted a corrupted recovery (foreign value on an untouched key)")
        ck.note("self-test: corrupted trace rejected at %s" % rej[0][2][:120])
        return
    raise vf.Infra("self-test: no execution with a crash and an untouched key found")


def replay(ck, path):
    """re-run one saved history against the current tree (depth 2, every byte cut) and re-validate it"""
    ck.make("drv_kvcrash")
    cl = open(os.path.join(path, "case.txt")).read().strip()
    kind = "json" if cl.startswith("json") else "kv"
    again = confirm(ck, cl, kind)
    if again is None:
        print("[C11] replay: every execution of '%s' is admitted by the specification" % cl)
        return
    print("".join(again[0]))
    rp = ck.save_replay("replay_reject", {"trace.ndjson": "".join(again[0]), "case.txt": cl + "\n",
                                          "why.txt": "%s %s\n" % (again[1], again[2])})
    ck.violation("reopen shows a state the specification does not admit (%s): %s" % (cl, summarize(again[0])), rp)
