"""C08 — timers never fire early, twice, or after a successful cancel.

Timing wheel
  1. TLC checks spec/timer/TimingWheel.tla (Impl: hashed hierarchical wheel, drift catch-up, cascades) exhaustively for small
     wheels: NoEarly (action property), NoFireAfterCancel, Conserved.  Self-test: DeadlineCheck = FALSE (the code before the
     fix) must violate NoEarly.
  2. Behaviours covering the TLC state graph (Schedule / Cancel / TimePasses / Advance) are replayed on the real TimingWheel
     under the deterministic scheduler with VIRTUAL time (the wheel's own tick thread is scheduled, its timed wait times out
     when the behaviour says Advance); plus seeded random programs with two application threads, reschedule, drain, stop.
     Every execution is validated by TLC against the Abs oracle spec/timer/WheelTrace.tla (exact virtual-time comparisons).
Timer service (epoll thread, real time): see checks/c08_service.py.
"""
import os, json, re, concurrent.futures as cf
import vf
from checks import c08_service

SPECDIR = os.path.join(vf.SPEC, "timer")
TICK = 10


def wheel_cfg(ck, name, tpw, nw, delays, maxtime, maxlag, check=True):
    p = os.path.join(ck.work, name + ".cfg")
    vf.write_cfg(p, constants={"TPW": tpw, "NW": nw, "Ids": "{1, 2}", "Delays": "{" + ", ".join(map(str, delays)) + "}",
                               "MaxTime": maxtime, "MaxLag": maxlag, "DeadlineCheck": check},
                 properties=["NoEarly"], invariants=["NoFireAfterCancel", "Conserved"])
    return p


def behaviour_to_case(tpw, nw, labels):
    """TLC edge labels -> (program for thread a, run-until plan)"""
    ops, plan = [], ["a*point:call", "w1*cv_wait", "w1"]
    for lab in labels:
        act, args = vf.label_thread(lab)
        if act == "Schedule":
            ops.append("sched:%s:%d" % (args[0], int(args[1]) * TICK)); plan += ["a", "a*point:call"]
        elif act == "Cancel":
            ops.append("cancel:%s" % args[0]); plan += ["a", "a*point:call"]
        elif act == "TimePasses":
            ops.append("sleep:%d" % TICK); plan += ["a", "a*point:call"]
        elif act == "Advance":
            plan += ["w1!", "w1*cv_wait", "w1"]
    ops.append("quiesce")
    return "%d %d %d | a=%s | replay %s" % (TICK, tpw, nw, ",".join(ops), " ".join(plan))


def random_prog(rng, tpw, nw):
    rng_range = tpw ** nw
    def ops(keys):
        out = []
        live = []
        for _ in range(rng.randint(2, 6)):
            r = rng.random()
            if r < 0.45 and keys:
                k = keys.pop(0)
                d = rng.choice([0, 3, TICK, TICK + 5, 3 * TICK, (tpw - 1) * TICK, tpw * TICK, tpw * TICK + 7,
                                (rng_range - 1) * TICK, rng_range * TICK + 5, 2 * rng_range * TICK])
                out.append("sched:%d:%d" % (k, d)); live.append(k)
            elif r < 0.6 and live:
                out.append("cancel:%d" % rng.choice(live))
            elif r < 0.72 and live:
                out.append("resched:%d:%d" % (rng.choice(live), rng.choice([0, TICK, 2 * TICK + 3, tpw * TICK, rng_range * TICK])))
            else:
                out.append("sleep:%d" % rng.choice([1, TICK // 2, TICK, 2 * TICK, 5 * TICK, tpw * TICK]))
        return out
    a = ops([1, 2, 3])
    b = ops([4, 5])
    tail = rng.choice(["quiesce", "quiesce", "drain", "stop", "sleep:%d,quiesce" % (3 * TICK)])
    return "a=%s,%s ; b=%s" % (",".join(a), tail, ",".join(b))


def run(ck):
    thorough = ck.tier == "thorough"
    ck.make("drv_s_wheel", "drv_timersvc")
    ck.rule = ("wheel: behaviours covering the TLC state graph of TimingWheel.tla are replayed on the real wheel under virtual time; "
               "seeded random two-thread programs (schedule/cancel/reschedule/sleep/drain/stop over delays across all levels) under "
               "random schedules; non-trivial = the tick thread lagged (catch-up), a cascade happened, or a cancel/reschedule/stop "
               "overlapped pending timers. service: see c08_service")
    tla_path = os.path.join(SPECDIR, "TimingWheel.tla")
    models = [("w42", 4, 2, [0, 1, 3, 6], 9, 4), ("w41", 4, 1, [0, 1, 3, 6], 9, 4)]
    if thorough:
        models += [("w22", 2, 2, [0, 1, 2, 3, 5], 9, 4), ("w42b", 4, 2, [0, 2, 5, 17], 10, 5)]
    jobs = [(m, True) for m in models] + [(models[0], False), (models[1], False)]

    def go(job):
        (name, tpw, nw, delays, mt, ml), chk = job
        cfg = wheel_cfg(ck, name + ("" if chk else "_nocheck"), tpw, nw, delays, mt, ml, chk)
        dot = os.path.join(ck.work, name + ".dot") if chk else None
        return job, dot, vf.run_tlc(tla_path, cfg, tag="C08_" + name, workers=3, coverage=chk, dump_dot=dot, timeout=900)
    with cf.ThreadPoolExecutor(max_workers=6) as ex:
        res = list(ex.map(go, jobs))
    lines = []
    for ((name, tpw, nw, delays, mt, ml), chk), dot, r in res:
        if r.error:
            raise vf.Infra("TLC failed on TimingWheel %s: %s" % (name, r.error))
        ck.states += r.distinct
        ck.transitions += r.generated
        if not chk:
            if r.violated != "action_property":
                raise vf.Infra("self-test: TimingWheel.tla with DeadlineCheck=FALSE should violate NoEarly, got %r" % r.violated)
            continue
        for a, (tk, gn) in r.coverage.items():
            ck.cov["Wheel." + a] = ck.cov.get("Wheel." + a, 0) + gn
        ck.note("TimingWheel %s (TPW=%d NW=%d): %s" % (name, tpw, nw, r.summary()))
        if r.violated:
            rp = ck.save_replay("wheel_model_" + name, {"tlc.out": r.out})
            ck.violation("TimingWheel.tla (the design the code follows) violates %s" % r.violated, rp)
            continue
        g = vf.Graph.load(dot)
        os.remove(dot)
        paths, covered, total = g.transition_cover(ck.rng, maxlen=40, limit=(1500 if thorough else 150))
        walks = g.random_walks(ck.rng, 300 if thorough else 50, maxlen=40)
        ck.note("  graph %d edges; %d cover behaviours (%d/%d edges) + %d walks" % (g.n_edges(), len(paths), covered, total, len(walks)))
        for pth in paths + walks:
            lines.append(behaviour_to_case(tpw, nw, pth))
    for a in ["Schedule", "Cancel", "TimePasses", "Advance"]:
        if ck.cov.get("Wheel." + a, 0) == 0:
            raise vf.Infra("self-test: TimingWheel action %s never taken" % a)
    ck.sample({"kind": "TLC behaviour replayed on the real wheel", "case": lines[0]})
    nrand = 3000 if thorough else 400
    for i in range(nrand):
        tpw, nw = [(4, 2), (4, 1), (2, 3), (8, 2)][i % 4]
        lines.append("%d %d %d | %s | random %d" % (TICK, tpw, nw, random_prog(ck.rng, tpw, nw), ck.seed * 65537 + i))
    ck.sample({"kind": "random program", "case": lines[-1]})
    cp = os.path.join(ck.work, "wheel_cases.txt")
    open(cp, "w").write("\n".join(lines) + "\n")
    outp = os.path.join(ck.work, "wheel.ndjson")
    rc, out = vf.run_driver("drv_s_wheel", ["run", cp, outp, 16], timeout=1500)
    if rc != 0:
        raise vf.Infra("drv_s_wheel failed: " + out[-2000:])
    judge(ck, outp, lines, "wheel", "WheelTrace")
    c08_service.run(ck)


def judge(ck, trace_path, lines, name, spec):
    events = vf.read_ndjson(trace_path)
    execs = vf.split_executions(events)
    ck.evaluations += len(execs)
    keys = getattr(ck, "keys", set())
    inconclusive = 0
    for i, (start, evs) in enumerate(execs):
        bad = [e for e in evs if e["e"] in ("Crashed", "HarnessTimeout")]
        if bad:
            if bad[0]["e"] == "HarnessTimeout":
                raise vf.Infra("execution %d of %s exceeded the harness wall-clock limit: %s" % (i, name, lines[i]))
            rp = ck.save_replay("%s_crash_%d" % (name, i), {"case.txt": lines[i] + "\n"})
            ck.violation("execution crashed — %s" % lines[i], rp)
            return
        end = [e for e in evs if e["e"] == "End"]
        if end and end[0]["outcome"] in ("steplimit", "external"):
            inconclusive += 1
        fires = [e for e in evs if e["e"] == "Fire"]
        if fires and any(e["e"] in ("CancelRet", "ReschedRet", "LifeCall") for e in evs) or len(fires) >= 2:
            keys.add(json.dumps([e for e in evs if e["e"] != "End"], sort_keys=True))
    ck.keys = keys
    ck.nontrivial = len(keys)
    v = ck.validate(os.path.join(SPECDIR, spec + ".tla"), os.path.join(SPECDIR, spec + ".cfg"), trace_path, n_exec=len(execs))
    ck.note("%s: %d executions, inconclusive=%d" % (name, len(execs), inconclusive))
    if len(execs) >= 20 and inconclusive * 3 > len(execs):
        # executions that ran into the step limit decide nothing: a third of them is a harness problem (or a livelock) that
        # must not pass silently
        raise vf.Infra("%s: %d of %d executions ended at the step limit (inconclusive)" % (name, inconclusive, len(execs)))
    if not v.accepted:
        x = vf.exec_index_of_line(events, v.maxl)
        start, evs = execs[min(x, len(execs) - 1)]
        bad_ev = events[v.maxl - 1] if v.maxl <= len(events) else {}
        rp = ck.save_replay("%s_reject_%d" % (name, x), {
            "trace.ndjson": "\n".join(json.dumps(e) for e in evs) + "\n", "case.txt": lines[x] + "\n",
            "why.txt": "%s.tla cannot match event %d of this execution: %s %s\n" % (
                spec, v.maxl - start + 1, json.dumps(bad_ev), ("(invariant %s)" % v.violated) if v.violated else "")})
        ck.classify({"spec": spec, "event": bad_ev.get("e")},
                    "%s execution not explainable by the Abs timer (%s): first unmatched event %s" % (name, lines[x][:200], json.dumps(bad_ev)), rp)


def replay(ck, path):
    ck.make("drv_s_wheel", "drv_timersvc")
    case = open(os.path.join(path, "case.txt")).read().strip()
    cp = os.path.join(ck.work, "case.txt")
    open(cp, "w").write(case + "\n")
    outp = os.path.join(ck.work, "replay.ndjson")
    if case.startswith("svc"):
        c08_service.replay_case(ck, case)
        return
    vf.run_driver("drv_s_wheel", ["run", cp, outp, 1])
    judge(ck, outp, [case], "replay", "WheelTrace")
