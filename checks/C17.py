"""C17 — the HTTP client transmits a non-idempotent request at most once.

  1. TLC model-checks spec/http/HttpRetry.tla (Impl: retry loop, connection cache, lease) for several configurations
     (single request over the full fault alphabet x every method x budget 0..2; sequences of 2 and 3 requests on a
     kept-alive connection; reuseConnections = false; idle expiry; two callers sharing the client) against AtMostOnce,
     AttemptBound, FramingNotRetried, NoReuse, LeaseExclusive, NoStuck.  Each Dev_* deviation flag must be caught by TLC.
  2. Every terminal state of those runs is a case: a fault script per server-visible attempt plus the outcome the model
     predicts.  The cases are executed by harness/drv_httpretry.cpp: the real HttpClient against a scripted raw-socket
     server (+ interposed connect()/send() on the client side).
  3. The recorded events are validated by TLC against the Abs oracle spec/http/HttpRetryTrace.tla, which only counts facts
     the server / the interposed connect() / the caller observed.  A rejection is re-run alone before it is reported.
     A difference between the model's prediction and the observed outcome is model drift (note), never a violation.
  4. thorough: the fault position sweeps every byte offset of the request and of the response.
  Surplus bytes are delivered at every arrival point: in the write that ends the response - as one write, after the header
  block was read (headers | body+surplus) and after part of the body (headers+part | rest+surplus | surplus), for
  Content-Length, chunked and bodyless framing (strong reading: NoReuse) - and where the client cannot see them while it
  frames the response: in a segment of its own after the complete response, and while the connection sits in the cache (a
  complete foreign response or junk, delivered on the driver's signal after the call returned and consumed by the client's
  engine before the next request is issued).  For the latter the weaker reading OwnResponse applies (see HttpRetryTrace.tla).
"""
import os, json, re, time, concurrent.futures as cf
import vf

SPECDIR = os.path.join(vf.SPEC, "http")
TRACE_TLA = os.path.join(SPECDIR, "HttpRetryTrace.tla")
TRACE_CFG = os.path.join(SPECDIR, "HttpRetryTrace.cfg")
IMPL_INVS = ["AtMostOnce", "AttemptBound", "FramingNotRetried", "NoReuse", "OwnResponse", "LeaseExclusive", "LeaseWaitBounded", "NoStuck"]
DEVS = {"Dev_RetryNonIdempotent": "AtMostOnce", "Dev_RetryFraming": "FramingNotRetried",
        "Dev_KeepAfterCloseSignal": "NoReuse", "Dev_KeepAfterSurplus": "NoReuse", "Dev_KeepAfterFailure": "NoReuse",
        "Dev_BudgetOffByOne": "AttemptBound", "Dev_PossiblySentIsNotSent": "AtMostOnce",
        "Dev_CaseFoldMethod": "AtMostOnce", "Dev_NoRecvTimeout": "NoStuck", "Dev_ClampedBodyRead": "NoReuse",
        "Dev_IdleBytesKept": "OwnResponse", "Dev_CloseLastOnly": "NoReuse", "Dev_LeaseWaitRestarts": "LeaseWaitBounded", "Dev_ZeroLengthFastPath": "NoReuse", "Dev_BackoffClampsAttempt": "AttemptBound"}
ACTIONS = ["Start", "AcquireLease", "Reuse", "EvictIdle", "Miss", "ConnectFails", "ConnectResetEarly", "ConnectOk",
           "SetSyncMode", "SendStale", "PickCached", "Send", "RecvFails", "RecvOk", "RetryDecision", "Finish", "LeaseTimeout", "Tick"]
RT = 400          # requestTimeout of the client under test (ms); connectTimeout 200


def S(k, v="-", p="-"):
    return vf.Rec(k=k, v=v, p=p)


def conn(ver, toks, sep=", "):
    """one spelling of the Connection field of a response: the list elements as sent and how they are joined ("&" = a
    second field line).  -> (variant name = the encoded field value, which the driver only decodes; the model's view)"""
    enc = ("1" if ver == "1.1" else "0") + "~" + sep.join(toks).replace(" ", "_").replace("\t", "^")
    return enc, vf.Rec(ver=ver, toks=list(toks))


# Connection lists: close first / in the middle / last, with other connection options or hop-by-hop field names, without
# and with optional white space, mixed case, empty elements, two field lines; lists without a close element (one that
# merely contains the letters); HTTP/1.0 with and without keep-alive.  Which of them is a close signal is decided by
# SignalsClose in HttpRetry.tla, not here.
CONN = dict([conn("1.1", ["close", "X-Hop-Token"]), conn("1.1", ["close", "keep-alive"]),
             conn("1.1", ["X-Hop-Token", "close", "keep-alive"]), conn("1.1", ["X-Hop-Token", "close"], ","),
             conn("1.1", ["Close", "X-Hop-Token"], " , "), conn("1.1", ["keep-alive", "CLOSE"], ",\t"),
             conn("1.1", ["close", ""], ","), conn("1.1", ["", "close"], ", "),
             conn("1.1", ["close", "keep-alive"], "&"), conn("1.1", ["keep-alive", "close"], "&"),
             conn("1.1", ["X-Close-Hint", "keep-alive"]), conn("1.1", ["keep-alive", "X-Hop-Token"]),
             conn("1.1", ["X-Hop-Token", "closed"]),
             conn("1.0", ["keep-alive", "X-Hop-Token"]), conn("1.0", ["X-Hop-Token"]), conn("1.0", ["close", "keep-alive"])])
CONNSTEPS = [S("ok_conn", v) for v in CONN]
# zero-length responses (Content-Length: 0, a chunked body that is only the last-chunk, 304) without and with surplus
ZERO = [S("ok", "cl0"), S("ok", "chunked0"), S("ok_surplus", "cl0"), S("ok_surplus", "chunked0"), S("ok_surplus", "304"),
        S("ok_latesurplus", "cl0", "h_s")]
OK = S("ok", "cl")
SUCCESS = [OK, S("ok", "chunked"), S("ok_connclose"), S("ok_connclose", "mixed"), S("ok_connclose", "list"), S("ok_surplus", "cl"), S("ok_surplus", "chunked"), S("ok_surplus", "204"),
           # surplus at the other arrival points: after the header block was read (headers | body+surplus; headers+part of
           # the body | rest+surplus | surplus), in a segment of its own after the complete response, while the connection
           # sits in the cache (a complete foreign response / junk)
           S("ok_surplus", "cl", "h_bs"), S("ok_surplus", "cl", "hb_bs_s"), S("ok_surplus", "chunked", "h_bs"),
           S("ok_surplus", "chunked", "hb_bs_s"), S("ok_latesurplus", "cl", "h_b_s"), S("ok_latesurplus", "chunked", "h_b_s"),
           S("ok_latesurplus", "204", "h_s"), S("ok_idle", "stale"), S("ok_idle", "junk"), S("ok_closedelim"),
           S("ok_http10"), S("ok_http10_ka"), S("ok_then_fin"), S("ok_1xx"), S("ok_500"), S("ok_204"),
           S("ok_split", "cl", "body"), S("send_short", "-", "first"), S("send_eagain")]
REQPOS = ["peek", "first", "line", "hdr", "last"]
RESPPOS = ["status", "hdr", "hdrend", "body", "last"]
BAD = ["cl_te", "cl_conflict", "cl_nonnum", "obsfold", "badversion", "badstatus", "nocolon", "chunk_size", "chunk_crlf"]
FAULTS = ([S("refused"), S("ctimeout"), S("acc_close"), S("acc_rst")] +
          [S("send_fail", "-", p) for p in ["zero", "first", "line", "hdr"]] +
          [S(k, "-", p) for k in ["req_close", "req_rst"] for p in REQPOS] +
          [S("full_close"), S("full_rst"), S("silence")] +
          [S("resp_silence", "cl", p) for p in RESPPOS] + [S("resp_silence", "chunked", "body")] +
          [S("resp_close", "cl", p) for p in RESPPOS] + [S("resp_close", "chunked", p) for p in ["hdrend", "body", "last"]] +
          [S("resp_rst", "cl", p) for p in RESPPOS] + [S("resp_rst", "chunked", "body")] +
          [S("bad", v) for v in BAD])
SEQ2 = [OK, S("ok", "chunked"), S("ok_connclose"), S("ok_surplus", "cl"), S("ok_surplus", "cl", "h_bs"), S("ok_idle", "stale"),
        S("ok_latesurplus", "cl", "h_b_s"), S("ok_closedelim"), S("ok_http10"),
        S("ok_http10_ka"), S("ok_then_fin"), S("ok_1xx"), S("ok_500"), S("ok_204"),
        S("refused"), S("acc_rst"), S("req_close", "-", "first"), S("full_close"), S("silence"),
        S("resp_close", "cl", "body"), S("resp_silence", "cl", "hdr"), S("bad", "cl_te"), S("bad", "chunk_size")]
SEQ3 = [OK, S("ok_connclose"), S("ok_surplus", "cl"), S("ok_surplus", "cl", "hb_bs_s"), S("ok_idle", "stale"), S("ok_closedelim"),
        S("ok_http10"), S("ok_then_fin"),
        S("refused"), S("silence"), S("resp_close", "cl", "body"), S("bad", "cl_te")]
NOREUSE = [OK, S("ok_connclose"), S("ok_surplus", "cl"), S("silence"), S("full_close"), S("refused")]
IDLE = [OK, S("ok_then_fin"), S("ok_connclose")]
CONC = [OK, S("ok_connclose"), S("ok_surplus", "cl"), S("ok_closedelim"), S("ok_then_fin"), S("silence"), S("full_close"),
        S("resp_close", "cl", "body")]
LEASE = [OK, S("silence"), S("resp_silence", "cl", "hdr")]
ALLM = ["GET", "HEAD", "PUT", "DELETE", "POST", "PATCH", "get"]


def configs(thorough):
    """name -> (constants of the MC module, number of cases to run: None = all)"""
    q = lambda a, b: b if thorough else a
    return [
        dict(name="single", callers=[1], nreq=1, methods=ALLM, budgets=[0, 1, 2], steps=SUCCESS + FAULTS, oktail=[OK],
             maxfk=1, reuse=True, idle=False, take=None),
        # every success variant (keep-alive, close signals in every spelling of the Connection list, surplus after bodies of
        # length > 0 and = 0, close-delimited ...) of every method followed by a request
        dict(name="taint", callers=[1], nreq=2, methods=ALLM, budgets=[0], steps=SUCCESS + CONNSTEPS + ZERO, oktail=[OK],
             maxfk=1, reuse=True, idle=False, take=None, later_methods=["GET", "POST"], later_steps=[OK]),
        # the budget dimension beyond 2: every attempt fails after the request was sent (or before: refused), budgets up to 8;
        # the back-off of the calling thread is divided by 20 (interposed nanosleep) so that 100*2^a ms stays affordable
        dict(name="budget", callers=[1], nreq=1, methods=["GET", "PUT", "POST"], budgets=[0, 1, 2, 3, 4, 5, 6, 8],
             steps=[OK, S("full_close"), S("resp_close", "cl", "body"), S("refused")], oktail=[OK], maxfk=1, reuse=True,
             idle=False, take=None, bo=20, rep=1),
        dict(name="single2", callers=[1], nreq=1, methods=["GET", "POST"], budgets=[2], steps=SEQ2, oktail=[OK],
             maxfk=2, reuse=True, idle=False, take=q(120, None)),
        dict(name="seq2", callers=[1], nreq=2, methods=["GET", "POST"], budgets=[0, 1], steps=SEQ2, oktail=[OK],
             maxfk=1, reuse=True, idle=False, take=q(400, 5000)),
        dict(name="seq3", callers=[1], nreq=3, methods=["GET", "POST"], budgets=[1], steps=SEQ3, oktail=[OK],
             maxfk=1, reuse=True, idle=False, take=q(200, 3000)),
        dict(name="noreuse", callers=[1], nreq=2, methods=["GET", "POST"], budgets=[0, 1], steps=NOREUSE, oktail=[OK],
             maxfk=1, reuse=False, idle=False, take=q(40, None)),
        dict(name="idle", callers=[1], nreq=2, methods=["GET", "POST"], budgets=[1], steps=IDLE, oktail=[OK],
             maxfk=1, reuse=True, idle=True, take=q(16, None)),
        dict(name="conc", callers=[1, 2], nreq=1, methods=["GET", "POST"], budgets=[0, 1], steps=CONC, oktail=[OK],
             maxfk=1, reuse=True, idle=False, take=q(100, None)),
        # leaseAcquireTimeout = 200 ms < requestTimeout = 3000 ms: caller 2 starts once caller 1's request has reached the
        # peer (the model's Stagger order = the driver's) and has to give up on the lease while caller 1's peer is silent; a
        # third thread keeps the client busy with requests to another host (each release wakes every lease waiter)
        dict(name="lease", callers=[1, 2], nreq=1, methods=["GET", "POST"], budgets=[0, 1], steps=LEASE, oktail=[OK],
             maxfk=1, reuse=True, idle=False, take=q(24, None), lat=200, rt=3000, only_with=None if thorough else "leaseto"),
    ]


def write_mc(ck, c, devs=(), emit=True, tag=""):
    d = os.path.join(ck.work, "mc_" + c["name"] + tag)
    os.makedirs(d, exist_ok=True)
    mod = "MC" + re.sub(r"\W", "", c["name"] + tag)
    with open(os.path.join(d, mod + ".tla"), "w") as f:
        f.write("---- MODULE %s ----\nEXTENDS HttpRetry\n" % mod)
        f.write("MCCallers == %s\nMCMethods == %s\nMCBudgets == %s\n" % (
            vf.tla(set(c["callers"])), vf.tla(set(c["methods"])), vf.tla(set(c["budgets"]))))
        f.write("MCSteps == {%s}\nMCOkTail == {%s}\n" % (
            ",\n  ".join(vf.tla(s) for s in c["steps"]), ", ".join(vf.tla(s) for s in c["oktail"])))
        f.write("MCConnHdr == %s\n" % vf.tla(CONN))
        f.write("MCLaterMethods == %s\nMCLaterSteps == {%s}\n====\n" % (
            vf.tla(set(c.get("later_methods", c["methods"]))), ",\n  ".join(vf.tla(s) for s in c.get("later_steps", c["steps"]))))
    consts = {"Callers": "<- MCCallers", "NReq": c["nreq"], "MethodSet": "<- MCMethods", "BudgetSet": "<- MCBudgets",
              "StepSet": "<- MCSteps", "LaterMethods": "<- MCLaterMethods", "LaterSteps": "<- MCLaterSteps", "OkTail": "<- MCOkTail", "MaxFaultKinds": c["maxfk"], "ReuseCfg": c["reuse"],
              "AllowIdle": c["idle"], "EmitCases": emit, "ConnHdr": "<- MCConnHdr",
              "LeaseTO": bool(c.get("lat")), "Stagger": bool(c.get("lat"))}
    for dv in DEVS:
        consts[dv] = dv in devs
    cfg = os.path.join(d, mod + ".cfg")
    # NoStuck evaluates ENABLED Next: with the ~1000-step alphabets of the byte-offset sweep that costs minutes, and the
    # sweep adds positions, not control flow
    invs = [i for i in IMPL_INVS if not (i == "NoStuck" and c["name"].startswith("sweep"))]
    vf.write_cfg(cfg, constants=consts, invariants=invs + (["Emit"] if emit else []))
    return os.path.join(d, mod + ".tla"), cfg


def step_text(s, tn=None):
    """tn: the taints the model computed for the step (ok_conn: the server is told whether the model sees a close signal)"""
    t = s["k"]
    if s["v"] != "-":
        t += ":" + s["v"]
    if s["p"] != "-":
        t += "@" + s["p"]
    if s["k"] == "ok_conn" and tn is not None:
        t += "@close" if "close_signal" in tn else "@keep"
    return t


def case_of(script, c):
    """TLC terminal state (script: per caller a list of request records) -> (driver line body, prediction)"""
    reqs = [rq for caller in script for rq in caller]
    body = " | ".join("%s %d %d %s" % (rq["m"], rq["b"], rq["pre"], ";".join(step_text(s, t) for s, t in zip(rq["steps"], rq["tn"])) or "-")
                      for rq in reqs)
    head = "reuse=%d rt=%d idle=%d conc=%d" % (1 if c["reuse"] else 0, c.get("rt", RT), 1 if c["idle"] else 0, 1 if len(c["callers"]) > 1 else 0)
    if c.get("lat"):
        head += " lat=%d" % c["lat"]
    if c.get("bo", 1) != 1:
        head += " bo=%d" % c["bo"]
    if c.get("rep"):
        head += " rep=1"     # the peer repeats its last step beyond the script: a never-ending retry loop stays never-ending
    pred = [[rq["res"], [x for x in rq["conns"] if x != 0]] for rq in reqs]
    return head + " | " + body, pred


def parse_prints(r):
    out = []
    for ln in r.prints:
        if not ln.startswith('"'):
            continue
        try:
            out.append(json.loads(json.loads(ln)))
        except Exception as e:
            raise vf.Infra("cannot parse a case printed by TLC: %s (%s)" % (ln[:200], e))
    return out


# ------------------------------------------------------------------------------------------------- running + judging
def observed(evs):
    """per logical request: [result, connections of the observed attempts] (same counting as HttpRetryTrace.tla)"""
    conn = {}
    att = {}
    res = {}
    for e in evs:
        k = e["e"]
        if k == "Call":
            att[e["r"]] = []
        elif k == "CConn":
            conn[e["c"]] = dict(by=e["r"], virgin=True)
            if e["r"] in att:
                att[e["r"]].append(e["c"])
        elif k == "SReq":
            c = conn.get(e["c"])
            same = c is not None and c["virgin"] and c["by"] == e["r"] and e["r"] > 0
            if c is not None:
                c["virgin"] = False
            if not same and e["r"] in att:
                att[e["r"]].append(e["c"])
        elif k == "Ret":
            res[e["r"]] = e["res"]
    return [[res.get(r, "?"), att[r]] for r in sorted(att)]


def run_cases(ck, name, lines, par=None):
    """lines: driver case bodies (without id) -> list of (start_line, events) per execution, path of the trace"""
    cases_path = os.path.join(ck.work, name + ".cases")
    with open(cases_path, "w") as f:
        for i, ln in enumerate(lines):
            f.write("%s%d %s\n" % (name, i, ln))
    out_path = os.path.join(ck.work, name + ".ndjson")
    rc, out = vf.run_driver("drv_httpretry", ["run", cases_path, out_path, par or 2 * vf.NCPU], timeout=1700)
    if rc != 0:
        raise vf.Infra("drv_httpretry failed: " + out[-2000:])
    events = vf.read_ndjson(out_path)
    execs = vf.split_executions(events)
    if len(execs) != len(lines):
        raise vf.Infra("drv_httpretry produced %d executions for %d cases" % (len(execs), len(lines)))
    for i, (st, evs) in enumerate(execs):
        if any(e["e"] in ("HarnessTimeout", "HarnessError") for e in evs) or not any(e["e"] == "End" for e in evs):
            if any(e["e"] == "Crashed" for e in evs):
                continue
            raise vf.Infra("execution %s%d did not complete: %s" % (name, i, lines[i]))
        if any(e["e"] == "SReq" and e["c"] == 0 for e in evs):
            raise vf.Infra("server could not map a connection to a connect() call in %s%d" % (name, i))
    return execs, out_path


def validate_chunks(ck, name, execs, nchunks, limit=8):
    """validate the executions in parallel chunks; returns list of (exec index, invariant or None, line in exec)"""
    n = len(execs)
    nchunks = max(1, min(nchunks, (n + 199) // 200))
    size = (n + nchunks - 1) // nchunks
    jobs = []
    for k in range(nchunks):
        part = execs[k * size:(k + 1) * size]
        if not part:
            continue
        p = os.path.join(ck.work, "%s.val%d.ndjson" % (name, k))
        with open(p, "w") as f:
            for st, evs in part:
                for e in evs:
                    f.write(json.dumps(e) + "\n")
                f.write('{"e":"Reset"}\n')
        jobs.append((k * size, part, p))

    def go(job):
        base, part, p = job
        bad = []
        offset = 0
        # after a rejection, continue behind the rejected execution so that every bad execution of the chunk is found
        while offset < len(part) and len(bad) < limit:
            q = p if offset == 0 else p + ".rest"
            if offset:
                with open(q, "w") as f:
                    for st, evs in part[offset:]:
                        for e in evs:
                            f.write(json.dumps(e) + "\n")
                        f.write('{"e":"Reset"}\n')
            v = vf.validate_trace(TRACE_TLA, TRACE_CFG, q, tag="C17_val", xmx="2g")
            if v.error:
                raise vf.Infra("trace validation error: " + v.error)
            if v.accepted:
                return bad, v.states
            # which execution holds line maxl
            line = v.maxl - 1 if v.violated else v.maxl   # an invariant fails in the state AFTER the offending event
            acc = 0
            idx = None
            for j, (st, evs) in enumerate(part[offset:]):
                if line <= acc + len(evs) + 1:
                    idx = offset + j
                    break
                acc += len(evs) + 1
            if idx is None:
                raise vf.Infra("cannot locate rejected line %d" % line)
            bad.append((base + idx, v.violated or "unmatched", line - acc))
            offset = idx + 1
        return bad, 0
    res = []
    with cf.ThreadPoolExecutor(max_workers=8) as ex:
        for bad, states in ex.map(go, jobs):
            res += bad
    return res


def validate_all(ck, name, execs):
    """like validate_chunks, but finds EVERY rejected execution (used for the small re-run batches)"""
    return validate_chunks(ck, name, execs, 1, limit=len(execs))


def judge(ck, name, lines, preds, execs, rerun=True):
    """validate, re-run rejections alone, report; count drift against the model's prediction"""
    ck.evaluations += len(execs)
    bad = validate_chunks(ck, name, execs, 8)
    ok_n = len(execs) - len(bad)
    ck.traces += ok_n
    crashed = [i for i, (st, evs) in enumerate(execs) if any(e["e"] == "Crashed" for e in evs)]
    for i in crashed[:3]:
        rp = ck.save_replay("%s_crash_%d" % (name, i), {"case.txt": lines[i] + "\n"})
        ck.violation("client crashed (signal / abort) on case: " + lines[i], rp)
    drift = 0
    late = 0
    for i, (st, evs) in enumerate(execs):
        if any(e["e"] == "SLate" for e in evs):
            late += 1
        # observation (weaker reading, never a verdict): a connection that received surplus in a segment of its own after
        # the complete response, or while idle, and carried a later request all the same
        weak = set()
        for e in evs:
            if e["e"] in ("SLateSurplus", "SIdle"):
                weak.add(e["c"])
            elif e["e"] == "SReq" and e["c"] in weak:
                ck.weak_reused += 1
                weak.discard(e["c"])
        ck.weak_n += 1 if any(e["e"] in ("SLateSurplus", "SIdle") for e in evs) else 0
        kinds = set(e["e"] for e in evs)
        nontriv = "STaint" in kinds or any(e["e"] == "Ret" and e["res"] != "ok" for e in evs) or \
            sum(1 for e in evs if e["e"] == "CConn") > sum(1 for e in evs if e["e"] == "Call") or \
            sum(1 for e in evs if e["e"] == "Call") > 1
        if nontriv:
            ck.nt.add(lines[i])
        # the model resolves two races nondeterministically (close/RST at accept seen by connect() or by the exchange; which of
        # two concurrent callers gets the lease first): the continuation of such a script depends on the branch taken, so
        # its prediction is not compared; the same holds for surplus in a segment of its own (seen by the client or not)
        if preds is not None and preds[i] is not None and "acc_" not in lines[i] and "conc=1" not in lines[i] \
                and "ok_latesurplus" not in lines[i]:
            ob = observed(evs)
            if ob not in preds[i]:
                drift += 1
                if drift <= 3:
                    ck.note("model drift in %s: %s  predicted %s observed %s" % (name, lines[i], preds[i], ob))
    ck.nontrivial = len(ck.nt)
    ck.drift += drift
    ck.note("%s: %d executions, accepted by HttpRetryTrace %d, rejected %d, model drift %d, server-late (inconclusive for "
            "FramingNotRetried) %d" % (name, len(execs), ok_n, len(bad), drift, late))
    todo = bad[:6]
    again = {}
    need = {}
    if rerun and todo:
        # A rejection is reported only if it shows again when the case is re-run at low parallelism (TimeBound and
        # FramingNotRetried depend on timely scheduling).  A sequential case is deterministic: 3 re-runs, >= 2 repeats.
        # Two concurrent callers race for the lease by design: 10 re-runs, >= 1 repeat (the lease family starts its callers
        # in a fixed order: treated like a sequential case).
        relines, owner = [], []
        for j, (i, inv, line) in enumerate(todo):
            conc = "conc=1" in lines[i] and "lat=" not in lines[i]    # (with lat= the driver starts the callers in order)
            need[i] = 1 if conc else 2
            for k in range(10 if conc else 3):
                relines.append(lines[i])
                owner.append(j)
        ex2, _ = run_cases(ck, name + "_re", relines, par=4)
        b2 = dict((x, iv) for (x, iv, ln) in validate_all(ck, name + "_re", ex2))
        for x, j in enumerate(owner):
            i, inv, line = todo[j]
            if b2.get(x) == inv:
                again.setdefault(i, []).append(ex2[x][1])
    for (i, inv, line) in todo:
        st, evs = execs[i]
        why = "invariant %s of HttpRetryTrace.tla violated at event %d of the execution" % (inv, line)
        if rerun and len(again.get(i, [])) < need[i]:
            ck.note("rejection of %s (%s) did not repeat when re-run (%d of the re-runs): not reported (%s)" % (
                name, inv, len(again.get(i, [])), lines[i]))
            ck.flaky += 1
            continue
        if rerun:
            evs = again[i][0]
        rp = ck.save_replay("%s_%s_%d" % (name, inv, i), {
            "case.txt": lines[i] + "\n", "trace.ndjson": "\n".join(json.dumps(e) for e in evs) + "\n", "why.txt": why + "\n"})
        ck.classify({"spec": "HttpRetryTrace", "invariant": inv, "case_class": case_class(lines[i])},
                    "%s: %s   case: %s" % (inv, why, lines[i]), rp)
    return bad


def case_class(line):
    """the step kinds of a case without positions / offsets (signature of a finding, computed from the model's alphabet)"""
    parts = line.split("|")[1:]
    out = []
    for p in parts:
        w = p.split()
        out.append(w[0] + ":" + ",".join(sorted(set(re.sub(r"[@:].*", "", s) for s in (w[3] if len(w) > 3 else "").split(";")))))
    return " | ".join(out)


# ------------------------------------------------------------------------------------------------- self-tests
def selftest_trace_spec(ck):
    """corrupted traces must be rejected by the oracle, each by the invariant that states the broken clause"""
    B = {"e": "Begin", "x": "t", "reuse": 1, "ct": 200, "rt": 400, "conc": 0}
    E = {"e": "End", "hung": False}

    def call(r, m, b): return {"e": "Call", "r": r, "m": m, "b": b}
    def cc(c, r, mode="ok"): return {"e": "CConn", "c": c, "r": r, "mode": mode}
    def sr(c, r, n=100, full=True): return {"e": "SReq", "c": c, "r": r, "n": n, "full": full}
    def ta(c, why, r): return {"e": "STaint", "c": c, "why": why, "r": r}
    def ret(r, res="ok", ms=10, rt=None): return {"e": "Ret", "r": r, "res": res, "st": 200, "ms": ms, "rt": r if rt is None else rt}
    tests = [
        ("good", None, [B, call(1, "POST", 2), cc(1, 1, "refused"), cc(2, 1), sr(2, 1), ret(1), {"e": "SLateSurplus", "c": 2, "r": 1},
                        {"e": "SIdle", "c": 2}, call(2, "GET", 1), sr(2, 2), ta(2, "failure", 2), cc(3, 2), sr(3, 2), ret(2),
                        call(3, "GET", 0), sr(3, 3), ret(3, "framing", rt=0), E]),
        ("post twice on the wire", "AtMostOnce", [B, call(1, "POST", 2), cc(1, 1), sr(1, 1, 1, False), cc(2, 1), sr(2, 1), ret(1), E]),
        ("PATCH resent on a kept-alive connection", "AtMostOnce", [B, call(1, "GET", 0), cc(1, 1), sr(1, 1), ret(1),
                                                                    call(2, "PATCH", 1), sr(1, 2), cc(2, 2), sr(2, 2), ret(2), E]),
        ("lower-case get: twice on the wire and over budget", "AtMostOnce",
         [B, call(1, "get", 0), cc(1, 1), sr(1, 1), cc(2, 1), sr(2, 1), ret(1), E]),
        ("budget + 2 attempts", "AttemptBound", [B, call(1, "GET", 1), cc(1, 1, "refused"), cc(2, 1, "refused"), cc(3, 1), sr(3, 1), ret(1), E]),
        ("budget 5, a 7th attempt", "AttemptBound", [B, call(1, "GET", 5)] + [x for c in range(1, 8) for x in (cc(c, 1), sr(c, 1))] + [ret(1), E]),
        ("retry after framing error", "FramingNotRetried", [B, call(1, "GET", 2), cc(1, 1), sr(1, 1), ta(1, "framing", 1), cc(2, 1), sr(2, 1), ret(1), E]),
        ("reuse after close signal", "NoReuse", [B, call(1, "GET", 0), cc(1, 1), sr(1, 1), ta(1, "close_signal", 1), ret(1),
                                                 call(2, "GET", 0), sr(1, 2), ret(2), E]),
        ("reuse after surplus", "NoReuse", [B, call(1, "GET", 0), cc(1, 1), sr(1, 1), ta(1, "surplus", 1), ret(1),
                                            call(2, "POST", 0), sr(1, 2, 5, False), ret(2), E]),
        ("idle bytes taken as the response to the next request", "OwnResponse",
         [B, call(1, "GET", 0), cc(1, 1), sr(1, 1), ret(1), {"e": "SIdle", "c": 1}, call(2, "POST", 0), sr(1, 2), ret(2, rt=99), E]),
        ("surplus after the header block, connection reused", "NoReuse",
         [B, call(1, "GET", 0), cc(1, 1), sr(1, 1), ta(1, "surplus", 1), ret(1), call(2, "GET", 0), sr(1, 2), ret(2), E]),
        ("lease time-out 200 ms, first attempt 2.9 s after the call", "LeaseBound",
         [dict(B, lat=200, rt=3000, conc=1), call(1, "GET", 0), dict(cc(1, 0), t=5), dict(sr(1, 1), t=10), ta(1, "failure", 1),
          dict(call(2, "POST", 0), t=20), ret(1, "other", 3000), dict(cc(2, 0), t=3015), dict(sr(2, 2), t=3020), ret(2, "ok", 3010), E]),
        ("waits longer than its timeouts", "TimeBound", [B, call(1, "GET", 0), cc(1, 1), sr(1, 1), ret(1, "hung", 13000), E]),
    ]
    def go(job):
        i, (what, inv, evs) = job
        p = os.path.join(ck.work, "selftest%d.ndjson" % i)
        with open(p, "w") as f:
            for e in evs:
                f.write(json.dumps(e) + "\n")
            f.write('{"e":"Reset"}\n')
        return what, inv, vf.validate_trace(TRACE_TLA, TRACE_CFG, p, tag="C17_self", xmx="1g")
    with cf.ThreadPoolExecutor(max_workers=5) as ex:
        results = list(ex.map(go, list(enumerate(tests))))
    for what, inv, v in results:
        if v.error:
            raise vf.Infra("trace self-test error: " + v.error)
        if inv is None and not v.accepted:
            raise vf.Infra("self-test: HttpRetryTrace rejects a correct execution (%s)" % v.violated)
        if inv is not None and (v.accepted or v.violated != inv):
            raise vf.Infra("self-test: HttpRetryTrace must reject '%s' by %s, got accepted=%s violated=%s" % (
                what, inv, v.accepted, v.violated))
    ck.note("trace-spec self-test: 1 correct execution accepted, %d corrupted executions rejected by the expected invariant" % (len(tests) - 1))


def selftest_devs(ck):
    """every deviation flag must make TLC report the invariant that states the broken clause (no vacuous invariants)"""
    base = dict(name="dev", callers=[1], nreq=2, methods=["GET", "POST", "get"], budgets=[0, 1, 2], oktail=[OK], maxfk=1,
                reuse=True, idle=False,
                steps=[OK, S("ok_connclose"), S("ok_surplus", "cl"), S("ok_surplus", "cl", "h_bs"), S("ok_idle", "stale"),
                       S("ok_surplus", "cl0"), CONNSTEPS[0], CONNSTEPS[10],
                       S("ok_then_fin"), S("refused"), S("acc_rst"),
                       S("send_fail", "-", "zero"), S("req_close", "-", "first"), S("full_close"), S("silence"), S("bad", "cl_te")])

    # the clamped attempt counter only shows for budgets >= 5 (and makes the state space infinite: TLC stops at the violation)
    big = dict(base, name="devbig", budgets=[5, 6], methods=["GET"], nreq=1, steps=[OK, S("full_close")])

    lz = dict(base, name="devlease", callers=[1, 2], nreq=1, methods=["GET", "POST"], budgets=[0, 1], steps=[OK, S("silence")], lat=200)

    def go(dv):
        tla_path, cfg = write_mc(ck, big if dv == "Dev_BackoffClampsAttempt" else lz if dv == "Dev_LeaseWaitRestarts" else base,
                                 devs=[dv], emit=False, tag="_" + dv)
        return dv, tlc(tla_path, cfg, tag="C17_" + dv, workers=2, lib_dirs=[SPECDIR], xmx="2g")
    with cf.ThreadPoolExecutor(max_workers=5) as ex:
        for dv, r in ex.map(go, list(DEVS)):
            if r.violated != DEVS[dv]:
                raise vf.Infra("self-test: HttpRetry with %s = TRUE should violate %s, got %r %s" % (dv, DEVS[dv], r.violated, r.error))
            ck.states += r.distinct
            ck.transitions += r.generated
    ck.note("Impl self-test: each of %d Dev_* flags is caught by TLC with the expected invariant" % len(DEVS))


# ------------------------------------------------------------------------------------------------- the check
def tlc(*a, **kw):
    """run_tlc, repeated once when the JVM was killed from outside (shared machine)"""
    r = vf.run_tlc(*a, **kw)
    if r.error and r.rc in (137, 143, -9, -15):
        r = vf.run_tlc(*a, **kw)
    return r


def generate(ck, thorough, cfgs=None):
    main = cfgs is None
    cfgs = cfgs or configs(thorough)

    def go(c):
        tla_path, cfg = write_mc(ck, c)
        return c, tlc(tla_path, cfg, tag="C17_" + c["name"], workers=4, lib_dirs=[SPECDIR], coverage=main, xmx="4g", timeout=1200)
    with cf.ThreadPoolExecutor(max_workers=4) as ex:
        results = list(ex.map(go, cfgs))
    groups = []
    for c, r in results:
        if r.error:
            raise vf.Infra("TLC failed on configuration %s: %s" % (c["name"], r.error))
        ck.states += r.distinct
        ck.transitions += r.generated
        for a, (tk, gn) in r.coverage.items():
            ck.cov[a] = ck.cov.get(a, 0) + gn
        if r.violated:
            rp = ck.save_replay("impl_spec_" + c["name"], {"tlc.out": r.out[-20000:]})
            ck.violation("HttpRetry.tla (Impl, all Dev_* FALSE) violates %s in configuration %s" % (r.violated, c["name"]), rp)
            continue
        cases = {}
        for script in parse_prints(r):
            line, pred = case_of(script, c)
            cases.setdefault(line, [])
            if pred not in cases[line]:
                cases[line].append(pred)
        if not cases:
            raise vf.Infra("generator produced zero cases for configuration " + c["name"])
        keys = sorted(cases)
        if c.get("only_with"):       # quick tier: the cases in which the model takes the step this configuration is about
            keys = [k for k in keys if c["only_with"] in k]
            if not keys:
                raise vf.Infra("generator produced no case with %s in configuration %s" % (c["only_with"], c["name"]))
        total = len(keys)
        if c["take"] is not None and c["take"] < total:
            keys = ck.rng.sample(keys, c["take"])
        ck.note("TLC %s: %s -> %d distinct cases, %d run" % (c["name"], r.summary(), total, len(keys)))
        if c["name"] == "taint":
            for cls in ("@close", "@keep"):
                if not any(t.startswith("ok_conn:") and t.endswith(cls) for k in keys for w in k.split("|")[1:] for t in w.split()[3].split(";")):
                    raise vf.Infra("no Connection spelling is classified %s by the model" % cls)
        if c["take"] is None and not c.get("only_with"):
            used = set(re.sub(r"^(ok_conn:[^@]*)@.*", r"\1", t) for k in keys for w in k.split("|")[1:] for t in w.split()[3].split(";"))
            missing = [step_text(s) for s in c["steps"] if step_text(s) not in used]
            if missing:
                raise vf.Infra("generator produced no case with step(s) %s in configuration %s" % (missing, c["name"]))
        groups.append((c["name"], keys, [cases[k] for k in keys], total))
    for a in ACTIONS if main else []:
        if ck.cov.get(a, 0) == 0:
            raise vf.Infra("self-test: Impl action %s never taken in any configuration" % a)
    return groups


def sweep_config(m, reqlen, resplen):
    """thorough: the fault position over every byte offset of the request and of the response (position "#n")"""
    n = reqlen[m]
    steps = [OK]
    steps += [S("send_fail", "-", "#%d" % o) for o in range(0, n)]
    steps += [S(k, "-", "#%d" % o) for k in ("req_close", "req_rst", "send_short") for o in range(1, n)]
    for v in ("cl", "chunked"):
        steps += [S(k, v, "#%d" % o) for k in ("resp_close", "resp_rst", "resp_silence", "ok_split") for o in range(1, resplen[v])]
    return dict(name="sweep" + m, callers=[1], nreq=1, methods=[m], budgets=[1], steps=steps, oktail=[OK], maxfk=1,
                reuse=True, idle=False, take=None)


def run(ck):
    thorough = ck.tier == "thorough"
    ck.nt, ck.drift, ck.flaky, ck.weak_reused, ck.weak_n = set(), 0, 0, 0, 0
    ck.make("drv_httpretry")
    ck.rule = ("cases = terminal states of the TLC runs of HttpRetry.tla (every method x budget 0..2 x fault kind x position "
               "class for one request; sampled / all sequences of 2-3 requests, idle expiry, reuseConnections=false, two "
               "concurrent callers); each case is a per-attempt fault script executed by a scripted raw-socket server "
               "against the real HttpClient; thorough adds a sweep of the fault position over every byte offset of request "
               "and response. A case is non-trivial when it contains a failed attempt, a retry, a taint (close signal, "
               "surplus, close-delimited body) or a second request on the connection cache.")
    selftest_trace_spec(ck)
    selftest_devs(ck)
    groups = generate(ck, thorough)
    if ck.violations:
        return
    ck.note("self-tests + case generation: %.0fs" % (time.time() - ck.t0))
    only = [x for x in os.environ.get("C17_ONLY", "").split(",") if x]     # development aid: run some groups only
    for gi, (name, keys, preds, total) in enumerate(groups):
        if only and name not in only:
            continue
        t1 = time.time()
        execs, path = run_cases(ck, name, keys)
        t2 = time.time()
        judge(ck, name, keys, preds, execs)
        ck.note("%s: driver %.0fs, validation %.0fs" % (name, t2 - t1, time.time() - t2))
        if name == "lease":
            oth = sum(e.get("oth", 0) for st, evs in execs for e in evs if e["e"] == "End")
            gaveup = sum(1 for st, evs in execs if any(e["e"] == "Ret" and e["r"] == 2 and e["res"] != "ok" for e in evs)
                         and not any(e["e"] == "SReq" and e["r"] == 2 for e in evs))
            if oth == 0:
                raise vf.Infra("lease family is vacuous: no other-host exchange completed while callers waited for the lease")
            ck.note("lease: %d other-host exchanges completed while callers waited for the lease; in %d of %d executions the "
                    "second caller failed without putting a byte on the wire" % (oth, gaveup, len(execs)))
        # evidence sample: the first execution of the group with a retry or a taint
        j = next((i for i, (st, evs) in enumerate(execs) if any(e["e"] == "STaint" for e in evs) or
                  sum(1 for e in evs if e["e"] == "CConn") > sum(1 for e in evs if e["e"] == "Call")), 0)
        ck.sample({"case": keys[j], "predicted": preds[j], "events": [dict((k, v) for k, v in e.items() if k != "t")
                                                                      for e in execs[j][1][:24]]})
    ck.exhaustive = all(len(keys) == total for name, keys, preds, total in groups)
    if thorough:
        head = "reuse=1 rt=%d idle=0 conc=0 | " % RT
        execs, _ = run_cases(ck, "lens", [head + "GET 0 0 ok:cl", head + "POST 0 0 ok:cl"], par=2)
        reqlen = {}
        for m, (st, evs) in zip(("GET", "POST"), execs):
            for e in evs:
                if e["e"] == "SReq" and e["full"]:
                    reqlen[m] = e["n"]
        if "GET" not in reqlen or "POST" not in reqlen:
            raise vf.Infra("request lengths not observed")
        lens_path = os.path.join(ck.work, "lens.json")
        rc, out = vf.run_driver("drv_httpretry", ["lens", lens_path])
        resplen = json.load(open(lens_path))["resp"]
        sweeps = generate(ck, thorough, [sweep_config(m, reqlen, resplen) for m in ("GET", "POST")])
        for name, keys, preds, total in sweeps:
            if only and "sweep" not in only:
                continue
            execs, path = run_cases(ck, name, keys)
            judge(ck, name, keys, preds, execs)
        ck.note("byte-offset sweep: request lengths %s, response lengths %s, %d cases" % (
            {m: reqlen[m] for m in ("GET", "POST")}, resplen, sum(len(k) for n_, k, p_, t_ in sweeps)))
    ck.note("observation (weaker reading, no verdict): in %d of %d executions with surplus in a segment of its own after the "
            "complete response / while the connection was idle, that connection carried a later request (answered by its own "
            "response, OwnResponse holds)" % (ck.weak_reused, ck.weak_n))
    if ck.drift:
        ck.note("model drift total: %d executions differ from the Impl prediction but are accepted by the Abs oracle" % ck.drift)
    if ck.flaky > 5:
        raise vf.Infra("%d rejections did not repeat when re-run at low parallelism: machine too loaded for a verdict" % ck.flaky)


def replay(ck, path):
    """re-run one saved case against the current tree and re-validate it"""
    ck.nt, ck.drift, ck.flaky, ck.weak_reused, ck.weak_n = set(), 0, 0, 0, 0
    ck.make("drv_httpretry")
    line = open(os.path.join(path, "case.txt")).read().strip()
    execs, p = run_cases(ck, "replay", [line], par=1)
    print(open(p).read())
    judge(ck, "replay", [line], None, execs, rerun=False)
