"""X02 (extra, not in MANIFEST.json) — iora::network::CircuitBreaker as a transcribed state machine: CircuitBreaker.tla is
model-checked, every transition of its state graph is replayed on the real object under virtual time and the recorded
operations + observable state are validated against CircuitTrace.tla (the specification's own actions decide)."""
import os, json
import vf
SPECDIR = os.path.join(vf.SPEC, "extra")
OP = {"Allow": "A", "Success": "S", "Failure": "F", "Tick": "T"}


def run(ck):
    ck.make("drv_s_circuit")
    ck.rule = "every edge of the TLC state graph of CircuitBreaker.tla replayed on the real object; distinct = distinct operation sequences"
    dot = os.path.join(ck.work, "g.dot")
    r = vf.run_tlc(os.path.join(SPECDIR, "CircuitBreaker.tla"), os.path.join(SPECDIR, "CircuitBreaker.cfg"), tag="X02", workers=4,
                   coverage=True, dump_dot=dot, timeout=600)
    if r.error:
        raise vf.Infra("TLC failed: " + r.error)
    ck.states += r.distinct; ck.transitions += r.generated
    if r.violated:
        ck.violation("CircuitBreaker.tla violates %s" % r.violated, ck.save_replay("impl", {"tlc.out": r.out})); return
    g = vf.Graph.load(dot); os.remove(dot)
    paths, covered, total = g.transition_cover(ck.rng, maxlen=40)
    ck.note("CircuitBreaker.tla: %s; %d behaviours cover %d/%d edges" % (r.summary(), len(paths), covered, total))
    lines = [" ".join(OP[vf.label_thread(l)[0]] for l in p) for p in paths]
    cp = os.path.join(ck.work, "cases.txt"); open(cp, "w").write("\n".join(lines) + "\n")
    outp = os.path.join(ck.work, "cb.ndjson")
    rc, out = vf.run_driver("drv_s_circuit", ["run", cp, outp], timeout=900)
    if rc != 0:
        raise vf.Infra("drv_s_circuit failed: " + out[-1000:])
    events = vf.read_ndjson(outp); execs = vf.split_executions(events)
    ck.evaluations += len(execs); ck.nontrivial = len(set(lines))
    v = ck.validate(os.path.join(SPECDIR, "CircuitTrace.tla"), os.path.join(SPECDIR, "CircuitTrace.cfg"), outp, n_exec=len(execs))
    ck.sample({"kind": "circuit breaker behaviour", "ops": lines[0], "events": execs[0][1][:8]})
    if not v.accepted:
        x = vf.exec_index_of_line(events, v.maxl)
        rp = ck.save_replay("reject_%d" % x, {"trace.ndjson": "\n".join(json.dumps(e) for e in execs[x][1]) + "\n", "case.txt": lines[x] + "\n"})
        ck.violation("circuit breaker: the object's state differs from CircuitBreaker.tla at %s (ops: %s)" % (json.dumps(events[v.maxl - 1]), lines[x]), rp)


def replay(ck, path):
    run(ck)
