"""C02 — every session gets exactly one close; nothing before announce or after close.

Close fan-out (transport layer)
  1. TLC checks spec/transport/Fanout.tla (Impl of Transport::Impl::onClose: global, copied observers in registration order,
     user-data cleanup last) against concurrent Observe / Unobserve / SetData: Order, AllStillRegisteredCalled.  Self-test:
     CopyThenIterate = FALSE must violate.
  2. Programs with observers and user data registered / removed while the I/O thread closes the session run on the real
     Transport over the scripted engine under seeded random schedules and preemption-bounded DFS; validated against
     TransportTrace.tla (global first, still-registered observers exactly once in registration order, cleanup once and last).
Engines (real TcpEngine and UdpEngine over loopback)
  3. Scenario scripts (accept, peer FIN / RST, application close, connect to own listener, refused connect, sends, stop, and a
     connect issued inside shutdownDrain's window with the I/O thread paused at the rwlock it takes there) with all callbacks
     logged on the I/O thread together with the open-sessions gauge; validated against LifecycleTrace.tla (exactly one close
     per identifier the application saw, none missing after an orderly stop, data only between announce and close,
     identifiers never reused, gauge never under-counts and ends at zero).
"""
import os, json, concurrent.futures as cf
import vf
from checks import transport_common as tc

SPECDIR = tc.SPECDIR


def nontrivial(evs):
    return any(e["e"] in ("Obs", "Cleanup") for e in evs) and any(e["e"] in ("UnobserveRet",) for e in evs) or \
        sum(1 for e in evs if e["e"] == "Obs") >= 2


FAN = [
    "8 | io=accept:1,waitflag:s,close:1 ; main=observe:1:o1,observe:1:o2,setdata:1:d1,setflag:s ; a=waitflag:s,unobserve:o1 ; b=waitflag:s,observe:1:o3",
    "8 | io=accept:1,accept:2,waitflag:s,close:2,close:1 ; main=observe:1:o1,observe:2:p1,observe:1:o2,setdata:2:d2,setflag:s ; a=waitflag:s,unobserve:o2,unobserve:p1",
    "8 | io=accept:1,data:1:2,waitflag:s,close:1 ; main=observe:1:o1,setdata:1:d1,observe:1:o2,observe:1:o3,setflag:s,close:1 ; a=waitflag:s,unobserve:o2 ; b=waitflag:s,setdata:1:d9",
    "8 | io=accept:1,waitflag:s ; main=observe:1:o1,observe:1:o2,setdata:1:d1,setflag:s,stop ; a=waitflag:s,unobserve:o1,observe:1:o4",
    "8 | io=accept:1,close:1 ; main=sleep:1,observe:1:late,setdata:1:dl,sleep:2",
    # registration changes made from INSIDE the global close callback take effect before the observer phase
    "8 | io=accept:1,waitflag:s,close:1 ; main=observe:1:o1,observe:1:o2,observe:1:o3,setdata:1:d1,setflag:s ; gcb=unobserve:o2,observe:1:o4",
    "8 | io=accept:1,accept:2,waitflag:s,close:1,close:2 ; main=observe:1:o1,observe:2:p1,setflag:s ; gcb=unobserve:o1,unobserve:p1,observe:2:p2 ; a=waitflag:s,observe:2:p3",
    # nothing is delivered after the close: bytes left unread by a Sync phase stay with late synchronous readers, a switch to
    # Async after (or racing) the close must not hand them to the data callback once the close is through
    "8 | io=accept:1,waitflag:s,data:1:3,close:1,setflag:d ; main=observe:1:o1,setdata:1:d1,mode:1:sync,setflag:s,waitflag:d,mode:1:async,recv:1:8:200",
    "8 | io=accept:1,waitflag:s,data:1:3,setflag:d,close:1 ; main=observe:1:o1,observe:1:o2,mode:1:sync,setflag:s,waitflag:d,mode:1:async ; a=waitflag:d,unobserve:o1,mode:1:async",
]

LIFE = [
    "tcp | listen,peer:1,psend:1:10,peer:2,pclose:1,aclose:2,connect:self,connect:refused,wait:50,stop",
    "tcp | listen,peer:1,preset:1,peer:2,asend:1:20,peer:3,pclose:3,wait:20",
    "tcp | listen,connect:self,asend:1:100,asend:2:50,aclose:1,wait:30,connect:self,stop",
    "tcp | listen,peer:1,windowconnect",
    "tcp | connect:refused,connect:refused,wait:100",
    "udp | listen,peer:1,psend:1:10,peer:2,aclose:1,psend:2:5,psend:1:3,stop",
    "udp | listen,peer:1,windowconnect",
    "udp | listen,peer:1,peer:2,peer:3,aclose:2,psend:2:4,psend:3:1,wait:20",
    # a reconnect-on-close handler: connects issued from inside close callbacks, also those fired while the engine drains
    "tcp | listen,peer:1,peer:2,reconnect:12,pclose:1,wait:60,windowconnect",
    "tcp | listen,reconnect:3,connect:self,aclose:1,wait:80,stop",
    "udp | listen,peer:1,reconnect:9,aclose:1,wait:60,windowconnect",
    # a connect accepted while the I/O thread is busy in a slow callback, then stop(): the command is processed after _running
    # has been cleared - the identifier still gets its close
    "tcp | listen,peer:1,busy:300,psendnow:1:4,connectnow,stop",
    "udp | listen,peer:1,busy:300,psendnow:1:4,connectnow,stop",
    # UDP: a second session to a peer that already has one (connect-via-listener); gauge sampled while both are open
    "udp | listen,peer:1,via:1,psend:1:3,gauge,aclose:2,wait:40,gauge,aclose:1,wait:40,gauge",
    "udp | listen,peer:1,peer:2,via:2,via:1,gauge,stop",
]


# the real engines UNDER THE SCHEDULER (harness/drv_sio_engine.cpp, oracle EngineTrace.tla): closes from several sides racing
# each other - the peer's FIN / datagrams, the application's close from two threads, sends on a closing session, stop
ENGINE_LIFE = [
    "main=listen,peer:1,waitn:1,setflag:g,pclose:1 ; a=waitflag:g,close:1 ; b=waitflag:g,send:1:5,close:1",
    "main=listen,peer:1,peer:2,waitn:2,setflag:g,psend:1:4,pclose:2,psend:1:4 ; a=waitflag:g,close:2,send:1:3 ; b=waitflag:g,close:1,close:2",
    "main=listen,connect,waitn:2,setflag:g,close:1 ; a=waitflag:g,close:2,send:1:2 ; b=waitflag:g,send:2:7,close:1",
    "main=listen,setflag:g,connect,close:0,connect ; a=waitflag:g,connect,close:0,close:0 ; b=waitflag:g,peer:1,psend:1:3,pclose:1",
    # connects the kernel refuses inside the system call (no session is ever created): still exactly one close each
    "main=listen,connectto:224.0.0.1,connectto:255.255.255.255,connect,connectto:239.1.2.3,waitn:1,close:0 ; a=connectto:224.0.0.1,close:0",
]


def engine_nontrivial(evs):
    return sum(1 for e in evs if e["e"] in ("CloseCall", "Close")) >= 2


def run(ck):
    thorough = ck.tier == "thorough"
    ck.make(tc.DRV, "drv_lifecycle", tc.ENGINE_DRV)
    ck.rule = ("fan-out: observer/user-data registration programs racing the close on the real Transport (scripted engine, "
               "scheduler); engines: life-cycle scenario scripts on the real TCP/UDP engines over loopback; non-trivial = an "
               "observer was removed or two or more observers ran; for engine scenarios every execution counts")
    tla_path = os.path.join(SPECDIR, "Fanout.tla")
    jobs = [("code", True), ("nocopy", False)]

    def go(job):
        name, copy = job
        cfg = os.path.join(ck.work, name + ".cfg")
        vf.write_cfg(cfg, constants={"Tags": '{"o1", "o2", "o3"}', "CopyThenIterate": copy}, invariants=["Order", "AllStillRegisteredCalled"])
        return job, vf.run_tlc(tla_path, cfg, tag="C02_" + name, workers=4, coverage=copy, timeout=900)
    with cf.ThreadPoolExecutor(max_workers=2) as ex:
        res = list(ex.map(go, jobs))
    for (name, copy), r in res:
        if r.error:
            raise vf.Infra("TLC failed on Fanout %s: %s" % (name, r.error))
        ck.states += r.distinct
        ck.transitions += r.generated
        if not copy:
            if r.violated not in ("Order", "AllStillRegisteredCalled"):
                raise vf.Infra("self-test: Fanout.tla with CopyThenIterate=FALSE should violate, got %r" % r.violated)
            continue
        for a, (tk, gn) in r.coverage.items():
            ck.cov[a] = ck.cov.get(a, 0) + gn
        ck.note("Fanout.tla: %s" % r.summary())
        if r.violated:
            rp = ck.save_replay("impl_fanout", {"tlc.out": r.out})
            ck.violation("Fanout.tla (the design the code follows) violates %s" % r.violated, rp)
    for a in ["Observe", "Unobserve", "SetData", "CloseBegin", "Global", "CopyObs", "CallObs", "ObsDone", "Cleanup"]:
        if ck.cov.get(a, 0) == 0:
            raise vf.Infra("self-test: Fanout action %s never taken" % a)
    nsched = 200 if thorough else 40
    lines = []
    for i, p in enumerate(FAN):
        for k in range(nsched):
            lines.append("%s | random %d" % (p, ck.seed * 31337 + i * 977 + k))
    tc.run_cases(ck, lines, "fanout", nontrivial)
    for j, p in enumerate(FAN[:2] + FAN[-1:] if not thorough else FAN):
        tc.run_dfs(ck, p, 2 if thorough else 1, 30000 if thorough else 1500, "dfs%d" % j, nontrivial)
    # real engines under the scheduler
    kw = dict(drv=tc.ENGINE_DRV, spec="EngineTrace")
    elines = []
    for proto in ("tcp", "udp", "tcpb"):
        for pi, p in enumerate(ENGINE_LIFE):
            for k in range((80 if thorough else 12) if proto != "tcpb" else (20 if thorough else 4)):
                elines.append("%s | %s | %s %d" % (proto, p, "random" if k % 3 else "randomt", ck.seed * 8009 + pi * 211 + k))
    tc.run_cases(ck, elines, "engine_life", engine_nontrivial, **kw)
    for j, (proto, pi) in enumerate([("tcp", 0), ("udp", 2)] if not thorough else [("tcp", 0), ("udp", 2), ("tcp", 1), ("tcp", 3)]):
        tc.run_dfs(ck, "%s | %s" % (proto, ENGINE_LIFE[pi]), 1 if not thorough else 2, 10000 if thorough else 400, "engine_dfs%d" % j,
                   engine_nontrivial, **kw)
    # real engines, real time
    reps = 4 if thorough else 1
    cases = LIFE * reps
    cp = os.path.join(ck.work, "life_cases.txt")
    open(cp, "w").write("\n".join(cases) + "\n")
    outp = os.path.join(ck.work, "life.ndjson")
    rc, out = vf.run_driver("drv_lifecycle", ["run", cp, outp, 8], timeout=900)
    if rc != 0:
        raise vf.Infra("drv_lifecycle failed: " + out[-1500:])
    events = vf.read_ndjson(outp)
    if any(e["e"] in ("SetupFailed", "HarnessTimeout") for e in events):
        raise vf.Infra("drv_lifecycle could not set a scenario up: " + out[-500:])
    execs = vf.split_executions(events)
    ck.evaluations += len(execs)
    keys = getattr(ck, "keys", set())
    for start, evs in execs:
        keys.add(json.dumps([[e["e"], e.get("s")] for e in evs]))
    ck.keys = keys
    ck.nontrivial = len(keys)
    crashed = [i for i, (s, evs) in enumerate(execs) if any(e["e"] == "Crashed" for e in evs)]
    if crashed:
        rp = ck.save_replay("life_crash", {"case.txt": cases[crashed[0]] + "\n"})
        ck.violation("real engine scenario crashed: %s" % cases[crashed[0]], rp)
        return
    v = ck.validate(os.path.join(SPECDIR, "LifecycleTrace.tla"), os.path.join(SPECDIR, "LifecycleTrace.cfg"), outp, n_exec=len(execs))
    ck.sample({"kind": "real engine life cycle", "case": cases[0], "events": execs[0][1][:14]})
    if not v.accepted:
        x = vf.exec_index_of_line(events, v.maxl)
        start, evs = execs[min(x, len(execs) - 1)]
        bad_ev = events[v.maxl - 1] if v.maxl <= len(events) else {}
        rp = ck.save_replay("life_reject_%d" % x, {"trace.ndjson": "\n".join(json.dumps(e) for e in evs) + "\n", "case.txt": cases[x] + "\n",
                                                  "why.txt": "LifecycleTrace.tla cannot match event %d: %s\n" % (v.maxl - start + 1, json.dumps(bad_ev))})
        ck.classify({"spec": "LifecycleTrace", "event": bad_ev.get("e")},
                    "real engine execution not explainable by the Abs session life cycle (%s): first unmatched event %s" % (cases[x], json.dumps(bad_ev)), rp)


def replay(ck, path):
    case = open(os.path.join(path, "case.txt")).read().strip()
    if (case.startswith("tcp") or case.startswith("udp")) and case.count("|") == 1:
        ck.make("drv_lifecycle")
        cp = os.path.join(ck.work, "case.txt"); open(cp, "w").write(case + "\n")
        outp = os.path.join(ck.work, "replay.ndjson")
        vf.run_driver("drv_lifecycle", ["run", cp, outp, 1])
        v = ck.validate(os.path.join(SPECDIR, "LifecycleTrace.tla"), os.path.join(SPECDIR, "LifecycleTrace.cfg"), outp)
        if not v.accepted:
            ck.violation("replayed scenario rejected at line %d" % v.maxl, path)
        return
    tc.replay(ck, path, nontrivial)
