"""C09 — every accepted task runs exactly once before pool shutdown completes.

1. TLC checks spec/pool/ThreadPool.tla (Impl, one action per critical section) exhaustively for a list of small programs
   (submitters x owner life-cycle): ThreadCap, ExactlyOnce, RanOnlyAccepted, StopComplete, NoJoinableLeft, NoStuck.
   Self-test: with SpawnReserves = FALSE (the code before the fix) TLC must find the ThreadCap violation.
2. The same programs run on the real iora::core::ThreadPool under the deterministic scheduler: all schedules with a
   bounded number of preemptions (stateless DFS) and seeded random schedules; every recorded execution
   (SubmitCall/Ret, TaskRun/End, Count, LifeCall/Ret, Future, End) is validated by TLC against the Abs oracle
   spec/pool/PoolTrace.tla.  A crashed execution (std::terminate, sanitizer) or a stuck one is a violation.
"""
import os, json, concurrent.futures as cf
import vf

SPECDIR = os.path.join(vf.SPEC, "pool")
INVS = ["ThreadCap", "ExactlyOnce", "RanOnlyAccepted", "StopComplete", "NoJoinableLeft", "NoStuck", "AcceptedOrRefused"]


def S(*ops):
    out = []
    for o in ops:
        f = o.split(":")
        out.append((f[0], int(f[1]) if len(f) > 1 else 0, f[2] if len(f) > 2 else "n"))
    return out


# (initial, max, cap, idleMs, life, submitters)
QUICK = [
    (1, 2, 2, 30000, ["join"], dict(s1=S("try:1", "count"), s2=S("try:2", "count"))),
    (1, 2, 2, 30000, ["stop", "join"], dict(s1=S("try:1", "fut:2:t"), s2=S("enq:3:s", "count"))),
    (1, 2, 1, 30000, ["drain", "join", "stop"], dict(s1=S("try:1", "try:2"), s2=S("fut:3"))),
    (1, 3, 2, 50, ["idle", "count", "join"], dict(s1=S("try:1:p", "try:2", "try:3"), s2=S("try:4", "count"))),
    (2, 2, 1, 30000, ["join", "stop"], dict(s1=S("enq:1", "enq:2", "enq:3"))),
    # stop -> reset -> start on a pool whose initial size is its maximum, a submission at any moment of the cycle
    (2, 2, 2, 30000, ["stop", "restart", "join"], dict(s1=S("try:1", "fut:2"))),
    # ... and on a pool that grows: a submitter may still hold a worker-slot reservation when the pool is stopped, reset and started
    (1, 2, 3, 30000, ["stop", "restart", "join"], dict(s1=S("try:1"), s2=S("try:2", "try:3"))),
]
THOROUGH = QUICK + [
    (1, 2, 2, 30000, ["stop"], dict(s1=S("try:1"), s2=S("try:2"), s3=S("try:3", "count"))),
    (1, 2, 2, 50, ["join", "idle", "count", "stop"], dict(s1=S("fut:1:t", "fut:2"), s2=S("try:3:s"))),
    (0, 2, 2, 30000, ["drain", "stop", "join"], dict(s1=S("try:1:p", "count"), s2=S("enq:2", "count"))),
    (1, 1, 1, 30000, ["join"], dict(s1=S("try:1", "try:2", "try:3", "count"))),
]


def prog_text(life, subs):
    parts = ["main=" + ",".join(life)]
    for s, ops in subs.items():
        parts.append(s + "=" + ",".join(o if o == "count" else "%s:%d:%s" % (o, i, k) for o, i, k in ops))
    return ";".join(parts)


def gen_mc(ck, idx, case, reserves=True):
    init, maxt, cap, idle, life, subs = case
    d = os.path.join(ck.work, "mc%d%s" % (idx, "" if reserves is True else str(reserves)))
    os.makedirs(d, exist_ok=True)
    tprog = {s: [vf.Rec(api=o, id=i, kind=(k if k in "nts" else "n")) for o, i, k in ops if o != "count"] for s, ops in subs.items()}
    mlife = [x for x in life if x in ("join", "drain", "stop", "restart")]
    with open(os.path.join(d, "MCPool.tla"), "w") as f:
        f.write("---- MODULE MCPool ----\nEXTENDS ThreadPool\n")
        f.write("MCSubs == %s\nMCProg == %s\nMCLife == %s\n====\n" % (vf.tla(set(subs)), vf.tla(tprog), vf.tla(mlife)))
    cfg = os.path.join(d, "MCPool.cfg")
    ntasks = sum(len(v) for v in tprog.values())
    vf.write_cfg(cfg, constants={"Init0": init, "MaxT": maxt, "QCap": cap, "Subs": "<- MCSubs", "Prog": "<- MCProg",
                                 "Life": "<- MCLife", "MaxW": init + ntasks + 1 + init * sum(1 for x in life if x == "restart"),
                                 "SpawnReserves": reserves is not False,
                                 "DtorJoinsAfterStop": reserves != "nodtorjoin", "RecheckShutdown": reserves != "norecheck",
                                 "RestartSpawnsFirst": reserves == "restartspawnsfirst", "RestartReserves": reserves != "norestartreserve",
                                 "ResetKeepsGate": reserves != "resetopensgate", "ResetKeepsPending": reserves != "resetzeroespending"},
                 invariants=INVS)
    return os.path.join(d, "MCPool.tla"), cfg


def run(ck):
    thorough = ck.tier == "thorough"
    ck.make("drv_s_pool")
    cases = THOROUGH if thorough else QUICK
    ck.rule = ("programs (submitters + owner life-cycle) are model-checked on ThreadPool.tla and executed on the real pool under "
               "the deterministic scheduler (preemption-bounded DFS + seeded random schedules); distinct = distinct event "
               "sequences; non-trivial = a submission overlapped stop/drain, was refused, spawned a worker, or a worker idled out")

    def mc(job):
        idx, case, reserves = job
        tla_path, cfg = gen_mc(ck, idx, case, reserves)
        return job, vf.run_tlc(tla_path, cfg, tag="C09_mc%d%s" % (idx, reserves), workers=3, lib_dirs=[SPECDIR], coverage=(reserves is True),
                               timeout=1200)
    jobs = [(i, c, True) for i, c in enumerate(cases)] + [(0, cases[0], False), (1, cases[1], "nodtorjoin"), (1, cases[1], "norecheck"),
                                                          (5, cases[5], "restartspawnsfirst"), (5, cases[5], "norestartreserve"),
                                                          (5, cases[5], "resetopensgate"), (6, cases[6], "resetzeroespending")]
    with cf.ThreadPoolExecutor(max_workers=5) as ex:
        results = list(ex.map(mc, jobs))
    for (idx, case, reserves), r in results:
        if r.error:
            raise vf.Infra("TLC failed on pool program %d: %s" % (idx, r.error))
        ck.states += r.distinct
        ck.transitions += r.generated
        if reserves is False:
            if r.violated != "ThreadCap":
                raise vf.Infra("self-test: ThreadPool.tla with SpawnReserves=FALSE should violate ThreadCap, got %r" % r.violated)
            continue
        if reserves == "nodtorjoin":
            if r.violated != "NoJoinableLeft":
                raise vf.Infra("self-test: ThreadPool.tla with DtorJoinsAfterStop=FALSE should violate NoJoinableLeft, got %r" % r.violated)
            continue
        if reserves in ("resetopensgate", "resetzeroespending"):
            want = ("StopComplete", "RanOnlyAccepted", "NoStuck") if reserves == "resetopensgate" else ("ThreadCap",)
            if r.violated not in want:
                raise vf.Infra("self-test: ThreadPool.tla with %s should violate %s, got %r" % (reserves, want[0], r.violated))
            continue
        if reserves == "norestartreserve":
            if r.violated != "ThreadCap":
                raise vf.Infra("self-test: ThreadPool.tla with RestartReserves=FALSE should violate ThreadCap, got %r" % r.violated)
            continue
        if reserves == "restartspawnsfirst":
            if r.violated not in ("NoStuck", "StopComplete"):
                raise vf.Infra("self-test: ThreadPool.tla with RestartSpawnsFirst=TRUE should violate NoStuck, got %r" % r.violated)
            continue
        if reserves == "norecheck":
            if r.violated not in ("StopComplete", "NoJoinableLeft", "NoStuck"):
                raise vf.Infra("self-test: ThreadPool.tla with RecheckShutdown=FALSE should violate StopComplete, got %r" % r.violated)
            continue
        for a, (tk, gn) in r.coverage.items():
            ck.cov[a] = ck.cov.get(a, 0) + gn
        ck.note("program %d (%s): %s" % (idx, prog_text(case[4], case[5]), r.summary()))
        if r.violated:
            rp = ck.save_replay("impl_spec_%d" % idx, {"tlc.out": r.out, "program.txt": prog_text(case[4], case[5])})
            ck.classify({"spec": "ThreadPool", "invariant": r.violated}, "ThreadPool.tla violates %s for program %s" % (
                r.violated, prog_text(case[4], case[5])), rp)
    for a in ["SChk", "SCrit", "SSpawn", "WTake", "WStart", "WFinish", "WExitShutdown", "WIdleExit", "MJoinSubs",
              "MDrainBegin", "MDrainPoll", "MSdSet", "MSdPoll", "MJoin", "MDestroy", "MRestartBegin", "MRestartClear", "MRestartOpen",
              "MRestartSpawn"]:
        if ck.cov.get(a, 0) == 0:
            raise vf.Infra("self-test: Impl action %s never taken" % a)
    # ---- real pool: random schedules
    lines = []
    nrand = 1500 if thorough else 240
    for i in range(nrand):
        init, maxt, cap, idle, life, subs = cases[i % len(cases)]
        lines.append("%d %d %d %d | %s | random %d" % (init, maxt, cap, idle, prog_text(life, subs), ck.seed * 7919 + i))
    # directed probes: the TLC counterexamples of the two deviation flags, translated to run-until plans
    #   NoJoinableLeft (DtorJoinsAfterStop=FALSE): SChk(s1) SCrit(s1) WTake WStart WFinish MDrainBegin MDrainPoll MSdSet
    #   WExitShutdown MSdPoll MJoin SSpawn(s1) MJoinSubs MDestroy  -> the late worker must be joined by the destructor
    lines.append("1 2 2 30000 | main=stop,join;s1=try:1:n | replay main*point:call s1*create main*sleep w1* main*join w1* main main*join s1* main*")
    #   ThreadCap (SpawnReserves=FALSE): SChk(s1) SCrit(s1) SChk(s2) SCrit(s2) SSpawn(s1) SSpawn(s2)
    lines.append("1 2 2 30000 | main=join;s1=try:1:n,count;s2=try:2:n,count | replay main*point:call s1*create s2*create s1* s2*")
    #   StopComplete (RecheckShutdown=FALSE): SChk(s1) MDrainBegin MDrainPoll MSdSet WExitShutdown MSdPoll MJoin SCrit(s1): a submitter that
    #   passed the lock-free checks is held right before it takes the mutex while stop() runs to completion
    lines.append("1 2 2 30000 | main=stop,join;s1=try:1:n | replay main*point:call s1*lock w1* main main*point:call w1* main*point:call w1* main*point:call s1* w2* main* w2* main*")
    lines.append("1 2 2 30000 | main=stop,join;s1=enq:1:n,fut:2:n | replay main*point:call s1*lock w1* main main*point:call w1* main*point:call w1* main*point:call s1* w2* main* w2* main*")
    ck.sample({"kind": "directed probe (TLC counterexample of DtorJoinsAfterStop=FALSE)", "case": lines[-4]})
    #   ResetKeepsGate=FALSE: the same submitter is held until reset() has returned too (the pool is then Reset, not restarted: refused)
    lines.append("1 2 2 30000 | main=stop,reset,join;s1=try:1:n | replay main*point:call s1*lock w1* main main*point:call w1* main*point:call w1* main*point:call main main*point:call s1* w2* main* w2* main*")
    lines.append("1 2 2 30000 | main=stop,reset,join,start,join;s1=try:1:n | replay main*point:call s1*lock w1* main main*point:call w1* main*point:call w1* main*point:call main main*point:call s1* w2* main* w2* main*")
    #   ResetKeepsPending=FALSE: a submitter that has reserved a worker slot is held before it creates the thread until the pool has
    #   been stopped, reset and started again; it then registers its worker and the restarted pool is loaded
    lines.append("1 2 3 30000 | main=stop,reset,start,join,count;s1=try:1:n;s2=try:2:n,try:3:n,count | replay main*point:call s1*create w1* main main*point:call w1* main*point:call w1* main*point:call main main*point:call main main*point:call s1* s2* main*")
    # idle exits racing submissions: a lazily growing pool (0 initial workers, at most 1) and timed waits that may expire while
    # submitters are runnable
    for i in range(120 if thorough else 40):
        lines.append("0 1 2 50 | main=join;s1=try:1:n,sleep:60,try:2:n,sleep:60,try:3:n | randomt %d" % (ck.seed * 4099 + i))
        lines.append("1 2 2 50 | main=join,count;s1=try:1:p,sleep:80,fut:2:n;s2=sleep:70,try:3:n | randomt %d" % (ck.seed * 4111 + i))
    # life-cycle cycles and long tasks (real pool only, judged by PoolTrace.tla): stop -> reset -> start with a submission after the
    # restart on a pool whose initial size is its maximum (a worker lost during start() cannot be replaced); tasks that outlast
    # stop()'s bounded polling while a worker is being added (stop() must still wait for them)
    EXTRA = ["2 2 2 30000 | main=restart,count,join,count ; s1=sleep:200,fut:1:n,count,try:2:n,count",
             "1 1 2 30000 | main=restart,restart,join ; s1=sleep:400,fut:1:n",
             "1 2 2 30000 | main=stop,join ; s1=try:1:l,try:2:l",
             "1 2 2 30000 | main=join,stop ; s1=try:1:l,fut:2:l ; s2=try:3:n"]
    # (executions of these programs cost a fraction of a millisecond each; the window of the long-task program - the spawner
    # held between creating and registering its worker until stop() has set the shutdown flag - is hit about once in 200)
    for p, n in zip(EXTRA, (150, 150, 3000, 600)):
        for i in range(n * 4 if thorough else n):
            lines.append("%s | %s %d" % (p, "random" if i % 3 else "randomt", ck.seed * 4127 + i))
    cp = os.path.join(ck.work, "cases.txt")
    open(cp, "w").write("\n".join(lines) + "\n")
    outp = os.path.join(ck.work, "pool.ndjson")
    rc, out = vf.run_driver("drv_s_pool", ["run", cp, outp, 16], timeout=1200)
    if rc != 0:
        raise vf.Infra("drv_s_pool failed: " + out[-2000:])
    judge(ck, outp, lines, "random")
    # did the directed probes reach their window?  (recorded, not demanded: a changed tree may take other steps)
    execs = vf.split_executions(vf.read_ndjson(outp))
    for i, ln in enumerate(lines):
        if ("s1*lock" in ln or ("s1*create" in ln and "reset" in ln)) and i < len(execs):
            names = [(e["e"], e.get("op"), e.get("t")) for e in execs[i][1]]
            last = ("RestartRet", None, None) if "s1*create" in ln else ("ResetRet", None, None) if "reset" in ln else ("LifeRet", "stop", None)
            try:
                hit = names.index(last) < names.index(("SubmitRet", None, "s1"))
            except ValueError:
                hit = False
            ck.note("directed probe %r: submission held until %s = %s" % (ln.split("|")[1].strip(), last[0] + (":" + last[1] if last[1] else ""), hit))
    # ---- real pool: preemption-bounded DFS
    dfs = [(cases[0], 1, 2500), (cases[1], 1, 2500)] if not thorough else [(c, 2, 20000) for c in cases[:6]]
    xdfs = [(EXTRA[0], 1, 800), (EXTRA[2], 1, 800)] if not thorough else [(p, 2, 8000) for p in EXTRA]
    for j, (case, bound, maxexec) in enumerate(dfs):
        init, maxt, cap, idle, life, subs = case
        outp = os.path.join(ck.work, "dfs%d.ndjson" % j)
        rc, out = vf.run_driver("drv_s_pool", ["dfs", init, maxt, cap, idle, prog_text(life, subs), bound, maxexec, outp, 16],
                                timeout=3000)
        if rc != 0:
            raise vf.Infra("drv_s_pool dfs failed: " + out[-2000:])
        ck.note("dfs %s bound=%d: %s" % (prog_text(life, subs), bound, out.strip()))
        judge(ck, outp, None, "dfs%d" % j, case="%d %d %d %d | %s | dfs %d" % (init, maxt, cap, idle, prog_text(life, subs), bound))
    for j, (p, bound, maxexec) in enumerate(xdfs):
        cfgs, prog = [x.strip() for x in p.split("|")]
        init, maxt, cap, idle = cfgs.split()
        outp = os.path.join(ck.work, "xdfs%d.ndjson" % j)
        rc, out = vf.run_driver("drv_s_pool", ["dfs", init, maxt, cap, idle, prog, bound, maxexec, outp, 16], timeout=3000)
        if rc != 0:
            raise vf.Infra("drv_s_pool dfs failed: " + out[-2000:])
        ck.note("dfs %s bound=%d: %s" % (prog, bound, out.strip()))
        judge(ck, outp, None, "xdfs%d" % j, case="%s | dfs %d" % (p, bound))


def judge(ck, trace_path, lines, name, case=None):
    events = vf.read_ndjson(trace_path)
    execs = vf.split_executions(events)
    ck.evaluations += len(execs)
    keys = getattr(ck, "keys", set())
    inconclusive = 0

    def cline(i):
        return lines[i] if lines is not None and i < len(lines) else (case or "?")
    crashed = 0
    for i, (start, evs) in enumerate(execs):
        bad = [e for e in evs if e["e"] in ("Crashed", "HarnessTimeout")]
        if bad:
            if bad[0]["e"] == "HarnessTimeout":
                raise vf.Infra("execution %d of %s exceeded the harness wall-clock limit (%s)" % (i, name, cline(i)))
            crashed += 1
            if crashed == 1:
                rp = ck.save_replay("%s_crash_%d" % (name, i), {"trace.ndjson": "\n".join(json.dumps(e) for e in evs) + "\n",
                                                              "case.txt": cline(i) + "\n"})
                ck.classify({"spec": "PoolTrace", "event": "Crashed", "after": last_life(evs)},
                            "execution crashed (std::terminate / abort / signal) — %s" % cline(i), rp)
            continue
        end = [e for e in evs if e["e"] == "End"]
        if end and end[0]["outcome"] in ("steplimit", "external"):
            inconclusive += 1
        refused = any(e["e"] == "SubmitRet" and not e["ok"] for e in evs)
        life = [k for k, e in enumerate(evs) if e["e"] == "LifeCall" and e["op"] in ("stop", "drain")]
        overlap = bool(life) and any(e["e"] == "SubmitRet" for e in evs[life[0]:])
        grew = any(e["e"] == "Count" and e["n"] > 1 for e in evs)
        if refused or overlap or grew:
            keys.add(json.dumps([e for e in evs if e["e"] != "End"], sort_keys=True))
    ck.keys = keys
    ck.nontrivial = len(keys)
    # executions that crashed carry no End event: cut them out of the file handed to TLC (they are judged above)
    if crashed:
        keep = []
        for start, evs in execs:
            if not any(e["e"] == "Crashed" for e in evs):
                keep += evs + [{"e": "Reset"}]
        trace_path = trace_path + ".nocrash"
        open(trace_path, "w").write("\n".join(json.dumps(e) for e in keep) + "\n")
        events = keep
        execs = vf.split_executions(events)
    v = ck.validate(os.path.join(SPECDIR, "PoolTrace.tla"), os.path.join(SPECDIR, "PoolTrace.cfg"), trace_path, n_exec=len(execs))
    ck.note("%s: %d executions, crashed=%d, inconclusive=%d" % (name, len(execs), crashed, inconclusive))
    if len(execs) >= 20 and inconclusive * 3 > len(execs):
        # executions that ran into the step limit decide nothing: a third of them is a harness problem (or a livelock) that
        # must not pass silently
        raise vf.Infra("%s: %d of %d executions ended at the step limit (inconclusive)" % (name, inconclusive, len(execs)))
    if execs:
        ck.sample({"kind": name, "case": cline(0), "events": execs[0][1][:16]})
    if not v.accepted:
        x = vf.exec_index_of_line(events, v.maxl)
        start, evs = execs[min(x, len(execs) - 1)]
        bad_ev = events[v.maxl - 1] if v.maxl <= len(events) else {}
        rp = ck.save_replay("%s_reject_%d" % (name, x), {
            "trace.ndjson": "\n".join(json.dumps(e) for e in evs) + "\n", "case.txt": cline(x) + "\n",
            "why.txt": "PoolTrace.tla cannot match event %d of this execution: %s %s\n" % (
                v.maxl - start + 1, json.dumps(bad_ev), ("(invariant %s)" % v.violated) if v.violated else "")})
        ck.classify({"spec": "PoolTrace", "event": bad_ev.get("e"), "op": bad_ev.get("op")},
                    "thread pool execution not explainable by the Abs pool (%s): first unmatched event %s" % (cline(x), json.dumps(bad_ev)), rp)


def last_life(evs):
    calls = [e["op"] for e in evs if e["e"] == "LifeCall"]
    return calls[-1] if calls else "none"


def replay(ck, path):
    ck.make("drv_s_pool")
    case = open(os.path.join(path, "case.txt")).read().strip()
    outp = os.path.join(ck.work, "replay.ndjson")
    parts = [x.strip() for x in case.split("|")]
    if parts[2].startswith("dfs"):
        cfg = parts[0].split()
        vf.run_driver("drv_s_pool", ["dfs"] + cfg + [parts[1], parts[2].split()[1], 5000, outp, 16])
        judge(ck, outp, None, "replay", case=case)
    else:
        cp = os.path.join(ck.work, "case.txt")
        open(cp, "w").write(case + "\n")
        vf.run_driver("drv_s_pool", ["run", cp, outp, 1])
        judge(ck, outp, [case], "replay")
