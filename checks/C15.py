"""C15 — HTTP/1.1 message framing is exact, segmentation-independent and bounded.

  1. TLC checks spec/http/HttpFraming.tla exhaustively (both sides): the code-shaped Impl models of the server's
     handleIncomingData/findChunkedRequestEnd and of the client's frameResponse/determineFraming/advanceChunked hand over,
     for every generated stream and every segmentation (cuts at lexeme granularity), exactly what the Abs framer of
     spec/http/HttpAbs.tla (RFC 9112 6.3 over lexemes) determines: Exact, Complete, Terminates, Bounded.
     Self-test: each Dev_* flag (the defects F-15a..e as the code had them) must violate an invariant.
  2. TLC exports the generated streams (the initial states of that model).  They are rendered to bytes with the fixed
     table below and run on the real code by harness/drv_httpframe.cpp under every single byte cut, every byte alone,
     (small streams / thorough tier) every pair of cuts: the server's protected handleIncomingData on a real accepted
     session, the client's private frameResponse through the IORA_VERIF friend hook, plus runs through real sockets
     (server I/O thread; HttpClient against a scripted socket server).
  3. What the application was handed (start line, header fields, body as DATA lexemes, error / close, hang, exception)
     is validated by TLC against spec/http/HttpFramingTrace.tla, which recomputes the Abs result from the lexemes.
  4. Mutated streams (seeded): only termination / no exception escaping are judged.
  5. Bounded: which octets count against which cap is part of the model (HttpAbs.tla Wt / OverCap, HttpFraming.tla
     OverAt / BufOver).  The generator emits messages with one-octet payloads whose image is dominated by a long
     header field / chunk extension / last-chunk extension / trailer field of 3 or 5 quarters of the cap, and pairs
     that fit one by one but not together; Abs: within every cap -> handed over exactly, larger than a cap -> error /
     close and never handed over.  They run on the server (direct + through the socket) and on a real HttpClient
     (maxResponseBytes 64 KiB) against the scripted peer.
"""
import os, json, concurrent.futures as cf
import vf

SPECDIR = os.path.join(vf.SPEC, "http")
DEVS = ["Dev_ChunkPosWraps", "Dev_ChunkedBodyNotDecoded", "Dev_TrailerLeavesCrlf", "Dev_LenientContentLength",
        "Dev_BadChunkSizeWaitsForever", "Dev_LenientChunkSize", "Dev_CapSkipsFraming", "Dev_NoHeadCap"]
DEV_SIDE = {"Dev_CapSkipsFraming": "resp"}     # the side whose Impl model the deviation lives in (default: req)
INVS = ["Exact", "Complete", "Terminates", "Bounded"]
VARS = ["c", "arr", "ncuts", "base", "pc", "hend", "cpos", "cbody", "hdone", "mode", "fn", "out", "closed"]
SRV_FLOOD = 1024 * 1024 + 64 * 1024       # > SessionInfo::MAX_BUFFER_SIZE
CLI_FLOOD = 64 * 1024 + 32 * 1024         # > the response cap the e2e client is configured with (64 KiB)
# the caps the big lexemes of HttpAbs.tla are measured against (a weight w = w quarters of the cap)
CLI_CAP = 64 * 1024                       # drv_httpframe.cpp runClientE2e: maxResponseBytes = jsonConfig.maxPayloadSize
SRV_HEAD_CAP = 64 * 1024                  # SessionInfo::MAX_HEADER_SIZE
SRV_BUF_CAP = 1024 * 1024                 # SessionInfo::MAX_BUFFER_SIZE
BIG_BASE = 10                             # HttpAbs.tla BigBase


def big_w(kind, arg):
    """weight of a lexeme in quarters of its cap (HttpAbs.tla Wt), 0 = an ordinary lexeme"""
    if kind in ("HDR", "TRL", "LAST") and arg >= BIG_BASE:
        return arg - BIG_BASE
    if kind == "CSZ" and arg // 100 >= BIG_BASE:
        return arg // 100 - BIG_BASE
    return 0


def big_len(kind, arg, side):
    """octets of the image of a big lexeme"""
    cap = CLI_CAP if side == "resp" else (SRV_HEAD_CAP if kind == "HDR" else SRV_BUF_CAP)
    return big_w(kind, arg) * (cap // 4)


def is_big(case):
    return any(big_w(k, a) for k, a in case["lex"])

# ------------------------------------------------------------------------------------------------ rendering table
STATUS_TEXT = {100: "Continue", 103: "Early Hints", 200: "OK", 204: "No Content", 304: "Not Modified", 404: "Not Found"}
DATA = {1: b"a", 2: b"bc", 3: b"\r\n0\r\n\r\n"}
TE = {1: "chunked", 2: "gzip, chunked", 3: "chunked, gzip", 4: "gzip", 5: "Chunked"}


def clx_value(v, n):
    return {1: "%dabc" % n, 2: "+%d" % n, 3: "%d, %d" % (n, n + 1), 4: "18446744073709551616", 5: "", 6: "-%d" % n}[v]


def header_of(kind, arg, side="resp"):
    """(name, value as the application sees it, wire image of the value) of a header / trailer lexeme; the value of a
    big lexeme is ("z", n): n octets 'Z'"""
    if big_w(kind, arg):
        n = big_len(kind, arg, side) - len("X-Big: \r\n")
        return ("x-big" if kind == "HDR" else "t-big"), ("z", n), ("z", n)
    if kind == "CL":
        return "content-length", str(arg), str(arg)
    if kind == "CLL":
        return "content-length", "%d, %d" % (arg, arg), "%d, %d" % (arg, arg)
    if kind == "CLX":
        v = clx_value(arg // 100, arg % 100)
        return "content-length", v, v
    if kind == "CLBIG":
        return "content-length", "20000000", "20000000"
    if kind == "TE":
        return "transfer-encoding", TE[arg], TE[arg]
    if kind == "CONN":
        return "connection", "close", "close"
    if kind == "HDR":
        return ("x-a", "v1", "v1") if arg == 1 else ("x-b", "v2", "  v2  ")
    if kind == "TRL":
        return ("t", "v", "v") if arg == 1 else ("u", "w", "w")
    raise vf.Infra("no header rendering for %s" % kind)


WIRE_NAME = {"content-length": "Content-Length", "transfer-encoding": "Transfer-Encoding", "connection": "Connection",
             "x-a": "X-A", "x-b": "X-B", "t": "T", "u": "U", "x-big": "X-Big", "t-big": "T-Big"}


def image(kind, arg, side):
    """bytes, ("z", n) = n octets 'Z', or a list of those"""
    if big_w(kind, arg):
        if kind in ("HDR", "TRL"):
            name, _, wire = header_of(kind, arg, side)
            return [("%s: " % WIRE_NAME[name]).encode(), wire, b"\r\n"]
        head = ("%x;x=" % (arg % 100 if kind == "CSZ" else 0)).encode()
        return [head, ("z", big_len(kind, arg, side) - len(head) - 2), b"\r\n"]
    if kind == "REQ":
        return ("%s /m%d HTTP/1.1\r\nHost: x\r\n" % ("GET" if arg % 10 == 1 else "POST", arg // 10)).encode()
    if kind == "RESP":
        return ("HTTP/1.1 %d %s\r\n" % (arg, STATUS_TEXT[arg])).encode()
    if kind in ("CL", "CLL", "CLX", "CLBIG", "TE", "CONN", "HDR", "TRL"):
        name, _, wire = header_of(kind, arg)
        return ("%s: %s\r\n" % (WIRE_NAME[name], wire)).encode()
    if kind in ("EOH", "EOC", "CEND"):
        return b"\r\n"
    if kind == "CENDX":
        return b"XY"
    if kind == "DATA":
        return DATA[arg]
    if kind == "CSZ":
        e, n = arg // 100, arg % 100
        h = "%x" % n
        return ({0: h, 1: h + ";x=1", 2: "00" + h, 3: h + " ;x=1"}[e] + "\r\n").encode()
    if kind == "CSX":
        v, n = arg // 100, arg % 100
        return ({1: "zz", 2: "ffffffffffffffec", 3: "10000000000000000", 4: "", 5: "0x%x" % n, 6: "-%x" % n}[v] + "\r\n").encode()
    if kind == "LAST":
        return {0: b"0\r\n", 1: b"0;x=1\r\n", 2: b"000\r\n"}[arg]
    if kind == "JUNK":
        return {1: b"\r\n", 2: b"\x00\x01GARBAGE\r\n\r\n"}[arg]
    if kind == "EOF":
        return b""
    if kind == "FLOOD":
        return ("z", SRV_FLOOD if side == "req" else CLI_FLOOD)
    raise vf.Infra("no rendering for lexeme %s" % kind)


def render(case):
    """-> (parts for the driver, total length, lexeme boundaries, eof flag, header table, data table)"""
    parts, total, bounds, eof = [], 0, [], False
    hdrs, datas = {}, {}
    for kind, arg in case["lex"]:
        img = image(kind, arg, case["side"])
        for piece in (img if isinstance(img, list) else [img]):
            if isinstance(piece, tuple):
                parts.append("z%d" % piece[1])
                total += piece[1]
            elif piece:
                parts.append("h" + piece.hex())
                total += len(piece)
        if big_w(kind, arg) and total - (bounds[-1] if bounds else 0) != big_len(kind, arg, case["side"]):
            raise vf.Infra("image of the big lexeme %s %d has not the length its weight says" % (kind, arg))
        if kind == "EOF":
            eof = True
        if kind in ("CL", "CLL", "CLX", "CLBIG", "TE", "CONN", "HDR", "TRL"):
            name, val, _ = header_of(kind, arg, case["side"])
            hdrs[(kind, arg)] = "%s:%d:%s:%s" % (kind, arg, name, "z%d" % val[1] if isinstance(val, tuple) else val.encode().hex())
        if kind == "DATA":
            if len(DATA[arg]) != {1: 1, 2: 2, 3: 7}[arg]:
                raise vf.Infra("DATA image length differs from DLen in HttpAbs.tla")
        bounds.append(total)
    for d, img in DATA.items():
        datas[d] = "%d:%s" % (d, img.hex())
    return parts, total, bounds, eof, ";".join(hdrs.values()), ";".join(datas.values())


def case_line(case, mode, cutspec, wait_ms):
    parts, total, bounds, eof, htab, dtab = render(case)
    return "%s %s %s %d %s %d | %s | %s | %d | %s | %s | %s" % (
        case["side"], case["rm"], mode, case["wantMsgs"], "reject" if case["wantEnd"] == "over" else case["wantEnd"], wait_ms,
        json.dumps(case["lex"], separators=(",", ":")), ",".join(parts), 1 if eof else 0, htab, dtab, cutspec)


def kinds(case):
    return {k for k, _ in case["lex"]}


def nontrivial(case):
    ks = kinds(case)
    return bool(ks & {"CSZ", "CSX", "LAST", "CLX", "CLL", "CLBIG", "FLOOD", "JUNK", "CENDX", "EOF"}) or is_big(case) or \
        sum(1 for k, _ in case["lex"] if k in ("REQ", "RESP")) > 1 or \
        sum(1 for k, _ in case["lex"] if k in ("CL", "TE")) > 1


# ------------------------------------------------------------------------------------------------ TLC side
def consts(side, thorough, max_cuts, devs=(), max_pipe=None):
    if max_pipe is None:
        max_pipe = (3 if thorough else 2) if side == "req" else 1
    c = {"Side": '"%s"' % side, "MaxPipe": max_pipe, "MaxCuts": max_cuts, "Rich": thorough}
    for d in DEVS:
        c[d] = d in devs
    return c


def gen_modules(ck, side, thorough):
    d = os.path.join(ck.work, "tlc_" + side)
    os.makedirs(d, exist_ok=True)
    with open(os.path.join(d, "GenFraming.tla"), "w") as f:
        f.write("---- MODULE GenFraming ----\nEXTENDS HttpFraming, Json, IOUtils, SequencesExt\nVARIABLE z\n")
        f.write("GInit == /\\ z = 0 /\\ " + " /\\ ".join("%s = 0" % v for v in VARS) + "\n")
        f.write("         /\\ ndJsonSerialize(IOEnv.VFCASES, SetToSeq({CaseRec(x) : x \\in Cases}))\n")
        f.write("GNext == UNCHANGED <<z, vars>>\n====\n")
    vf.write_cfg(os.path.join(d, "GenFraming.cfg"), init="GInit", next="GNext", constants=consts(side, thorough, 0))
    return d


def export_cases(ck, side, thorough):
    d = gen_modules(ck, side, thorough)
    out = os.path.join(d, "cases.ndjson")
    r = vf.run_tlc(os.path.join(d, "GenFraming.tla"), os.path.join(d, "GenFraming.cfg"), tag="C15_gen_" + side, workers=1,
                   env={"VFCASES": out}, lib_dirs=[SPECDIR])
    if r.error or not os.path.exists(out):
        raise vf.Infra("case export failed (%s): %s" % (side, r.error or r.out[-1500:]))
    cases = vf.read_ndjson(out)
    cases.sort(key=lambda c: json.dumps(c["lex"]) + c["rm"])
    return cases


def model_check(ck, side, thorough, devs=(), max_cuts=None, coverage=True, max_pipe=None):
    d = os.path.join(ck.work, "tlc_" + side)
    os.makedirs(d, exist_ok=True)
    if max_cuts is None:
        max_cuts = 2
    name = "MC_" + ("_".join(devs) if devs else "impl_p%s_c%d" % (max_pipe, max_cuts))
    cfg = os.path.join(d, name + ".cfg")
    vf.write_cfg(cfg, constants=consts(side, thorough and not devs, max_cuts, devs, max_pipe), invariants=INVS)
    return vf.run_tlc(os.path.join(SPECDIR, "HttpFraming.tla"), cfg, tag="C15_%s_%s" % (side, name),
                      workers=2 if devs else 4, coverage=coverage and not devs, lib_dirs=[SPECDIR], timeout=1500)


# ------------------------------------------------------------------------------------------------ the run
def cutspec_for(case, total, bounds, thorough, rng):
    if "FLOOD" in kinds(case) or is_big(case):
        # the image is larger than / comparable with the cap: cut at the lexeme boundaries and once inside the flood /
        # in the middle of every big lexeme
        inside = [b - 7 for (k, _), b in zip(case["lex"], bounds) if k == "FLOOD"]
        inside += [(a + b) // 2 for (k, x), a, b in zip(case["lex"], [0] + bounds[:-1], bounds) if big_w(k, x)]
        sets = [""] + [str(b) for b in bounds[:-1]] + [str(x) for x in inside] + [",".join(str(b) for b in bounds[:-1])]
        return "L:" + ";".join(sets)
    if case["side"] == "resp":
        return "P" if total <= (160 if thorough else 90) else "S"
    nreq = sum(1 for k, _ in case["lex"] if k == "REQ")
    if thorough and nreq == 1 and total <= 110:
        return "P"
    return "S"


def build_cases(ck, cases, thorough):
    """-> list of (case, mode, line)"""
    jobs = []
    wait = 2500
    for i, c in enumerate(cases):
        _, total, bounds, _, _, _ = render(c)
        flood = "FLOOD" in kinds(c)
        big = is_big(c)
        # big messages: no cut, a cut after the header section, a cut inside every big lexeme, all lexeme boundaries
        eoh = [b for (k, _), b in zip(c["lex"], bounds) if k == "EOH"]
        bigcuts = ";".join(["", str(eoh[0]) if eoh else "1"] +
                           [str((a + b) // 2) for (k, x), a, b in zip(c["lex"], [0] + bounds[:-1], bounds) if big_w(k, x)] +
                           [",".join(str(b) for b in bounds[:-1])])
        if c["side"] == "req":
            jobs.append((c, "direct", case_line(c, "direct", cutspec_for(c, total, bounds, thorough, ck.rng), wait)))
            if big:
                jobs.append((c, "sock", case_line(c, "sock", "L:" + bigcuts, wait)))
            elif (not flood or i % 2 == 0) and (thorough or ck.rng.random() < 0.25):
                cuts = ";".join([""] + [str(ck.rng.randrange(1, max(2, total))) for _ in range(3 if thorough else 2)]) if not flood \
                    else ";" + str(bounds[0])
                jobs.append((c, "sock", case_line(c, "sock", "L:" + cuts, wait)))
        else:
            # (flood / big streams are measured against the cap of the e2e client; the direct mode carries its own copy of
            # the receive loop with the default cap around the real frameResponse)
            if not flood and not big:
                jobs.append((c, "direct", case_line(c, "direct", cutspec_for(c, total, bounds, thorough, ck.rng), wait)))
            decided = c["wantMsgs"] >= 1 or c["wantEnd"] == "reject" or "EOF" in kinds(c)
            if big:
                jobs.append((c, "e2e", case_line(c, "e2e", "L:" + bigcuts, 6000)))
            elif decided and (flood or thorough or ck.rng.random() < 0.3):
                cuts = ";".join([""] + [str(ck.rng.randrange(1, max(2, total))) for _ in range(2)]) if not flood \
                    else ";" + str(bounds[-2] if len(bounds) > 1 else 1)
                jobs.append((c, "e2e", case_line(c, "e2e", "L:" + cuts, 6000)))
    return jobs


def mutate(rng, data):
    b = bytearray(data)
    for _ in range(rng.randrange(1, 4)):
        if not b:
            break
        k = rng.randrange(5)
        p = rng.randrange(len(b))
        if k == 0:
            b[p] = rng.randrange(256)
        elif k == 1:
            del b[p]
        elif k == 2:
            b.insert(p, rng.choice(b"\r\n:;0123456789abcdefxZ -+,"))
        elif k == 3:
            q = rng.randrange(p, min(len(b), p + 12) + 1)
            b[p:p] = b[p:q]
        else:
            del b[p:]
    return bytes(b)


def fuzz_jobs(ck, cases, n):
    jobs = []
    pool = [c for c in cases if "FLOOD" not in kinds(c) and not is_big(c)]
    for i in range(n):
        c = ck.rng.choice(pool)
        parts, total, bounds, eof, htab, dtab = render(c)
        raw = b"".join(bytes.fromhex(p[1:]) for p in parts)
        m = mutate(ck.rng, raw)
        if not m:
            continue
        fc = dict(c, lex=[], wantMsgs=0, wantEnd="any")
        line = "%s %s fuzz 0 any 60 | [] | h%s | %d | %s | %s | R:%d:%d" % (
            c["side"], c["rm"], m.hex(), 1 if eof else 0, htab, dtab, 6, ck.seed * 7919 + i)
        jobs.append((fc, "fuzz", line))
    return jobs


def run_driver(ck, jobs, name):
    cases_path = os.path.join(ck.work, name + ".cases.txt")
    with open(cases_path, "w") as f:
        for _, _, line in jobs:
            f.write(line + "\n")
    out_path = os.path.join(ck.work, name + ".ndjson")
    rc, out = vf.run_driver("drv_httpframe", ["run", cases_path, out_path, vf.NCPU, 4000], timeout=3000)
    if rc != 0:
        raise vf.Infra("drv_httpframe failed: " + out[-2000:])
    ck.note("driver %s: %s" % (name, out.strip()))
    return out_path


def describe(case, mode, ev):
    return "%s %s stream %s: observed %s" % (case["side"], mode, json.dumps(case["lex"], separators=(",", ":"))[:400],
                                             json.dumps({k: v for k, v in ev.items() if k != "e"}, separators=(",", ":"))[:500])


def judge(ck, jobs, out_path, name, retry=True):
    """validate the recorded executions; returns the number of confirmed violations"""
    events = vf.read_ndjson(out_path)
    execs = vf.split_executions(events)
    if len(execs) != len(jobs):
        raise vf.Infra("%s: %d executions recorded for %d streams" % (name, len(execs), len(jobs)))
    good = []          # indices to validate
    bad = []           # (index, what)
    # a harness-side failure (the driver's own warm-up request unanswered under load, a wall-clock limit) decides nothing: such
    # streams are run once more on their own before the run is given up as an infrastructure error
    flaky = [i for i, (start, evs) in enumerate(execs) if any(e["e"] in ("Infra", "HarnessTimeout") for e in evs)]
    if flaky and retry and len(flaky) <= 20:
        again = vf.split_executions(vf.read_ndjson(run_driver(ck, [jobs[i] for i in flaky], name + "_again")))
        if len(again) == len(flaky):
            for i, ex in zip(flaky, again):
                execs[i] = ex
            ck.note("%s: %d stream(s) re-run after a harness-side failure" % (name, len(flaky)))
    for i, (start, evs) in enumerate(execs):
        names = [e["e"] for e in evs]
        if "Infra" in names or "HarnessTimeout" in names:
            what = [e for e in evs if e["e"] in ("Infra", "HarnessTimeout")][0]
            raise vf.Infra("%s: stream %d: %s" % (name, i, json.dumps(what)))
        if "Crashed" in names:
            bad.append((i, "the endpoint crashed (signal / abort) on " + describe(jobs[i][0], jobs[i][1], {"e": "Crashed"})))
            continue
        good.append(i)
        runs = sum(e.get("n", 0) for e in evs if e["e"] == "Obs")
        ck.evaluations += runs
        ck.obs_groups = getattr(ck, "obs_groups", 0) + sum(1 for e in evs if e["e"] == "Obs")
        if nontrivial(jobs[i][0]) or jobs[i][1] == "fuzz":
            ck.nontrivial_keys.add(jobs[i][2].split(" | ")[2] + jobs[i][1])
    # ---- TLC validation, in parallel chunks; a rejected execution is cut out and the rest re-validated
    nchunks = max(1, min(8, len(good) // 150 + 1))
    chunks = [good[k::nchunks] for k in range(nchunks)]

    def validate_chunk(k):
        idxs = list(chunks[k])
        rejected = []
        rounds = 0
        while idxs and rounds < 40:
            rounds += 1
            p = os.path.join(ck.work, "%s.val%d.ndjson" % (name, k))
            with open(p, "w") as f:
                for i in idxs:
                    for e in execs[i][1]:
                        f.write(json.dumps(e, separators=(",", ":")) + "\n")
                    f.write('{"e":"Reset"}\n')
            v = vf.validate_trace(os.path.join(SPECDIR, "HttpFramingTrace.tla"), os.path.join(SPECDIR, "HttpFramingTrace.cfg"),
                                  p, tag="C15_val_%s_%d" % (name, k))
            if v.error:
                raise vf.Infra("trace validation error: " + v.error)
            if v.accepted:
                return idxs, rejected, v
            # which execution holds line maxl?
            line, x = 0, None
            for pos, i in enumerate(idxs):
                n = len(execs[i][1]) + 1
                if line < v.maxl <= line + n:
                    x = pos
                    break
                line += n
            if x is None:
                raise vf.Infra("cannot locate rejected line %d" % v.maxl)
            i = idxs[x]
            evline = execs[i][1][v.maxl - line - 1] if v.maxl - line - 1 < len(execs[i][1]) else {"e": "?"}
            rejected.append((i, evline))
            idxs = idxs[:x] + idxs[x + 1:]
        return idxs, rejected, None

    with cf.ThreadPoolExecutor(max_workers=8) as ex:
        results = list(ex.map(validate_chunk, range(nchunks)))
    rejected = []
    for idxs, rej, v in results:
        ck.traces += len(idxs)
        rejected += rej
    ck.note("%s: %d streams, %d validated, %d rejected by HttpFramingTrace, %d crashed" % (
        name, len(jobs), sum(len(r[0]) for r in results), len(rejected), len(bad)))
    confirmed = 0
    # ---- a rejection is reported only if an immediate re-run (alone, longer waits) repeats it.  When there are very
    # many, a few of every kind are re-run and reported; the others are only counted.
    if rejected and retry:
        buckets = {}
        for i, evline in rejected:
            buckets.setdefault((explain(jobs[i][0], evline), jobs[i][0]["side"], jobs[i][1]), []).append((i, evline))
        chosen = []
        for key in sorted(buckets):
            chosen += buckets[key][:3]
        chosen = chosen[:60]
        if len(chosen) < len(rejected):
            ck.note("%d rejected streams; %d of them (up to 3 of every kind) are re-run and reported: %s" % (
                len(rejected), len(chosen), {"%s/%s/%s" % k: len(v) for k, v in sorted(buckets.items())}))
        rj = []
        for i, evline in chosen:
            c, mode, line = jobs[i]
            f = line.split(" | ")
            w = f[0].split()
            w[5] = "8000"
            f[0] = " ".join(w)
            if "seg" in evline and mode != "fuzz":
                f[6] = "L:" + ",".join(str(x) for x in evline["seg"])
            rj.append((c, mode, " | ".join(f)))
        out2 = run_driver(ck, rj, name + ".rerun")
        ev2 = vf.split_executions(vf.read_ndjson(out2))

        def revalidate(k):
            p = os.path.join(ck.work, "%s.rr%d.ndjson" % (name, k))
            with open(p, "w") as f:
                for e in ev2[k][1]:
                    f.write(json.dumps(e, separators=(",", ":")) + "\n")
                f.write('{"e":"Reset"}\n')
            return p, vf.validate_trace(os.path.join(SPECDIR, "HttpFramingTrace.tla"), os.path.join(SPECDIR, "HttpFramingTrace.cfg"),
                                        p, tag="C15_rr_%s_%d" % (name, k))
        with cf.ThreadPoolExecutor(max_workers=8) as ex:
            rvs = list(ex.map(revalidate, range(len(chosen))))
        per_kind = {}
        for k, (i, evline) in enumerate(chosen):
            p, v = rvs[k]
            if v.error:
                raise vf.Infra("trace validation error: " + v.error)
            c, mode, line = rj[k]
            if v.accepted:
                ck.note("rejection not repeated on re-run (ignored): " + describe(c, mode, evline))
                continue
            confirmed += 1
            kind = explain(c, evline)
            per_kind[kind] = per_kind.get(kind, 0) + 1
            if per_kind[kind] <= 2 and len(ck.violations) < 14:
                rp = ck.save_replay("%s_%d" % (name, i), {"case.txt": line + "\n", "trace.ndjson": p,
                                                          "why.txt": "HttpFramingTrace.tla rejects: " + describe(c, mode, evline) + "\n"})
                ck.violation(kind + " — " + describe(c, mode, evline), rp)
            else:
                ck.more_violations = getattr(ck, "more_violations", 0) + 1
        ck.more_violations = getattr(ck, "more_violations", 0) + (len(rejected) - len(chosen) if confirmed else 0)
    for i, what in bad:
        confirmed += 1
        rp = ck.save_replay("%s_crash_%d" % (name, i), {"case.txt": jobs[i][2] + "\n"})
        ck.violation(what, rp)
    return confirmed


def explain(case, ev):
    """a human reading of the rejected observation (the verdict itself is TLC's)"""
    if ev.get("hang"):
        return "a framing call did not return (loops forever)"
    if ev.get("threw"):
        return "an exception escaped the data callback"
    if is_big(case) and case["wantEnd"] == "reject" and len(ev.get("msgs", [])) > case["wantMsgs"]:
        return "a message assembled from more buffered input than the configured cap allows was handed over (octets that " \
               "never become payload - header / chunk extension / trailer - escape the cap)"
    if case["wantEnd"] in ("reject", "over") and not ev.get("err"):
        return "invalid length information / over-the-cap stream was not rejected"
    if case["wantEnd"] == "reject" and len(ev.get("msgs", [])) > case["wantMsgs"]:
        return "a message with invalid length information was handed to the application"
    if len(ev.get("msgs", [])) < case["wantMsgs"]:
        return "an encoded message was not handed over"
    return "the application was not handed exactly what was encoded"


def self_test_trace(ck, jobs, out_path):
    """a corrupted trace must be rejected by the trace specification"""
    events = vf.read_ndjson(out_path)
    execs = vf.split_executions(events)
    done = 0
    for want in ("body", "reject", "hang"):
        for i, (start, evs) in enumerate(execs):
            c = jobs[i][0]
            obs = [e for e in evs if e["e"] == "Obs"]
            if len(obs) != 1 or jobs[i][1] == "fuzz":
                continue
            o = json.loads(json.dumps(obs[0]))
            if want == "body" and o["msgs"] and o["msgs"][0]["b"]:
                o["msgs"][0]["b"] = o["msgs"][0]["b"][:-1]
            elif want == "reject" and c["wantEnd"] == "reject" and o["err"]:
                o["err"] = False
            elif want == "hang" and not o["hang"]:
                o["hang"] = True
            else:
                continue
            p = os.path.join(ck.work, "selftest_%s.ndjson" % want)
            with open(p, "w") as f:
                for e in evs:
                    f.write(json.dumps(o if e["e"] == "Obs" else e) + "\n")
                f.write('{"e":"Reset"}\n')
            v = vf.validate_trace(os.path.join(SPECDIR, "HttpFramingTrace.tla"), os.path.join(SPECDIR, "HttpFramingTrace.cfg"), p,
                                  tag="C15_selftest_" + want)
            if v.error:
                raise vf.Infra("self-test validation error: " + v.error)
            if v.accepted:
                raise vf.Infra("self-test: HttpFramingTrace accepted a corrupted trace (%s)" % want)
            done += 1
            break
    if done < 3:
        raise vf.Infra("self-test: could not build all corrupted traces (%d of 3)" % done)


def run(ck):
    thorough = ck.tier == "thorough"
    ck.nontrivial_keys = set()
    ck.rule = ("streams = initial states of spec/http/HttpFraming.tla (every body-length form, invalid length class, cap "
               "overflow, interim heads, surplus, truncation + close, request pipelines, one-octet payloads under a header "
               "field / chunk extension / trailer of 3/4 or 5/4 of the cap), rendered with a fixed lexeme->bytes "
               "table; each stream runs on the real framers under no cut, every single byte cut, every byte alone and (small "
               "streams) every pair of cuts; evaluations = (stream, segmentation) runs; a stream is non-trivial when it is "
               "chunked, invalid, over a cap, truncated, pipelined or preceded by interim heads; plus seeded byte mutations")
    # ---- build the driver while TLC runs
    with cf.ThreadPoolExecutor(max_workers=12) as ex:
        fb = ex.submit(ck.make, "drv_httpframe")
        fexp = {s: ex.submit(export_cases, ck, s, thorough) for s in ("req", "resp")}
        # quick: every segmentation with <= 2 cuts of every stream; thorough (richer form set, pipelines of 3): <= 1 cut of
        # every stream and <= 3 cuts of every single-message stream
        if thorough:
            fmc = {"req": ex.submit(model_check, ck, "req", True, (), 1), "req/single": ex.submit(model_check, ck, "req", True, (), 3, True, 1),
                   "resp": ex.submit(model_check, ck, "resp", True, (), 3)}
        else:
            fmc = {s: ex.submit(model_check, ck, s, False) for s in ("req", "resp")}
        fdev = {d: ex.submit(model_check, ck, DEV_SIDE.get(d, "req"), False, (d,), 1) for d in DEVS}
        fb.result()
        cases = {s: f.result() for s, f in fexp.items()}
        mcs = {s: f.result() for s, f in fmc.items()}
        devs = {d: f.result() for d, f in fdev.items()}
    for s, r in mcs.items():
        if r.error:
            raise vf.Infra("TLC failed on HttpFraming (%s): %s" % (s, r.error))
        ck.states += r.distinct
        ck.transitions += r.generated
        for a, (tk, gn) in r.coverage.items():
            ck.cov[a] = ck.cov.get(a, 0) + gn
        ck.note("HttpFraming.tla side=%s: %s, %d generated streams" % (s, r.summary(), len(cases[s.split("/")[0]])))
        if r.violated:
            rp = ck.save_replay("impl_spec_" + s, {"tlc.out": r.out})
            ck.violation("HttpFraming.tla (all Dev flags FALSE) violates %s on side %s" % (r.violated, s), rp)
    for a in ["SrvRecvStep", "SrvScan", "SrvChunk", "CliRecvStep", "CliEof", "CliFrameHead", "CliFrameBody"]:
        if ck.cov.get(a, 0) == 0:
            raise vf.Infra("self-test: Impl action %s never taken" % a)
    expect = {"Dev_ChunkPosWraps": "Terminates"}
    for s in ("req", "resp"):
        for cls, want in (("within the caps", ("msg",)), ("over a cap", ("reject", "over"))):
            if not any(is_big(c) and c["wantEnd"] in want for c in cases[s]):
                raise vf.Infra("generator produced no %s message %s that is dominated by non-payload octets" % (s, cls))
    for d, r in devs.items():
        ck.states += r.distinct
        ck.transitions += r.generated
        if r.violated is None or (d in expect and r.violated != expect[d]):
            raise vf.Infra("self-test: HttpFraming with %s = TRUE should violate %s, got %r %s" % (
                d, expect.get(d, "an invariant"), r.violated, r.error))
    ck.exhaustive = True
    for s in ("req", "resp"):
        if not cases[s]:
            raise vf.Infra("generator produced no streams for side " + s)
        for cls in (("reject",), ("msg",), ("stall", "any")):
            if not any(c["wantEnd"] in cls for c in cases[s]):
                raise vf.Infra("generator produced no %s stream with outcome class %s" % (s, cls))
    # ---- conformance
    all_cases = cases["req"] + cases["resp"]
    jobs = build_cases(ck, all_cases, thorough)
    jobs += fuzz_jobs(ck, all_cases, 3000 if thorough else 300)
    # long streams first (better packing of the forked children)
    jobs.sort(key=lambda j: (0 if j[1] in ("sock", "e2e") else 1, -len(j[2])))
    out_path = run_driver(ck, jobs, "frame")
    self_test_trace(ck, jobs, out_path)
    judge(ck, jobs, out_path, "frame")
    ck.nontrivial = len(ck.nontrivial_keys)
    modes = {}
    for _, m, _ in jobs:
        modes[m] = modes.get(m, 0) + 1
    ck.note("streams by mode: %s; distinct observations %d for %d (stream, segmentation) runs" % (
        modes, getattr(ck, "obs_groups", 0), ck.evaluations))
    if getattr(ck, "more_violations", 0):
        ck.note("%d further confirmed rejections not listed individually" % ck.more_violations)
    for c in (all_cases[0], [c for c in all_cases if "CSX" in kinds(c)][0], [c for c in all_cases if "TRL" in kinds(c)][-1],
              [c for c in cases["resp"] if c["lex"][0] == ["RESP", 100]][0],
              [c for c in cases["resp"] if is_big(c) and c["wantEnd"] == "reject"][-1],
              [c for c in cases["req"] if is_big(c) and c["wantEnd"] == "over"][0]):
        parts, total, bounds, eof, _, _ = render(c)
        ck.sample({"lexemes": c["lex"], "bytes": total, "expected_end": c["wantEnd"], "expected_messages": c["wantMsgs"],
                   "segmentations": cutspec_for(c, total, bounds, thorough, ck.rng)})


def replay(ck, path):
    ck.make("drv_httpframe")
    ck.nontrivial_keys = set()
    line = open(os.path.join(path, "case.txt")).read().strip()
    f = line.split(" | ")
    w = f[0].split()
    case = {"side": w[0], "rm": w[1], "lex": json.loads(f[1]), "wantMsgs": int(w[3]), "wantEnd": w[4]}
    jobs = [(case, w[2], line)]
    out_path = run_driver(ck, jobs, "replay")
    print(open(out_path).read())
    judge(ck, jobs, out_path, "replay")
