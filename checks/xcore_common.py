"""Shared helpers of the extras X05..X08 (state machine, signal, TTL map, object pool): parallel TLC runs, deviation-flag
self-tests, counterexample -> action labels, sharded trace validation with OBS collection, corrupted-trace self-tests."""
import os, re, json, concurrent.futures as cf
import vf

SPECDIR = os.path.join(vf.SPEC, "extra")
TRACE_CFG = "SPECIFICATION Spec\nINVARIANT TraceChk\nPOSTCONDITION TracePost\nCHECK_DEADLOCK FALSE\n"


def write_mc(ck, name, base, consts, invariants, defs="", view=None, constraints=(), extends_extra=""):
    """generate <work>/<name>/<name>.tla (EXTENDS base) + .cfg; consts: dict name -> python value | '<- Op' string"""
    d = os.path.join(ck.work, name)
    os.makedirs(d, exist_ok=True)
    tla = os.path.join(d, name + ".tla")
    with open(tla, "w") as f:
        f.write("---- MODULE %s ----\nEXTENDS %s%s\n%s\n====\n" % (name, base, extends_extra, defs))
    cfg = os.path.join(d, name + ".cfg")
    vf.write_cfg(cfg, constants=consts, invariants=invariants, view=view, constraints=constraints)
    return tla, cfg


def tlc_many(jobs, max_parallel=4):
    """jobs: dict key -> kwargs of vf.run_tlc (module_path, cfg_path, ...); returns dict key -> TlcResult"""
    res = {}
    with cf.ThreadPoolExecutor(max_workers=max_parallel) as ex:
        futs = {}
        for k, kw in jobs.items():
            kw = dict(kw)
            kw.setdefault("lib_dirs", [SPECDIR])
            kw.setdefault("timeout", 600)
            kw.setdefault("tag", re.sub(r"\W+", "_", str(k)))   # distinct metadir per concurrent run
            futs[ex.submit(vf.run_tlc, **kw)] = k
        for fu in cf.as_completed(futs):
            res[futs[fu]] = fu.result()
    return res


def account(ck, r, prefix=""):
    ck.states += r.distinct
    ck.transitions += r.generated
    for a, (tk, gn) in r.coverage.items():
        ck.cov[prefix + a] = ck.cov.get(prefix + a, 0) + gn


def require_actions(ck, r, actions, what, prefix=""):
    for a in actions:
        if r.coverage.get(a, (0, 0))[1] == 0:
            raise vf.Infra("self-test: action %s of %s never taken" % (a, what))


def cex_labels(r):
    """counterexample of a TLC run (-dumpTrace json) -> list of (action name, [argument values in parameter order])"""
    if not r.trace_json:
        return []
    out = []
    for a in r.trace_json["counterexample"].get("action", []):
        m = a[1]
        out.append((m["name"], [m.get("context", {}).get(p) for p in m.get("parameters", [])]))
    return out


def cex_states(r):
    if not r.trace_json:
        return []
    return [s[1] for s in r.trace_json["counterexample"].get("state", [])]


def graph_labels(path):
    """list of DOT edge labels -> list of (action, [args]) with ints converted"""
    out = []
    for lab in path:
        a, args = vf.label_thread(lab)
        out.append((a, [int(x) if re.fullmatch(r"-?\d+", x) else x for x in args]))
    return out


def validate_sharded(ck, module, cfg, trace_path, nshards=4, tag="val", timeout=900):
    """validate an ndjson trace (executions separated by Reset) with up to nshards TLC processes.
    returns (ok, bad) where bad = None or dict(line=global 1-based line of the first unmatched event, exec=index, event=..)
    and collects <<"OBS", name, line>> prints into a dict name -> sorted list of global lines."""
    lines = open(trace_path).read().splitlines()
    n = len(lines)
    if n == 0:
        raise vf.Infra("empty trace " + trace_path)
    cuts = [0]
    for s in range(1, nshards):
        c = n * s // nshards
        while 0 < c < n and '"e":"Reset"' not in lines[c - 1]:
            c += 1
        if cuts[-1] < c < n:
            cuts.append(c)
    cuts.append(n)
    jobs = []
    for i in range(len(cuts) - 1):
        p = "%s.v%d" % (trace_path, i)
        with open(p, "w") as f:
            f.write("\n".join(lines[cuts[i]:cuts[i + 1]]) + "\n")
        jobs.append((p, cuts[i], i))
    with cf.ThreadPoolExecutor(max_workers=len(jobs)) as ex:
        vs = list(ex.map(lambda j: vf.validate_trace(module, cfg, j[0], tag="%s_%s%d" % (ck.prop, tag, j[2]), timeout=timeout), jobs))
    obs = {}
    bad = None
    wall = 0.0
    for (p, off, _i), v in zip(jobs, vs):
        wall = max(wall, v.wall)
        if v.error:
            raise vf.Infra("trace validation error (%s): %s" % (os.path.basename(module), v.error[-3000:]))
        ck.states += v.states
        ck.transitions += v.states
        for m in re.finditer(r'<<"OBS", "(\w+)", (\d+)>>', v.out):
            obs.setdefault(m.group(1), set()).add(int(m.group(2)) + off)
        if not v.accepted and bad is None:
            bad = dict(line=v.maxl + off, violated=v.violated)
        os.remove(p)
    events = None
    if bad is not None:
        events = [json.loads(x) for x in lines if x.strip()]
        bad["exec"] = vf.exec_index_of_line(events, bad["line"])
        bad["event"] = events[bad["line"] - 1] if bad["line"] - 1 < len(events) else None
    nexec = sum(1 for x in lines if '"e":"Reset"' in x)
    ck.note("validate %s against %s: accepted=%s events=%d executions=%d shards=%d %.1fs" % (
        os.path.basename(trace_path), os.path.basename(module), bad is None, n, nexec, len(jobs), wall))
    if bad is None:
        ck.traces += nexec
    return bad is None, bad, {k: sorted(v) for k, v in obs.items()}


def exec_of_line(lines, line):
    """0-based execution index of a 1-based line in a list of raw ndjson lines"""
    x = 0
    for i, ln in enumerate(lines, 1):
        if i >= line:
            break
        if '"e":"Reset"' in ln:
            x += 1
    return x


def must_reject(ck, module, cfg, text, what):
    """oracle self-test: a corrupted execution must NOT be accepted"""
    p = os.path.join(ck.work, "selftest_%s.ndjson" % re.sub(r"\W+", "_", what))
    open(p, "w").write(text)
    v = vf.validate_trace(module, cfg, p, tag=ck.prop + "_self")
    if v.error:
        raise vf.Infra("self-test validation error: " + v.error[-2000:])
    if v.accepted:
        raise vf.Infra("self-test: corrupted trace (%s) was accepted by %s" % (what, os.path.basename(module)))


def run_driver_cases(ck, driver, lines, name, par=12, timeout=900, cmd="run", env=None):
    cp = os.path.join(ck.work, name + ".cases.txt")
    open(cp, "w").write("\n".join(lines) + "\n")
    outp = os.path.join(ck.work, name + ".ndjson")
    rc, out = vf.run_driver(driver, [cmd, cp, outp, par], timeout=timeout, env=env)
    if rc != 0:
        raise vf.Infra("%s failed: %s" % (driver, out[-1500:]))
    return outp


def exec_texts(path):
    """raw text of each execution (without the Reset line)"""
    res, cur = [], []
    for ln in open(path).read().splitlines():
        if '"e":"Reset"' in ln:
            res.append(cur)
            cur = []
        elif ln.strip():
            cur.append(ln)
    if cur:
        res.append(cur)
    return res
