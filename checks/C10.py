"""C10 — bounded queues are FIFO, lossless, capacity-bounded and race-free.

Blocking queue
  1. TLC checks spec/queue/BlockingQueue.tla (Impl, sync-op grain) exhaustively for a list of small programs:
     CapOk, Fifo (out \\o q = inq), NoStuck, ClosedWakesAll.
  2. Every transition of every state graph is covered by a behaviour (thread-name list); each behaviour is replayed on
     the real iora::core::BlockingQueue by the deterministic scheduler; the recorded Call/Ret/End events are validated
     against the Abs oracle spec/queue/QueueTrace.tla.  The sequence of synchronisation operations the real threads
     performed is compared with the Impl actions (model drift, reported, never an alarm).
  3. Stateless DFS of the real object's schedules with a preemption bound + seeded random schedules, same oracle.
  4. Regression probe: Impl with CloseTakesMutex = FALSE must violate NoStuck in TLC (the spec can see the defect);
     its counterexample schedule is replayed on the real code, which must not strand the consumer.
Ring buffers: see checks/c10_ring.py (memory-model specification with orders extracted from the source + TSan).
"""
import os, json, concurrent.futures as cf
import vf
from checks import c10_ring

SPECDIR = os.path.join(vf.SPEC, "queue")

ACT2OP = {"Call": "point:call", "Lock": "lock", "CvWait": "cv_wait", "Wake": "wake", "Timeout": "timeout",
          "Unlock": "unlock", "Signal": "signal", "BcastNE": "bcast", "BcastNF": "bcast"}


def P(**threads):
    """program: thread -> list of 'op' or 'op:v'"""
    return {t: [(o.split(":")[0], int(o.split(":")[1]) if ":" in o else 0) for o in ops] for t, ops in threads.items()}


QUICK = [
    (1, P(p1=["tryQueue:1"], c1=["dequeue"], k=["close"])),
    (1, P(p1=["queue:1", "queue:2"], c1=["dequeue", "dequeue"])),
    (1, P(p1=["queue:1"], p2=["queue:2"], c1=["dequeue"], k=["close"])),
    (2, P(p1=["queue:1", "queue:2"], c1=["dequeueT"], c2=["tryDequeue", "size"])),
    (1, P(p1=["tryQueueT:1", "tryQueueT:2"], c1=["dequeue"], k=["close"])),
    # a timed put blocked on a FULL queue when close() runs, and nobody else takes anything: what the producer finds afterwards
    # shows whether the put was refused (the capacity bound leaves no other linearization)
    (1, P(p1=["tryQueueT:1", "tryQueueT:2", "tryDequeue", "tryDequeue"], k=["close"])),
    (1, P(p1=["queue:1", "queue:2", "tryDequeue", "tryDequeue"], k=["close"])),
    (1, P(c1=["dequeue"], c2=["dequeue"], p1=["queue:1"], k=["close"])),
    # status calls from a third thread while a producer and a consumer work
    (2, P(p1=["queue:1", "queue:2", "queue:3"], c1=["dequeue", "dequeue"], m1=["size", "size", "size"])),
    # two consumers parked, two puts, NO close: each put must wake a consumer of its own
    (2, P(c1=["dequeue"], c2=["dequeue"], p1=["queue:1", "queue:2"])),
    (1, P(p1=["queue:1", "queue:2"], p2=["queue:3"], c1=["dequeue", "dequeue", "dequeue"])),
]
THOROUGH = QUICK + [
    (2, P(p1=["queue:1", "queue:2", "queue:3"], c1=["dequeue", "dequeue"], k=["close"])),
    (1, P(p1=["queue:1", "queue:2"], p2=["queue:3"], c1=["dequeue", "dequeueT"], k=["close"])),
    (1, P(p1=["queue:1"], p2=["tryQueue:2"], c1=["dequeue"], c2=["dequeueT"], k=["close"])),
    (2, P(p1=["tryQueueT:1", "queue:2"], p2=["queue:3"], c1=["dequeue", "tryDequeue", "size"], k=["close"])),
    (1, P(c1=["dequeue"], c2=["dequeue"], c3=["dequeueT"], p1=["queue:1", "queue:2"], k=["close"])),
]


def prog_text(prog):
    return ";".join("%s=%s" % (t, ",".join("%s:%d" % (o, v) for o, v in ops)) for t, ops in prog.items())


def gen_mc(ck, idx, cap, prog, close_takes_mutex=True, dot=True):
    d = os.path.join(ck.work, "mc%d%s" % (idx, "" if close_takes_mutex else "n"))
    os.makedirs(d, exist_ok=True)
    mod = "MCBQ"
    tprog = {t: [vf.Rec(op=o, v=v) for o, v in ops] for t, ops in prog.items()}
    with open(os.path.join(d, mod + ".tla"), "w") as f:
        f.write("---- MODULE %s ----\nEXTENDS BlockingQueue\n" % mod)
        f.write("MCThreads == %s\n" % vf.tla(set(prog.keys())))
        f.write("MCProg == %s\n====\n" % vf.tla(tprog))
    cfg = os.path.join(d, mod + ".cfg")
    vf.write_cfg(cfg, constants={"Cap": cap, "Threads": "<- MCThreads", "Prog": "<- MCProg",
                                 "CloseTakesMutex": close_takes_mutex},
                 invariants=["CapOk", "Fifo", "NoStuck", "ClosedWakesAll"])
    return os.path.join(d, mod + ".tla"), cfg, os.path.join(d, "graph.dot")


def labels_to_plan(labels):
    plan, ops = [], []
    for lab in labels:
        act, args = vf.label_thread(lab)
        plan.append(args[0] + ("!" if act == "Timeout" else ""))
        ops.append(ACT2OP.get(act, act))
    return plan, ops


def run(ck):
    thorough = ck.tier == "thorough"
    ck.make("drv_bq")
    programs = THOROUGH if thorough else QUICK
    ck.rule = ("blocking queue: every edge of the TLC state graph of BlockingQueue.tla (per program) is covered by a "
               "behaviour that is replayed on the real object; plus preemption-bounded DFS and seeded random schedules of "
               "the real object; a case is non-trivial when its schedule contains a condition wait, a timeout or a close. "
               "ring buffer: see ring_* keys")
    cases = []      # (cap, prog, policy line, expected ops or None, kind)
    # ---- 1. model checking + behaviour generation (parallel TLC runs)
    def mc(job):
        idx, cap, prog = job
        tla_path, cfg, dot = gen_mc(ck, idx, cap, prog)
        r = vf.run_tlc(tla_path, cfg, tag="C10_mc%d" % idx, workers=2, dump_dot=dot, lib_dirs=[SPECDIR], coverage=True)
        return idx, cap, prog, r, dot
    with cf.ThreadPoolExecutor(max_workers=6) as ex:
        results = list(ex.map(mc, [(i, c, p) for i, (c, p) in enumerate(programs)]))
    for idx, cap, prog, r, dot in results:
        if r.error:
            raise vf.Infra("TLC failed on program %d: %s" % (idx, r.error))
        ck.states += r.distinct
        ck.transitions += r.generated
        for a, (tk, gn) in r.coverage.items():
            ck.cov[a] = ck.cov.get(a, 0) + gn
        if r.violated:
            # the Impl specification (the design the code is meant to follow) violates the property
            rp = ck.save_replay("impl_spec_%d" % idx, {"tlc.out": r.out, "program.txt": prog_text(prog)})
            ck.violation("BlockingQueue.tla violates %s for program %s" % (r.violated, prog_text(prog)), rp)
            continue
        g = vf.Graph.load(dot)
        limit = None if thorough else 60
        paths, covered, total = g.transition_cover(ck.rng, limit=limit)
        extra = g.random_walks(ck.rng, 40 if thorough else 10)
        ck.note("program %d (%s): %d states, %d edges, %d cover behaviours (%d/%d edges)" % (
            idx, prog_text(prog), r.distinct, g.n_edges(), len(paths), covered, total))
        for pth in paths + extra:
            plan, ops = labels_to_plan(pth)
            cases.append((cap, prog, "replay " + " ".join(plan), ops, "replay"))
        os.remove(dot)
    for a in ACT2OP:
        if ck.cov.get(a, 0) == 0:
            raise vf.Infra("self-test: Impl action %s never taken in any model-checked program" % a)
    # ---- 4. regression probe: the specification must see the lost wake-up when close() skips the mutex
    tla_path, cfg, dot = gen_mc(ck, 0, programs[0][0], programs[0][1], close_takes_mutex=False)
    cex = os.path.join(ck.work, "cex.json")
    r = vf.run_tlc(tla_path, cfg, tag="C10_probe", workers=1, dump_trace=cex, lib_dirs=[SPECDIR])
    if r.violated not in ("NoStuck", "ClosedWakesAll"):
        raise vf.Infra("self-test: Impl with CloseTakesMutex=FALSE should violate NoStuck, got %r %s" % (r.violated, r.error))
    ck.states += r.distinct
    ck.transitions += r.generated
    if r.trace_json:
        acts = r.trace_json["counterexample"]["action"]
        plan = []
        for a in acts:
            name = a[1]["name"]
            ctx = a[1].get("context", {})
            t = ctx.get("t")
            if t is None:
                continue
            plan.append(t + ("!" if name == "Timeout" else ""))
        # the counterexample was found for close() WITHOUT the mutex: on the repaired code close has two more steps, so the
        # plan is given as a hint and the scheduler continues on its own when it no longer fits (drift is expected here)
        cases.append((programs[0][0], programs[0][1], "replay " + " ".join(plan), None, "probe"))
        ck.sample({"kind": "lost-wake-up probe (TLC counterexample of the unrepaired design)", "plan": plan})
    # ---- 3. random schedules
    nrand = 400 if thorough else 60
    for i in range(nrand):
        cap, prog = programs[i % len(programs)]
        cases.append((cap, prog, "random %d" % (ck.seed * 100003 + i), None, "random"))
    cases_path = os.path.join(ck.work, "cases.txt")
    with open(cases_path, "w") as f:
        for cap, prog, pol, ops, kind in cases:
            f.write("%d | %s | %s\n" % (cap, prog_text(prog), pol))
    out_path = os.path.join(ck.work, "bq.ndjson")
    rc, out = vf.run_driver("drv_bq", ["run", cases_path, out_path, 16], timeout=900)
    if rc != 0:
        raise vf.Infra("drv_bq failed: " + out[-2000:])
    judge(ck, out_path, cases, "bq")
    # ---- the same cases in a ThreadSanitizer build: "any threads ... no data race" for the blocking queue, status calls included
    # (the scheduler is not instrumented and passes the baton invisibly, so TSan judges the queue's own synchronisation only)
    ck.make("drv_bq.tsan")
    tsan_path = os.path.join(ck.work, "tsan_cases.txt")
    tcases = [c for c in cases if c[4] == "random"][: (400 if thorough else 60)]
    with open(tsan_path, "w") as f:
        for cap, prog, pol, ops, kind in tcases:
            f.write("%d | %s | %s\n" % (cap, prog_text(prog), pol))
    tout = os.path.join(ck.work, "bq_tsan.ndjson")
    rc, out = vf.run_driver("drv_bq.tsan", ["run", tsan_path, tout, 16], timeout=900,
                            env={"TSAN_OPTIONS": "halt_on_error=1 report_signal_unsafe=0 report_thread_leaks=0 suppressions=" + os.path.join(vf.HARNESS, "tsan.supp")})
    if rc != 0:
        raise vf.Infra("drv_bq.tsan failed: " + out[-2000:])
    tev = vf.read_ndjson(tout)
    crashed = [i for i, (st, evs) in enumerate(vf.split_executions(tev)) if any(e["e"] == "Crashed" for e in evs)]
    ck.evaluations += len(tcases)
    ck.note("bq tsan: %d executions, %d ended by a ThreadSanitizer report" % (len(tcases), len(crashed)))
    if crashed:
        cap, prog, pol, ops, kind = tcases[crashed[0]]
        rp = ck.save_replay("bq_tsan", {"case.txt": "%d | %s | %s\n" % (cap, prog_text(prog), pol), "tsan.out": out[-20000:]})
        ck.violation("ThreadSanitizer report (data race) in a BlockingQueue execution: %d | %s | %s" % (cap, prog_text(prog), pol), rp)
    # ---- DFS of the real object
    dfs_jobs = [(1, programs[0][1], 2), (1, programs[2][1], 2), (2, programs[9][1], 2), (1, programs[10][1], 2)]
    if thorough:
        dfs_jobs = [(c, p, 2) for c, p in programs[:8]] + [(1, programs[0][1], 4)]
    for j, (cap, prog, bound) in enumerate(dfs_jobs):
        outp = os.path.join(ck.work, "dfs%d.ndjson" % j)
        rc, out = vf.run_driver("drv_bq", ["dfs", cap, prog_text(prog), bound, 60000 if thorough else 4000, outp, 16],
                                timeout=1500)
        if rc != 0:
            raise vf.Infra("drv_bq dfs failed: " + out[-2000:])
        ck.note("dfs %s bound=%d: %s" % (prog_text(prog), bound, out.strip()))
        judge(ck, outp, None, "dfs%d" % j, prog=(cap, prog))
    # ---- ring buffers
    c10_ring.run(ck)


def judge(ck, trace_path, cases, name, prog=None):
    events = vf.read_ndjson(trace_path)
    execs = vf.split_executions(events)
    ck.evaluations += len(execs)
    drift = 0
    mismatch = 0
    inconclusive = 0
    for i, (start, evs) in enumerate(execs):
        end = [e for e in evs if e["e"] == "End"]
        bad = [e for e in evs if e["e"] in ("Crashed", "HarnessTimeout")]
        if bad:
            rp = ck.save_replay("%s_crash_%d" % (name, i), {"trace.ndjson": "\n".join(json.dumps(e) for e in evs),
                                                          "case.txt": case_line(cases, i, prog)})
            if bad[0]["e"] == "Crashed":
                ck.violation("execution crashed (signal / sanitizer / abort) — %s" % case_line(cases, i, prog), rp)
            else:
                raise vf.Infra("execution %d of %s exceeded the harness wall-clock limit" % (i, name))
            continue
        if not end:
            continue
        e = end[0]
        if e["outcome"] in ("steplimit", "external"):
            inconclusive += 1
        if e.get("drift"):
            drift += 1
        if cases is not None and i < len(cases) and cases[i][3] is not None:
            exp = cases[i][3]
            if e.get("ops", [])[:len(exp)] != exp:
                mismatch += 1
                if mismatch <= 3:
                    ck.note("model drift in %s: expected %s got %s" % (case_line(cases, i, prog), exp, e.get("ops")))
        nontrivial = any(x["e"] == "Call" and x["op"] in ("close", "dequeueT", "tryQueueT") for x in evs) or \
            any(o in ("cv_wait", "timeout") for o in e.get("ops", []))
        if nontrivial:
            ck.nontrivial_keys = getattr(ck, "nontrivial_keys", set())
            ck.nontrivial_keys.add(json.dumps([x for x in evs if x["e"] in ("Call", "Ret")], sort_keys=True))
    ck.nontrivial = len(getattr(ck, "nontrivial_keys", set()))
    v = ck.validate(os.path.join(SPECDIR, "QueueTrace.tla"), os.path.join(SPECDIR, "QueueTrace.cfg"), trace_path,
                    n_exec=len(execs))
    ck.note("%s: %d executions, schedule drift=%d, sync-op sequence differs from Impl actions=%d, inconclusive=%d" % (
        name, len(execs), drift, mismatch, inconclusive))
    ck.model_drift = getattr(ck, "model_drift", 0) + drift + mismatch
    if execs:
        ck.sample({"kind": name, "case": case_line(cases, 0, prog), "events": execs[0][1][:12]})
    if not v.accepted:
        x = vf.exec_index_of_line(events, v.maxl)
        start, evs = execs[x] if x < len(execs) else (0, [])
        rp = ck.save_replay("%s_reject_%d" % (name, x), {
            "trace.ndjson": "\n".join(json.dumps(e) for e in evs) + "\n",
            "case.txt": case_line(cases, x, prog) + "\n",
            "why.txt": "QueueTrace.tla cannot match line %d of the execution: %s\n%s" % (
                v.maxl - start + 1, json.dumps(events[v.maxl - 1]) if v.maxl <= len(events) else "?",
                ("invariant " + v.violated) if v.violated else "")})
        ck.violation("blocking queue execution not explainable by the Abs queue (%s): first unmatched event %s" % (
            case_line(cases, x, prog), json.dumps(events[v.maxl - 1]) if v.maxl <= len(events) else "?"), rp)


def case_line(cases, i, prog):
    if cases is not None and i < len(cases):
        cap, p, pol, ops, kind = cases[i]
        return "%d | %s | %s" % (cap, prog_text(p), pol)
    if prog is not None:
        return "%d | %s | dfs" % (prog[0], prog_text(prog[1]))
    return "?"


def replay(ck, path):
    """re-run one saved case against the current tree and re-validate it"""
    ck.make("drv_bq")
    case = open(os.path.join(path, "case.txt")).read().strip()
    if case.endswith("| dfs"):
        cap, prog, _ = [x.strip() for x in case.split("|")]
        outp = os.path.join(ck.work, "replay.ndjson")
        vf.run_driver("drv_bq", ["dfs", cap, prog, 2, 4000, outp, 16])
        judge(ck, outp, None, "replay", prog=(int(cap), {}))
        return
    cp = os.path.join(ck.work, "case.txt")
    open(cp, "w").write(case + "\n")
    outp = os.path.join(ck.work, "replay.ndjson")
    vf.run_driver("drv_bq", ["run", cp, outp, 1])
    print(open(outp).read())
    judge(ck, outp, None, "replay")
