"""X26 (extra, not in MANIFEST.json) — iora::core::TokenBucket and RateLimiterMap: the lazily replenished bucket equals the eager
one (exact verdicts, availableTokens, timeUntilAvailable for one caller), and with several callers on a shared map no key is
granted more than burst + rate * length in any interval.  TokenBucket.tla model-checked (two constant sets + Dev_NoCap self-test);
RateLimiterMap.tla
(tryConsume's three critical sections against removeKey) gives the program of observation O-26a; executions under the scheduler with
virtual time validated against BucketTrace.tla."""
import os, json
import vf
SPECDIR = os.path.join(vf.SPEC, "extra")


def run(ck):
    ck.make("drv_s_bucket")
    ck.rule = "random programs (tryConsume / sleep / availableTokens / timeUntilAvailable) of 1-3 callers under random schedules with virtual time"
    for cfg in ("TokenBucket.cfg", "TokenBucket_b.cfg"):
        r = vf.run_tlc(os.path.join(SPECDIR, "TokenBucket.tla"), os.path.join(SPECDIR, cfg), tag="X26", workers=4, coverage=True, timeout=600)
        if r.error:
            raise vf.Infra("TLC failed: " + r.error)
        ck.states += r.distinct; ck.transitions += r.generated
        ck.note("TokenBucket.tla / %s: %s" % (cfg, r.summary()))
        if r.violated:
            ck.violation("TokenBucket.tla violates %s" % r.violated, ck.save_replay("impl", {"tlc.out": r.out})); return
    d = vf.run_tlc(os.path.join(SPECDIR, "TokenBucket.tla"), os.path.join(SPECDIR, "TokenBucket_dev.cfg"), tag="X26dev", workers=2, timeout=300)
    if d.violated != "Bound":
        raise vf.Infra("self-test: Dev_NoCap should violate Bound, got %r %r" % (d.violated, d.error))
    ck.note("self-test: Dev_NoCap = TRUE violates Bound (%s)" % d.summary())
    # RateLimiterMap.tla: tryConsume's three critical sections against removeKey().  As the code is (RetryOnMiss = FALSE) the model
    # admits a refusal without any grant - its counterexample is the "a=C1z;b=Rz" program below (observation O-26a); with the retry
    # a repair would add, both invariants hold.
    m = vf.run_tlc(os.path.join(SPECDIR, "RateLimiterMap.tla"), os.path.join(SPECDIR, "RateLimiterMap.cfg"), tag="X26map", workers=2, timeout=300)
    if m.violated != "NoSpuriousRefusal":
        raise vf.Infra("RateLimiterMap.tla (as the code is) should violate NoSpuriousRefusal, got %r %r" % (m.violated, m.error))
    ck.note("RateLimiterMap.tla as the code is (RetryOnMiss = FALSE): NoSpuriousRefusal violated as expected = observation O-26a (%s)" % m.summary())
    m3 = vf.run_tlc(os.path.join(SPECDIR, "RateLimiterMap.tla"), os.path.join(SPECDIR, "RateLimiterMap_cleanup.cfg"), tag="X26mapc", workers=2, timeout=300)
    if m3.violated != "NoBusyEviction":
        raise vf.Infra("RateLimiterMap.tla (cleanup as the code is) should violate NoBusyEviction, got %r %r" % (m3.violated, m3.error))
    ck.note("RateLimiterMap.tla, cleanup as the code is (EraseRechecks = FALSE): NoBusyEviction violated as expected = observation O-26b (%s)" % m3.summary())
    m2 = vf.run_tlc(os.path.join(SPECDIR, "RateLimiterMap.tla"), os.path.join(SPECDIR, "RateLimiterMap_retry.cfg"), tag="X26mapr", workers=2, coverage=True, timeout=300)
    if m2.error or m2.violated:
        raise vf.Infra("RateLimiterMap.tla with RetryOnMiss = EraseRechecks = TRUE: %r %r" % (m2.violated, m2.error))
    ck.states += m2.distinct; ck.transitions += m2.generated
    ck.note("RateLimiterMap.tla with RetryOnMiss = EraseRechecks = TRUE (3 callers, burst 2, 2 removes, 2 cleanups): %s" % m2.summary())
    lines = []
    for i in range(1200 if ck.tier == "thorough" else 300):
        rate = ck.rng.choice([1, 1, 2, 3]); burst = ck.rng.choice([1, 2, 3, 4])
        progs = []
        if i % 8 == 7:
            # removeKey() racing tryConsume()'s slow path (insert, then a second findAndModify): key z is only ever touched here
            progs.append("a=" + ",".join(ck.rng.choice(["C1z", "C1z", "C1x"]) for _ in range(ck.rng.randint(1, 3))))
            progs.append("b=" + ",".join(ck.rng.choice(["Rz", "Rz", "C1x"]) for _ in range(ck.rng.randint(1, 3))))
        elif i % 8 == 3:
            # cleanup()'s two passes against a caller drawing from the bucket in between: d * rate >= burst, so an ATOMIC cleanup is invisible
            rate = 1; burst = 2
            progs.append("a=C2x,S,S,S,O,K2,C2x")
            progs.append("b=G,C2x" + ck.rng.choice(["", ",C1x"]))
        elif i % 2 == 0:
            ops = [ck.rng.choice(["C1x", "C1x", "C2x", "C3x", "S", "S", "Q", "W1", "W2", "W4"]) for _ in range(ck.rng.randint(4, 12))]
            progs.append("a=" + ",".join(ops))
        else:
            for name in ("a", "b", "c")[: ck.rng.randint(2, 3)]:
                progs.append(name + "=" + ",".join(ck.rng.choice(["C1x", "C1x", "C2x", "C1y", "S"]) for _ in range(ck.rng.randint(2, 6))))
        lines.append("%d %d | %s | random %d" % (rate, burst, ";".join(progs), ck.seed * 17 + i))
    cp = os.path.join(ck.work, "cases.txt"); open(cp, "w").write("\n".join(lines) + "\n")
    outp = os.path.join(ck.work, "b.ndjson")
    rc, out = vf.run_driver("drv_s_bucket", ["run", cp, outp], timeout=900)
    if rc != 0 or "crashed=0 timedout=0" not in out:
        raise vf.Infra("drv_s_bucket failed: " + out[-1000:])
    events = vf.read_ndjson(outp); execs = vf.split_executions(events)
    if len(execs) != len(lines):
        raise vf.Infra("drv_s_bucket: %d executions for %d cases" % (len(execs), len(lines)))
    ck.evaluations += len(execs)
    ck.nontrivial = len({json.dumps(e[1]) for e in execs if any(x.get("ok") is False for x in e[1]) and any(x.get("ok") is True for x in e[1])})
    v = ck.validate(os.path.join(SPECDIR, "BucketTrace.tla"), os.path.join(SPECDIR, "BucketTrace.cfg"), outp, n_exec=len(execs))
    obs = []
    for x, e in enumerate(execs):
        evs = e[1]; b = next((q for q in evs if q.get("e") == "Begin"), None)
        if not b or b.get("threads") == 1:
            continue
        for q in evs:
            if q.get("e") == "Consume" and q.get("ok") is False and q["n"] <= b["burst"] \
               and not any(g.get("e") == "Consume" and g.get("k") == q["k"] and g.get("ok") for g in evs) \
               and any(g.get("e") == "Remove" and g.get("k") == q["k"] for g in evs):
                obs.append(x); break
    if obs:
        ck.note("OBSERVATION O-26a (Obs_RemoveRacesSlowPath): RateLimiterMap::tryConsume refuses although no token of the key was ever granted - "
                "removeKey() ran between the slow path's insert and its second findAndModify; seen in %d executions, first: %s" % (len(obs), lines[obs[0]]))
    else:
        ck.note("observation O-26a (removeKey racing tryConsume's slow path) not reproduced by this run's schedules")
    obs2 = []
    for x, e in enumerate(execs):
        evs = e[1]; b = next((q for q in evs if q.get("e") == "Begin"), None)
        if not b or not any(q.get("e") == "Cleanup" for q in evs):
            continue
        g = [q for q in evs if q.get("e") == "Consume" and q.get("ok") and q["k"] == "x"]
        tm = max([q["t1"] for q in g] + [0])
        if any(sum(q["n"] for q in g if q["t0"] >= s0 and q["t1"] <= u) > b["burst"] + b["rate"] * (u - s0) for s0 in range(tm + 1) for u in range(s0, tm + 1)):
            obs2.append(x)
    if obs2:
        ck.note("OBSERVATION O-26b (Obs_CleanupEvictsBusyBucket): RateLimiterMap::cleanup erases a bucket that was drawn from between its two passes; the "
                "re-created bucket is full and the key is granted more than burst + rate * length - seen in %d executions, first: %s" % (len(obs2), lines[obs2[0]]))
    else:
        ck.note("observation O-26b (cleanup()'s two passes racing a caller) not reproduced by this run's schedules")
    ck.sample({"kind": "token bucket execution", "case": lines[0], "events": execs[0][1][:10]})
    if not v.accepted:
        x = vf.exec_index_of_line(events, v.maxl)
        rp = ck.save_replay("reject_%d" % x, {"trace.ndjson": "\n".join(json.dumps(e) for e in execs[x][1]) + "\n", "case.txt": lines[x] + "\n"})
        ck.violation("token bucket execution rejected at %s (%s)" % (json.dumps(events[v.maxl - 1]), lines[x]), rp)


def replay(ck, path):
    run(ck)
