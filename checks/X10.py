"""X10 (extra, not in MANIFEST.json) — iora::network::ConnectionHealth / HealthMonitor (network/connection_health.hpp).

ConnHealth.tla transcribes the health state machine operation by operation; its PROPERTIES are stated over a ghost history
with a reference evaluator (count of consecutive failures, level of the count, last activity, totals) and are model-checked
exhaustively (MCConnHealth*.cfg); every Dev_* slip must be reported by TLC (self-test).  The plain state graphs (one id x
three configurations, two ids x two configurations) are the test plan: a transition cover plus seeded random operation
sequences are replayed on the REAL HealthMonitor and on stand-alone ConnectionHealth objects under the scheduler's virtual
clock; after every operation all accessors are logged and TLC validates the log against ConnHealthTrace.tla (the
specification's own actions compute the expected observation; all reference properties are evaluated on every recorded
state).  A small concurrent part (random 2-3 thread programs under random schedules + preemption-bounded DFS of two
directed programs) is validated for linearizability against ConnHealthLinTrace.tla.

Deviations of the code are accepted through named flags and reported as OBSERVATION notes (the check stays green):
  Dev_StaleState         updateConfig does not re-evaluate the state
  Dev_SplitUpdateConfig  HealthMonitor::updateConfig assigns the default configuration before taking the lock
"""
import os, re, json, shutil
from concurrent.futures import ThreadPoolExecutor
import vf

SPECDIR = os.path.join(vf.SPEC, "extra")
MC = os.path.join(SPECDIR, "MCConnHealth.tla")
TRACE = os.path.join(SPECDIR, "MCConnHealthTrace.tla")
LIN = os.path.join(SPECDIR, "MCConnHealthLinTrace.tla")
ACTIONS = ["Add", "Remove", "Activity", "Failure", "Success", "Tick", "UpdateConfig"]
TOK = {"Add": "+", "Remove": "-", "Activity": "a", "Failure": "f", "Success": "s", "UpdateConfig": "u"}
DEVS = ["StaleState", "SuccessResets", "ThresholdStrict", "FailureTouchesActivity", "CriticalGe", "AddKeepsOld", "UnknownCreates",
        "ActivityKeepsFailures"]
# directed concurrent programs (set-up | threads); explored with a preemption-bounded DFS over the real code's schedules
DIRECTED = [("+1 | a=u2;b=+2,f2,f2,f1,f1,f1,qo", 1), ("+1 | a=u2;b=u3,+2,f2,f2,f1,f1,qo", 2)]


def _cfg(ck, base, name, subs=(), add=()):
    """a variant of a static cfg (spec/extra/<base>) written under ck.work"""
    txt = open(os.path.join(SPECDIR, base)).read()
    for pat, rep in subs:
        txt, n = re.subn(pat, rep, txt)
        if n == 0:
            raise vf.Infra("cfg %s: pattern %s not found" % (base, pat))
    txt += "".join(l + "\n" for l in add)
    p = os.path.join(ck.work, name)
    open(p, "w").write(txt)
    return p


def _par(jobs, n=3):
    """run callables concurrently (each is one single-worker TLC process; at most 3 at a time)"""
    with ThreadPoolExecutor(max_workers=n) as ex:
        return [f.result() for f in [ex.submit(j) for j in jobs]]


def _cfgs_from_tlc(out):
    m = re.search(r'<<\s*"CFGS",(.*?)>>\s*>>', out, re.S)
    if not m:
        raise vf.Infra("the configurations were not printed by TLC")
    res = []
    for rec in re.findall(r"\[([^\]]+)\]", m.group(1)):
        d = dict((k.strip(), v.strip()) for k, v in (kv.split("|->") for kv in rec.split(",")))
        res.append("%s:%s:%s:%d" % (d["hb"], d["to"], d["max"], 1 if d["en"] == "TRUE" else 0))
    if not res:
        raise vf.Infra("no configuration parsed from TLC's output")
    return res


def _tok(label):
    a, args = vf.label_thread(label)
    return "t" if a == "Tick" else TOK[a] + args[0]


def _validate(module, cfg, path, tag):
    v = vf.validate_trace(module, cfg, path, tag=tag, timeout=900)
    if v.error:
        raise vf.Infra("trace validation error (%s): %s" % (os.path.basename(cfg), v.error))
    return v


def _tlc_stage(ck, thorough):
    """all TLC runs that do not need the code, three single-worker processes at a time: exhaustive model checking of the reference
    properties (ghost history on), the Dev_* self-tests, and the plain state graphs (test plan).  Returns (configurations in
    driver format, operation sequences) or None after a violation of the specification itself."""
    ops1, ops2, opss = (7, 7, 7) if thorough else (6, 5, 5)
    g1, g2 = ((10, 5), (7, 3)) if thorough else ((7, 4), (5, 3))
    mo = lambda n: (r"MaxOps = \d+", "MaxOps = %d" % n)
    mt = lambda n: (r"MaxTime = \d+", "MaxTime = %d" % n)
    mcs = [("strict", _cfg(ck, "MCConnHealthStrict.cfg", "strict.cfg", [mo(opss)])),
           ("ref1", _cfg(ck, "MCConnHealthRef1.cfg", "ref1.cfg", [mo(ops1)])),
           ("ref2", _cfg(ck, "MCConnHealthRef2.cfg", "ref2.cfg", [mo(ops2)]))]
    plans = [("G1", _cfg(ck, "MCConnHealthG1.cfg", "g1.cfg", [mo(g1[0]), mt(g1[1])])),
             ("G2", _cfg(ck, "MCConnHealthG2.cfg", "g2.cfg", [mo(g2[0]), mt(g2[1])]))]
    dots = {n: os.path.join(ck.work, n + ".dot") for n, _ in plans}
    devs = [(d, _cfg(ck, "MCConnHealthStrict.cfg", "dev_%s.cfg" % d, [mo(5), (r"Dev_%s = FALSE" % d, "Dev_%s = TRUE" % d)])) for d in DEVS]
    jobs = [lambda n=n, c=c: vf.run_tlc(MC, c, tag="X10_" + n, workers=1, coverage=True, timeout=900) for n, c in mcs]
    jobs += [lambda n=n, c=c: vf.run_tlc(MC, c, tag="X10_" + n, workers=1, coverage=True, dump_dot=dots[n], timeout=900) for n, c in plans]
    jobs += [lambda d=d, c=c: vf.run_tlc(MC, c, tag="X10_dev_" + d, workers=1, timeout=600) for d, c in devs]
    rs = _par(jobs)
    cfgs, lines = None, []
    for (n, c), r in zip(mcs + plans, rs):
        if r.error:
            raise vf.Infra("TLC failed on %s: %s" % (n, r.error))
        ck.states += r.distinct; ck.transitions += r.generated
        what = open(c).readline().strip("\\* \n")
        if r.violated:
            ck.violation("ConnHealth.tla (%s) violates %s" % (n, r.violated), ck.save_replay("impl_" + n, {"tlc.out": r.out[-30000:]}))
            return None
        for a in ACTIONS:
            if r.coverage.get(a, (0, 0))[1] <= 0:
                raise vf.Infra("vacuous model: action %s never taken in %s" % (a, n))
            ck.cov[a] = ck.cov.get(a, 0) + r.coverage[a][1]
        cfgs = cfgs or _cfgs_from_tlc(r.out)
        if n in dots:
            g = vf.Graph.load(dots[n]); os.remove(dots[n])
            paths, covered, total = g.transition_cover(ck.rng, maxlen=60)
            if covered != total or not paths:
                raise vf.Infra("%s: transition cover incomplete (%d/%d)" % (n, covered, total))
            ck.note("test plan %s (%s): %s; %d behaviours cover %d/%d edges" % (n, what, r.summary(), len(paths), covered, total))
            lines += [" ".join(_tok(l) for l in p) for p in paths]
        else:
            ck.note("ConnHealth.tla %s (%s): %s" % (n, what, r.summary()))
    caught = []
    for (d, c), r in zip(devs, rs[len(mcs) + len(plans):]):
        if r.error:
            raise vf.Infra("TLC failed on Dev_%s: %s" % (d, r.error))
        if not r.violated:
            raise vf.Infra("self-test failed: Dev_%s = TRUE is not reported by TLC (the properties are too weak)" % d)
        m = re.search(r"Error: (?:Invariant|Action property) (\w+) is violated", r.out)
        caught.append("%s:%s" % (d, m.group(1) if m else r.violated))
    ck.note("self-test: every Dev_* slip is reported by TLC (%s)" % ", ".join(caught))
    return cfgs, lines


def random_sequences(ck, n, ncfg):
    """seeded random operation sequences beyond the bounds of the dumped graphs (longer, deeper failure counts, all configurations)"""
    out = []
    for _ in range(n):
        w = ck.rng.choice([(6, 2, 2, 1, 2, 1, 2), (3, 1, 1, 2, 1, 3, 1), (8, 3, 1, 1, 1, 2, 3), (4, 4, 2, 2, 2, 4, 2)])
        seq = ["+1"] if ck.rng.random() < 0.8 else []
        for _ in range(ck.rng.randint(10, 36)):
            k = ck.rng.choices("fsa+-tu", weights=w)[0]
            seq.append("t" if k == "t" else "u%d" % ck.rng.randint(1, ncfg) if k == "u" else "%s%d" % (k, ck.rng.choice([1, 1, 2])))
        out.append(" ".join(seq))
    return out


def _dump(path, execs):
    with open(path, "w") as f:
        for _, evs in execs:
            for e in evs:
                f.write(json.dumps(e, separators=(",", ":")) + "\n")
            f.write('{"e":"Reset"}\n')


class Part:
    """one driver run: its cases, the recorded events, and the validations wanted for it"""
    def __init__(self, name, header, lines, outp):
        self.name, self.header, self.lines, self.outp = name, header, lines, outp
        self.events = vf.read_ndjson(outp)
        self.execs = vf.split_executions(self.events)
        if len(self.execs) != len(lines):
            raise vf.Infra("%s: driver produced %d executions for %d cases" % (name, len(self.execs), len(lines)))
        if any(e["e"] == "HarnessTimeout" for e in self.events):
            raise vf.Infra("%s: an execution timed out in the harness" % name)
        shutil.rmtree(outp + ".d", ignore_errors=True)

    def case(self, x):
        return self.header + self.lines[x]

    def incomplete(self, ck, mode):
        for i, e in enumerate(self.events):
            if e["e"] == "End" and e.get("outcome") in ("steplimit", "external"):
                raise vf.Infra("%s: the scheduler gave up on an execution (%s): %s" % (self.name, e["outcome"], self.lines[vf.exec_index_of_line(self.events, i + 1)]))
            if e["e"] == "Crashed" or (e["e"] == "End" and e.get("outcome") != "done"):
                x = vf.exec_index_of_line(self.events, i + 1)
                ck.violation("the real object crashed / did not complete (%s) on case: %s" % (json.dumps(e), self.lines[x]),
                             ck.save_replay("incomplete_%s_%d" % (self.name, x), {"case.txt": self.case(x) + "\n"}))
                return True
        return False

    def reject(self, ck, what, v, tag):
        x = vf.exec_index_of_line(self.events, v.maxl)
        ev = self.events[v.maxl - 1] if 0 < v.maxl <= len(self.events) else None
        rp = ck.save_replay("%s_%s_%d" % (tag, self.name, x), {"trace.ndjson": "\n".join(json.dumps(e) for e in self.execs[x][1]) + "\n",
                                                               "case.txt": self.case(x) + "\n", "tlc.out": v.out[-20000:]})
        why = ("property %s fails on the recorded state" % v.violated) if v.violated else "the object's observation differs from the specification"
        ck.violation("%s: %s at %s (case: %s)" % (what, why, json.dumps(ev)[:400], self.lines[x][:300]), rp)


def drive_sequential(ck, cfgs, lines, k):
    header = "C " + " ".join(cfgs) + "\nN 2\n"
    parts = []
    for i in range(k):
        sub = lines[i::k]
        cp = os.path.join(ck.work, "seq%d_cases.txt" % i); open(cp, "w").write(header + "\n".join(sub) + "\n")
        outp = os.path.join(ck.work, "seq%d.ndjson" % i)
        rc, out = vf.run_driver("drv_s_connhealth", ["seq", cp, outp, 8], timeout=900)
        if rc != 0:
            raise vf.Infra("drv_s_connhealth seq failed: " + out[-1000:])
        p = Part("seq%d" % i, header, sub, outp); parts.append(p)
        ck.evaluations += len(p.execs)
        ck.nontrivial += len({ln for ln, (_, evs) in zip(sub, p.execs)
                              if any(e.get("un") or e.get("hbl") or any(c.get("to") for c in e.get("v", [])) for e in evs)})
    ck.sample({"kind": "sequential behaviour on HealthMonitor + ConnectionHealth", "ops": parts[0].lines[0], "events": parts[0].execs[0][1][:3]})
    return parts


def drive_concurrent(ck, thorough, cfgs):
    header = "C " + " ".join(cfgs) + "\nN 2\n"
    outs, case_lines = [], []
    for i, (prog, bound) in enumerate(DIRECTED):      # directed programs: every schedule with at most `bound` preemptions
        cp = os.path.join(ck.work, "dfs%d.txt" % i); open(cp, "w").write(header + prog + " | random 1\n")
        outp = os.path.join(ck.work, "dfs%d.ndjson" % i)
        rc, out = vf.run_driver("drv_s_connhealth", ["dfs", cp, bound, 4000 if thorough else 1500, outp, 8], timeout=900)
        m = re.search(r"executions=(\d+) truncated=(\d+)", out)
        if rc != 0 or not m:
            raise vf.Infra("drv_s_connhealth dfs failed: " + out[-1000:])
        n = int(m.group(1))
        ck.note("concurrent, directed '%s': all %d schedules with <= %d preemption(s)%s" % (prog, n, bound, " (truncated)" if m.group(2) != "0" else ""))
        outs.append(outp); case_lines += ["%s | dfs bound %d" % (prog, bound)] * n
        shutil.rmtree(outp + ".d", ignore_errors=True)
    lines = []
    for i in range(1200 if thorough else 250):        # random programs under random schedules
        setup = ck.rng.choice(["+1", "+1 +2", "+1 f1", "+1 f1 f1 t", "+1 t +2 f2", ""])
        progs = []
        for name in ("a", "b", "c")[: ck.rng.randint(2, 3)]:
            ops = []
            for _ in range(ck.rng.randint(2, 5)):
                k = ck.rng.choices(["f", "s", "a", "+", "-", "u", "t", "qu", "qh", "qo"], weights=[6, 2, 2, 2, 1, 3, 2, 2, 2, 3])[0]
                ops.append(k if k[0] in "tq" else "u%d" % ck.rng.randint(1, len(cfgs)) if k == "u" else "%s%d" % (k, ck.rng.randint(1, 2)))
            progs.append(name + "=" + ",".join(ops))
        lines.append("%s | %s | random %d" % (setup, ";".join(progs), ck.seed * 31 + i))
    cp = os.path.join(ck.work, "conc_cases.txt"); open(cp, "w").write(header + "\n".join(lines) + "\n")
    outp = os.path.join(ck.work, "conc_rand.ndjson")
    rc, out = vf.run_driver("drv_s_connhealth", ["conc", cp, outp, 8], timeout=900)
    if rc != 0:
        raise vf.Infra("drv_s_connhealth conc failed: " + out[-1000:])
    shutil.rmtree(outp + ".d", ignore_errors=True)
    outs.append(outp); case_lines += lines
    allp = os.path.join(ck.work, "conc.ndjson")
    with open(allp, "w") as f:
        for p in outs:
            f.write(open(p).read())
    part = Part("conc", header, case_lines, allp)
    ck.evaluations += len(part.execs)
    ck.nontrivial += len({json.dumps(e[1]) for e in part.execs})
    ck.sample({"kind": "concurrent execution on one HealthMonitor", "case": case_lines[-1],
               "events": [e for e in part.execs[-1][1] if e["e"] in ("Call", "Ret", "CTick")][:10]})
    return part


def tsan_stage(ck, cfgs):
    """thorough: the concurrent programs once more in the ThreadSanitizer build (real races are visible although the scheduler
    serializes the threads: its baton passing adds no happens-before).  A race whose two accesses are the unlocked `config_ = config`
    of HealthMonitor::updateConfig and a reader/writer of the same field is observation O2; any other data race is a violation."""
    ck.make("drv_s_connhealth.tsan")
    header = "C " + " ".join(cfgs) + "\nN 2\n"
    lines = [prog + " | random %d" % (ck.seed + i) for prog, _ in DIRECTED for i in range(3)]
    for i in range(60):
        progs = []
        for name in ("a", "b", "c"):
            progs.append(name + "=" + ",".join(ck.rng.choice(["f1", "f2", "s1", "a1", "a2", "+1", "+2", "-1", "-2", "u1", "u2", "u3", "qu", "qh", "qo", "t"]) for _ in range(4)))
        lines.append("+1 +2 | %s | random %d" % (";".join(progs), ck.seed * 77 + i))
    cp = os.path.join(ck.work, "tsan_cases.txt"); open(cp, "w").write(header + "\n".join(lines) + "\n")
    outp = os.path.join(ck.work, "tsan.ndjson")
    # one report file per process (= per execution): reports of parallel executions must not interleave
    logd = os.path.join(ck.work, "tsan_logs"); shutil.rmtree(logd, ignore_errors=True); os.makedirs(logd)
    rc, out = vf.run_driver("drv_s_connhealth.tsan", ["conc", cp, outp, 4], timeout=900,
                            env={"TSAN_OPTIONS": "halt_on_error=0 exitcode=0 report_signal_unsafe=0 report_thread_leaks=0 log_path=%s suppressions=%s" % (
                                os.path.join(logd, "r"), os.path.join(vf.HARNESS, "tsan.supp"))})
    m = re.search(r"executions=(\d+) crashed=(\d+) timedout=(\d+)", out)
    if rc != 0 or not m or int(m.group(1)) != len(lines) or int(m.group(3)) > 0:
        raise vf.Infra("drv_s_connhealth.tsan failed: " + out[-1500:])
    crashed = int(m.group(2))
    shutil.rmtree(outp + ".d", ignore_errors=True)
    ck.evaluations += len(lines)
    known, other, texts = 0, [], []
    for fn in sorted(os.listdir(logd)):
        text = open(os.path.join(logd, fn), errors="replace").read(); texts.append(text)
        for rep in text.split("WARNING: ThreadSanitizer: ")[1:]:
            tops = re.findall(r"^\s+(?:Previous )?(?:[Aa]tomic )?(?:[Rr]ead|[Ww]rite) of size \d+ at \S+ by [^\n]*\n\s+#0 ([^\n]*)", rep, re.M)
            in_uc = [t for t in tops if "HealthMonitor::updateConfig(" in t]
            rest = [t for t in tops if not any(k in t for k in ("HealthMonitor::updateConfig(", "ConnectionHealth::ConnectionHealth(", "HealthMonitor::addConnection(",
                                                                "make_unique<iora::network::ConnectionHealth"))]
            if rep.startswith("data race") and len(tops) == 2 and in_uc and not rest:
                known += 1
            else:
                other.append(rep)
    out = "\n".join(texts)
    if crashed and not other:
        other.append("%d execution(s) crashed in the ThreadSanitizer build without a report" % crashed)
    if other:
        rp = ck.save_replay("tsan", {"tsan.out": out[-60000:], "case.txt": header + "\n".join(lines) + "\n"})
        ck.violation("ThreadSanitizer report outside the known updateConfig race: " + " / ".join(other[0].splitlines()[:4])[:500], rp)
    elif known:
        ck.note("OBSERVATION O2 (data race, ThreadSanitizer, %d reports in %d executions): HealthMonitor::updateConfig writes config_ without holding mutex_ "
                "while addConnection reads it (and another updateConfig writes it) - undefined behaviour under concurrent use; no other race reported" % (known, len(lines)))
    else:
        ck.note("ThreadSanitizer: no data race in %d concurrent executions" % len(lines))


def run(ck):
    thorough = ck.tier == "thorough"
    ck.make("drv_s_connhealth")
    ck.rule = ("transition cover of the TLC state graphs of ConnHealth.tla (1 id x 3 configurations, 2 ids x 2 configurations) + seeded random "
               "operation sequences replayed on the real HealthMonitor/ConnectionHealth under virtual time, every accessor compared after every "
               "operation; random 2-3 thread programs + preemption-bounded DFS for linearizability; non-trivial = an execution with an unhealthy, "
               "heartbeat-due or timed-out connection (sequential) / a distinct event sequence (concurrent)")
    st = _tlc_stage(ck, thorough)
    if st is None:
        return
    cfgs, lines = st
    lines += random_sequences(ck, 3000 if thorough else 200, len(cfgs))
    seq = drive_sequential(ck, cfgs, lines, 3 if thorough else 1)
    conc = drive_concurrent(ck, thorough, cfgs)
    if any(p.incomplete(ck, "seq") for p in seq) or conc.incomplete(ck, "conc"):
        return
    # strict reading of updateConfig: a sample of the executions that call it is enough to exhibit (or not) the deviation
    with_u = [i for i, ln in enumerate(seq[0].lines) if re.search(r"\bu\d", ln)][:400]
    strict = Part.__new__(Part)
    strict.name, strict.header, strict.lines = "strict", seq[0].header, [seq[0].lines[i] for i in with_u]
    strict.execs = [seq[0].execs[i] for i in with_u]
    strict.outp = os.path.join(ck.work, "strict.ndjson"); _dump(strict.outp, strict.execs)
    strict.events = vf.read_ndjson(strict.outp); strict.execs = vf.split_executions(strict.events)
    T = lambda c: os.path.join(SPECDIR, c)
    jobs = [lambda p=p: _validate(TRACE, T("ConnHealthTrace.cfg"), p.outp, "X10_val_" + p.name) for p in seq]
    jobs += [lambda: _validate(TRACE, T("ConnHealthTraceStrict.cfg"), strict.outp, "X10_val_strict"),
             lambda: _validate(LIN, T("ConnHealthLinTrace.cfg"), conc.outp, "X10_lin_atomic"),
             lambda: _validate(LIN, T("ConnHealthLinTraceSplit.cfg"), conc.outp, "X10_lin_split")]
    vs = _par(jobs)
    vseq, vstrict, vatomic, vsplit = vs[:len(seq)], vs[-3], vs[-2], vs[-1]
    # ---- sequential verdict
    for p, v in zip(seq, vseq):
        ck.note("validate %s.ndjson as coded (Dev_StaleState): %d executions, %d events: accepted=%s maxl=%d states=%d %.1fs" % (
            p.name, len(p.execs), v.n, v.accepted, v.maxl, v.states, v.wall))
        ck.states += v.states
    if all(v.accepted for v in vseq):
        ck.traces += sum(len(p.execs) for p in seq)
        if not vstrict.accepted:
            x = vf.exec_index_of_line(strict.events, vstrict.maxl)
            ev = strict.events[vstrict.maxl - 1]
            ck.note("OBSERVATION O1 (Dev_StaleState): updateConfig does not re-evaluate the connection state - after '%s' the object reports %s "
                    "which is not the level of its failure count under the configuration now in force (strict reading StateCurrent rejects %s); "
                    "the state stays stale until the next failure/success on that connection" % (
                        " ".join(strict.lines[x].split()[:vstrict.maxl - strict.execs[x][0]]),
                        [c.get("st") + "/cf=%d" % c.get("cf") for c in ev.get("v", []) if c.get("p")], json.dumps({k: ev[k] for k in ev if k in ("e", "c", "id")})))
        else:
            ck.note("strict reading accepted on %d executions calling updateConfig: deviation O1 not exercised / no longer present" % len(strict.execs))
    else:
        # the as-coded reading failed: the object may follow the strict reading instead - anything else is a violation
        for p, v in zip(seq, vseq):
            if v.accepted:
                continue
            v2 = _validate(TRACE, T("ConnHealthTraceStrict.cfg"), p.outp, "X10_val_strict_" + p.name)
            if v2.accepted:
                ck.note("%s: the object follows the STRICT reading (updateConfig re-evaluates the state): deviation O1 no longer present" % p.name)
                continue
            best, which = (v, "as-coded") if v.maxl >= v2.maxl else (v2, "strict")
            p.reject(ck, "HealthMonitor/ConnectionHealth (%s reading of updateConfig)" % which, best, "reject")
            break
    # ---- concurrent verdict
    ck.note("validate conc.ndjson: %d executions, %d events; atomic operations: accepted=%s maxl=%d %.1fs; as coded (Dev_SplitUpdateConfig): accepted=%s maxl=%d %.1fs" % (
        len(conc.execs), vatomic.n, vatomic.accepted, vatomic.maxl, vatomic.wall, vsplit.accepted, vsplit.maxl, vsplit.wall))
    ck.states += vatomic.states + vsplit.states
    if vatomic.accepted:
        ck.traces += len(conc.execs)
        ck.note("every concurrent execution is linearizable with atomic operations: deviation O2 not exercised / no longer present")
    elif vsplit.accepted:
        ck.traces += len(conc.execs)
        x = vf.exec_index_of_line(conc.events, vatomic.maxl)
        hist = " ".join("%s:%s%s" % (e["t"], e["op"], (str(e["x"]) if e["op"][0] != "q" else "") if e["e"] == "Call" else
                                    ("->" + json.dumps(e["ov"], separators=(",", ":")) if "ov" in e else "->")) for e in conc.execs[x][1] if e["e"] in ("Call", "Ret"))
        ck.note("OBSERVATION O2 (Dev_SplitUpdateConfig): HealthMonitor::updateConfig is not atomic - it assigns config_ before taking mutex_ "
                "(unsynchronized write; addConnection reads it under the lock) and updates the connections afterwards: program '%s' has the "
                "non-linearizable history [%s] (call = 'thread:op', return = 'thread:op->result'; rejected with atomic operations at line %d, "
                "accepted with the two-step updateConfig)" % (conc.lines[x], hist, vatomic.maxl))
    else:
        conc.reject(ck, "HealthMonitor under concurrent callers (two-step updateConfig allowed)", vsplit, "reject")
    if ck.violations or not thorough:
        return
    # ---- thorough: the recorded executions must be REJECTED with each slip switched on in the trace specification
    sample = Part.__new__(Part)
    sample.execs = seq[0].execs[:3000]; sample.outp = os.path.join(ck.work, "sample.ndjson"); _dump(sample.outp, sample.execs)
    devs = [d for d in DEVS if d != "StaleState"]
    dcfgs = [_cfg(ck, "ConnHealthTrace.cfg", "tdev_%s.cfg" % d, [(r"Dev_%s = FALSE" % d, "Dev_%s = TRUE" % d)]) for d in devs]
    vd = _par([lambda d=d, c=c: _validate(TRACE, c, sample.outp, "X10_tdev_" + d) for d, c in zip(devs, dcfgs)])
    for d, v in zip(devs, vd):
        if v.accepted:
            raise vf.Infra("self-test failed: the recorded executions are accepted with Dev_%s = TRUE (test plan too weak)" % d)
    ck.note("self-test: %d recorded executions are rejected with each slip switched on in the trace specification (%s)" % (
        len(sample.execs), ", ".join("%s@%d" % (d, v.maxl) for d, v in zip(devs, vd))))
    tsan_stage(ck, cfgs)


def replay(ck, path):
    """re-run the saved case (case.txt = driver header + one case line) and validate it again; without one, the whole check"""
    cp = os.path.join(path, "case.txt")
    if not os.path.exists(cp):
        return run(ck)
    ck.make("drv_s_connhealth")
    txt = [l for l in open(cp).read().splitlines() if l.strip()]
    header, case = "\n".join(txt[:-1]) + "\n", txt[-1]
    conc = "|" in case
    outp = os.path.join(ck.work, "replay.ndjson")
    if conc and "dfs bound" in case:
        bound = int(case.rsplit("dfs bound", 1)[1])
        cp = os.path.join(ck.work, "replay_case.txt"); open(cp, "w").write(header + case.rsplit("|", 1)[0] + "| random 1\n")
        rc, out = vf.run_driver("drv_s_connhealth", ["dfs", cp, bound, 4000, outp, 8], timeout=900)
    else:
        rc, out = vf.run_driver("drv_s_connhealth", ["conc" if conc else "seq", cp, outp, 8], timeout=900)
    if rc != 0:
        raise vf.Infra("drv_s_connhealth failed: " + out[-1000:])
    n = len(vf.split_executions(vf.read_ndjson(outp)))
    part = Part("replay", header, [case] * n, outp)
    ck.evaluations += n
    if part.incomplete(ck, "replay"):
        return
    T = lambda c: os.path.join(SPECDIR, c)
    if conc:
        v = _validate(LIN, T("ConnHealthLinTraceSplit.cfg"), outp, "X10_replay")
    else:
        v = _validate(TRACE, T("ConnHealthTrace.cfg"), outp, "X10_replay")
        if not v.accepted:
            v2 = _validate(TRACE, T("ConnHealthTraceStrict.cfg"), outp, "X10_replay_s")
            v = v2 if v2.accepted or v2.maxl > v.maxl else v
    ck.note("replay %s: %d execution(s), accepted=%s maxl=%d" % (path, n, v.accepted, v.maxl))
    if v.accepted:
        ck.traces += n
    else:
        part.reject(ck, "replayed case", v, "replay")
