"""X14 (extra, not registered in MANIFEST.json) - iora::parsers html_escape.hpp (escapeHtml, urlDecode / formDecode,
urlEncode / formEncode, parseFormBody) and the iora::web::htmx helpers (tests/web/test_html_escape.cpp, test_htmx_helpers.cpp).

  1. spec/extra/HtmlEscape.tla and spec/extra/Htmx.tla are generator + Impl specifications (one action per loop iteration /
     guard decision of the code); Init enumerates every input of the configured families.  Invariants compare the Impl result
     with the Abs operators of HtmlOps.tla (escape = homomorphism rewriting exactly five octets, context safety, left
     inverse, idempotence rule; lenient percent decoding, decode(encode(x)) = x; form body = last-wins map split at the first
     '='; setter refuses iff CR/LF or - URL-valued setters - a browser would read a javascript: / data: / vbscript: scheme).
     Every Dev_* flag must make TLC report a violation.
  2. every terminal state is a case: harness/drv_html.cpp (ASan+UBSan, exact-size heap blocks) calls the real functions.
  3. TLC validates the events against spec/extra/HtmlTrace.tla (the oracle evaluates the Abs operators on the logged input).
"""
import os, json, concurrent.futures as cf
from collections import Counter
import vf
from checks import xtext_common as xc

SPECDIR = xc.SPECDIR
DEVS_H = {"Dev_EscAposNamed": None, "Dev_EscNoQuot": None, "Dev_EscAmpLast": None, "Dev_DecBoundTight": None, "Dev_DecBoundLoose": None,
          "Dev_DecPlusInUrl": None, "Dev_DecUpperOnly": None, "Dev_EncLowerHex": None, "Dev_EncTildeEscaped": None,
          "Dev_FormFirstWins": None, "Dev_FormLastEq": None, "Dev_FormDecodeFirst": None}
DEVS_X = ["Dev_NoTabIgnore", "Dev_LeadSpaceOnly", "Dev_SchemeCaseSensitive", "Dev_SchemePrefixMatch", "Dev_PushUrlNoScheme",
          "Dev_RetargetNoCrlf", "Dev_WriteBeforeCheck", "Dev_IsHtmxAnyCase", "Dev_EmptyIsAbsent"]
ACT_H = ["EscSpecial", "EscCopy", "EscEnd", "DecTriple", "DecPctLiteral", "DecPlus", "DecCopy", "DecEnd", "EncKeep", "EncPlus", "EncHex",
         "EncEnd", "FormSkipEmpty", "FormField", "FormEnd"]
ACT_X = ["CrlfReject", "CrlfPass", "Lead", "EmptyAfterTrim", "FirstNotAlpha", "Scan", "SchemeReject", "SchemePass", "SetHeader", "Refresh", "Inspect"]
INV_H = ["Refines", "EscLaws", "EncLaws", "NoOob", "Progress"]
INV_X = ["Refines", "NeverWritesCrLf", "Progress"]
OPS = {"esc": "ESC", "udec": "UDEC", "fdec": "FDEC", "uenc": "UENC", "fenc": "FENC", "form": "FORM"}


def cfg_h(ck, name, sets, dev=None, emit=True):
    p = os.path.join(ck.work, name + ".cfg")
    c = {"EscInputs": "<- " + sets[0], "DecInputs": "<- " + sets[1], "EncInputs": "<- " + sets[2], "FormInputs": "<- " + sets[3]}
    for d in DEVS_H:
        c[d] = (d == dev)
    vf.write_cfg(p, constants=c, invariants=INV_H + (["Emit"] if emit else []))
    return p


def cfg_x(ck, name, sets, dev=None, emit=True):
    p = os.path.join(ck.work, name + ".cfg")
    c = {"Values": "<- " + sets[0], "ValuesOther": "<- " + sets[1], "InspValues": "<- " + sets[2]}
    for d in DEVS_X:
        c[d] = (d == dev)
    vf.write_cfg(p, constants=c, invariants=INV_X + (["Emit"] if emit else []))
    return p


def to_line(c):
    if "mode" in c:
        return "%s %s" % (OPS[c["mode"]], xc.hexs(c["inp"]))
    if c["kind"] in ("set", "refresh"):
        return "SET %s %s" % (c["setter"], xc.hexs(c["val"]))
    return "INSP %s %d %d %s" % (c["name"], 1 if c["present"] else 0, len(c["val"]) % 2, xc.hexs(c["val"]))


def drive_and_judge(ck, tag, lines_in):
    cp = os.path.join(ck.work, tag + ".cases")
    op = os.path.join(ck.work, tag + ".ndjson")
    open(cp, "w").write("\n".join(lines_in) + "\n")
    n, crashed, hung = xc.run_drv("drv_html.asan", cp, op, batch=500, parallel=8)
    lines, bad, obs = xc.validate_sharded(ck, "HtmlTrace", op, nshards=4)
    if len(lines) != len(lines_in):
        raise vf.Infra("drv_html: %d events for %d cases" % (len(lines), len(lines_in)))
    ck.evaluations += len(lines)
    ck.traces += len(lines) - len({ln for ln, _ in bad})
    if crashed or hung:
        ck.note("driver: %d crashed, %d hung; sanitizer output: %s" % (crashed, hung, xc.worker_stderr(op, 1500)))
    xc.report_bad(ck, "HtmlTrace", lines, bad, lambda ln: lines_in[ln - 1])
    return lines, bad


def run(ck):
    thorough = ck.tier == "thorough"
    ck.make("drv_html.asan")
    ck.rule = ("cases = ALL terminal states of HtmlEscape.tla (escape: strings up to 4 over & < > \" ' a ; E9; decode: up to 4 over % 4 1 0 f G +; "
               "encode: every octet + pairs of range-edge octets; form body: up to 4 pieces of a b = & + %41 %3D %26 %) and Htmx.tla (values of "
               "up to 3 pieces of javascript JaVaScRiPt java script data vbscript http : TAB SP NUL CR LF x / -foo 1 for each URL setter, up to 2 "
               "for the others; inspectors x 7 values x present/absent); thorough: one more octet / piece. Expected results by HtmlOps.tla. "
               "Non-trivial = input containing a special / '%' / '+' / '&' / '=' / a scheme piece")
    if thorough:
        hmod = xc.write_mc(ck, "MCHtmlEscapeT", "MCHtmlEscape", [
            "TEsc == SeqsUpTo({38, 60, 62, 34, 39, 97, 59, 233, 0, 35}, 4) \\cup SeqsUpTo({38, 60, 39, 97}, 6)",
            "TDec == SeqsUpTo({37, 52, 49, 48, 102, 71, 43}, 5) \\cup SeqsUpTo({37, 65, 97, 58, 47, 64, 96, 103, 128}, 4)",
            "TEnc == MCEncInputs \\cup SeqsUpTo({32, 43, 37, 126, 97, 255}, 4)",
            "TForm == {Flat(ps) : ps \\in SeqsUpTo(MCPieces, 5)}"])
        hcfg = cfg_h(ck, "MCHtmlEscapeT", ("TEsc", "TDec", "TEnc", "TForm"))
        xmod = xc.write_mc(ck, "MCHtmxT", "MCHtmx", [
            "TValues == {Flat(ps) : ps \\in SeqsUpTo(MCPieces \\ {<<49>>, <<47>>, <<104, 116, 116, 112>>}, 4)}"])
        xcfg = cfg_x(ck, "MCHtmxT", ("TValues", "MCValuesOther", "MCInspValues"))
    else:
        hmod, hcfg = os.path.join(SPECDIR, "MCHtmlEscape.tla"), os.path.join(SPECDIR, "MCHtmlEscape.cfg")
        xmod, xcfg = os.path.join(SPECDIR, "MCHtmx.tla"), os.path.join(SPECDIR, "MCHtmx.cfg")
    # deviation flags on reduced families that contain a witness for each (started now, joined at the end)
    dh = xc.write_mc(ck, "MCHtmlDev", "MCHtmlEscape", [
        "DEsc == SeqsUpTo({38, 60, 34, 39, 97}, 2)", "DDec == SeqsUpTo({37, 52, 102, 43}, 3)", "DEnc == {<<c>> : c \\in {32, 58, 126, 97, 255}}",
        "DForm == {Flat(ps) : ps \\in SeqsUpTo({<<97>>, <<61>>, <<38>>, <<37, 50, 54>>}, 4)}"])
    dx = xc.write_mc(ck, "MCHtmxDev", "MCHtmx", [
        "DValues == {Flat(ps) : ps \\in SeqsUpTo({<<106, 97, 118, 97>>, <<115, 99, 114, 105, 112, 116>>, <<74, 65, 86, 65>>, <<58>>, <<9>>, <<1>>, <<45>>, <<13>>}, 4)}",
        "DOther == {<<13>>, <<97>>}"])
    jobs = [(d, dh, cfg_h(ck, "devh_" + d, ("DEsc", "DDec", "DEnc", "DForm"), dev=d, emit=False), None) for d in DEVS_H]
    jobs += [(d, dx, cfg_x(ck, "devx_" + d, ("DValues", "DOther", "MCInspValues"), dev=d, emit=False), None) for d in DEVS_X]
    devs = xc.dev_selftests_start(ck, jobs, parallel=2)
    with cf.ThreadPoolExecutor(max_workers=2) as ex:
        fh = ex.submit(xc.run_gen, ck, hmod, hcfg, "genH", "Html.", ACT_H, 2, 1500, True, "Impl of html_escape.hpp")
        fx = ex.submit(xc.run_gen, ck, xmod, xcfg, "genX", "Htmx.", ACT_X, 2, 1500, True, "Impl of htmx.hpp")
        (rh, ch), (rx, cx) = fh.result(), fx.result()
    if rh.violated or rx.violated:
        xc.dev_selftests_join(ck, devs)
        return

    ch.sort(key=lambda c: (c["mode"], len(c["inp"]), c["inp"]))
    cx.sort(key=lambda c: (c["kind"], c["setter"], c["name"], c["present"], c["val"]))
    modes = Counter(c["mode"] for c in ch)
    classes = Counter((c["setter"] or c["kind"]) + ":" + c["cls"] for c in cx)
    ck.note("HtmlEscape.tla: %d cases %s; Htmx.tla: %d cases %s" % (len(ch), dict(modes), len(cx), dict(classes)))
    for m in OPS:
        if modes.get(m, 0) == 0:
            raise vf.Infra("generator produced no case of mode " + m)
    for k in ("redirect:dangerous", "pushurl:dangerous", "redirect:crlf", "trigger:crlf", "retarget:dangerous", "redirect:scheme",
              "redirect:noscheme", "refresh:refresh", "insp:insp"):
        if classes.get(k, 0) == 0:
            raise vf.Infra("generator produced no case of class " + k)
    cases = ch + cx
    lines_in = [to_line(c) for c in cases]
    lines, bad = drive_and_judge(ck, "html", lines_in)
    badset = {ln for ln, _ in bad}
    drift = 0
    for k, (c, ln) in enumerate(zip(cases, lines), 1):
        if k in badset:
            continue
        e = json.loads(ln)
        if e["e"] in ("Esc", "Dec", "Enc") and e["out"] != c["out"]:
            drift += 1
        elif e["e"] == "Set" and e["threw"] != c["threw"]:
            drift += 1
    if drift:
        ck.note("model drift: %d events accepted by the Abs oracle differ from the Impl model's prediction" % drift)
    marks = {38, 60, 62, 34, 39, 37, 43, 61, 58}
    ck.nontrivial = sum(1 for c in ch if marks & set(c["inp"])) + sum(1 for c in cx if c["kind"] == "insp" or c["cls"] != "noscheme")
    ck.exhaustive = True
    ck.assumptions.append("bounds: the stated input families (strings of at most 4-6 octets / pieces)")
    for c in [x for x in ch if x["mode"] == "esc" and len(x["inp"]) == 4][-1:] + [x for x in ch if x["mode"] == "form" and len(x["pairs"]) == 2][:1]:
        ck.sample({"mode": c["mode"], "input": bytes(c["inp"]).decode("latin-1"), "out": bytes(c["out"]).decode("latin-1"),
                   "pairs": [[bytes(k).decode("latin-1"), bytes(v).decode("latin-1")] for k, v in c["pairs"]]})
    for c in [x for x in cx if x["cls"] == "dangerous" and 9 in x["val"] and x["setter"] == "redirect"][:1] + [x for x in cx if x["cls"] == "scheme"][:1]:
        ck.sample({"setter": c["setter"], "value": bytes(c["val"]).decode("latin-1"), "class": c["cls"], "threw": c["threw"]})

    # oracle self-test on synthesised events
    L = lambda b: list(b)
    T4 = L(b"true")
    def setev(s, v, threw, hdrs=None, exc=None):
        key = {"redirect": "HX-Redirect", "pushurl": "HX-Push-Url", "retarget": "HX-Retarget", "reswap": "HX-Reswap", "trigger": "HX-Trigger"}[s]
        return dict(e="Set", setter=s, val=L(v), threw=threw, exc=exc or ("invalid_argument" if threw else "none"),
                    hdrs=hdrs if hdrs is not None else ([] if threw else [{"k": key, "v": L(v)}]))
    def insp(name, present, val, **kw):
        d = dict(e="Insp", name=name, present=present, kc=0, val=L(val), htmx=False, boost=False, trig=False, trigv=[], tname=False, tnamev=[],
                 target=False, targetv=[])
        d.update(kw)
        return d
    good = [{"e": "Esc", "in": L(b"a<'&"), "out": L(b"a&lt;&#39;&amp;"), "out2": L(b"a&amp;lt;&amp;#39;&amp;amp;")},
            {"e": "Esc", "in": L(b"a;\xe9"), "out": L(b"a;\xe9"), "out2": L(b"a;\xe9")},
            {"e": "Dec", "form": False, "in": L(b"%41+%4%zz%"), "out": L(b"A+%4%zz%")}, {"e": "Dec", "form": True, "in": L(b"a+b%2B"), "out": L(b"a b+")},
            {"e": "Enc", "form": False, "in": L(b"a b~:"), "out": L(b"a%20b~%3A"), "back": L(b"a b~:")},
            {"e": "Enc", "form": True, "in": L(b"a b+"), "out": L(b"a+b%2B"), "back": L(b"a b+")},
            {"e": "Form", "in": L(b"a=1&&b&a=2=%263"), "pairs": [[L(b"a"), L(b"2=&3")], [L(b"b"), []]]},
            setev("redirect", b" java\tscript:x", True), setev("redirect", b"javascript-foo:x", False), setev("retarget", b"javascript:x", False),
            setev("trigger", b"a\nb", True), setev("pushurl", b"false", False), setev("redirect", b"java\0script:", False),
            insp("HX-Request", True, b"true", htmx=True), insp("HX-Request", True, b"TRUE"), insp("HX-Trigger", True, b"", trig=True),
            insp("HX-Trigger-Name", True, b"n", tname=True, tnamev=L(b"n")), insp("HX-Target", False, b"")]
    corrupt = [{"e": "Esc", "in": L(b"'"), "out": L(b"&apos;"), "out2": L(b"&amp;apos;")}, {"e": "Esc", "in": L(b'"'), "out": L(b'"'), "out2": L(b'"')},
               {"e": "Esc", "in": L(b"<"), "out": L(b"&amp;lt;"), "out2": L(b"&amp;amp;lt;")}, {"e": "Esc", "in": L(b"a;"), "out": L(b"a&#59;"), "out2": L(b"a&amp;#59;")},
               {"e": "Esc", "in": L(b"<"), "out": L(b"&lt;"), "out2": L(b"&lt;")},
               {"e": "Dec", "form": False, "in": L(b"a+b"), "out": L(b"a b")}, {"e": "Dec", "form": False, "in": L(b"x%41"), "out": L(b"x%41")},
               {"e": "Dec", "form": True, "in": L(b"%4"), "out": L(b"")}, {"e": "Enc", "form": False, "in": L(b":"), "out": L(b"%3a"), "back": L(b":")},
               {"e": "Enc", "form": False, "in": L(b"~"), "out": L(b"%7E"), "back": L(b"~")}, {"e": "Enc", "form": True, "in": L(b" "), "out": L(b"%20"), "back": L(b" ")},
               {"e": "Form", "in": L(b"a=1&a=2"), "pairs": [[L(b"a"), L(b"1")]]}, {"e": "Form", "in": L(b"a=b=c"), "pairs": [[L(b"a=b"), L(b"c")]]},
               {"e": "Form", "in": L(b"a%26b=1"), "pairs": [[L(b"a"), []], [L(b"b"), L(b"1")]]}, {"e": "Form", "in": L(b"a&&b"), "pairs": [[[], []], [L(b"a"), []], [L(b"b"), []]]},
               setev("redirect", b"java\tscript:x", False), setev("redirect", b"\x01javascript:x", False), setev("pushurl", b"DATA:x", False),
               setev("redirect", b"javascript-foo:x", True), setev("retarget", b"javascript:x", True), setev("reswap", b"a\rb", False),
               setev("redirect", b"a\nb", True, hdrs=[{"k": "HX-Redirect", "v": L(b"a\nb")}]), setev("pushurl", b"/x", False, hdrs=[{"k": "HX-PushUrl", "v": L(b"/x")}]),
               setev("trigger", b"a\nb", True, exc="other"),
               insp("HX-Request", True, b"TRUE", htmx=True), insp("HX-Trigger", True, b""), insp("HX-Trigger-Name", True, b"n", trig=True, trigv=L(b"n")),
               insp("HX-Boosted", True, b"true", htmx=True), dict(e="Crashed", k=1)]
    xc.selftest_oracle(ck, "HtmlTrace", good, corrupt)
    xc.dev_selftests_join(ck, devs)


def replay(ck, path):
    ck.make("drv_html.asan")
    lines_in = [ln.strip() for ln in open(os.path.join(path, "cases.txt")) if ln.strip()]
    lines, bad = drive_and_judge(ck, "replay", lines_in)
    print("\n".join(lines[:50]))
