"""C12 — the key-value store is a map with absolute expiry, across restarts.

1. TLC checks spec/storage/KvMap.tla (Impl: _kv/_expiry/bounded cache/wheel timers with generation ids/eviction
   queue + worker/persisted image with absolute expiries/compaction/close/reopen/time passing) against the Abs map
   of KvAbs.tla as a refinement invariant: in every reachable state every read path (get fast and slow path, exists,
   keys, prefix scan, size, getBatch, ttl) answers what the reference map answers at `now`.
   Self-tests: with Dev_ExpiredKeyResurrected (F-12a) / Dev_ReplayDropsPerRecord (F-12b) = TRUE TLC must report the
   violation; each counterexample becomes a probe history for the real code.
2. KvMap.tla in generator mode prints operation histories (all histories of 3 steps, seeded simulation for longer
   ones, the probes).  harness/drv_kvmap.cpp replays them on the REAL KVStore under a virtual CLOCK_REALTIME with
   maxCacheSize = 1, (a) with a slow wheel - the eviction worker does not run, expired keys stay in memory - in both
   read orders, (b) with a 10 ms wheel where the worker runs all the time, (c) with a concurrent reader thread.
   After every step ALL read APIs are logged.
3. TLC validates every log against spec/storage/KvMapTrace.tla (Abs map evaluated at the virtual now; concurrent
   reads must be explained by one of the states they overlapped).
"""
import os, json, re, concurrent.futures as cf
import vf

SPECDIR = os.path.join(vf.SPEC, "storage")
ALL_KINDS = ["set", "setttl", "rm", "exp", "per", "get", "batch", "clear", "rmp", "compact", "close", "tick"]
MEM_KINDS = [k for k in ALL_KINDS if k not in ("compact", "close")]
DISK_KINDS = ["set", "setttl", "rm", "exp", "per", "compact", "close", "tick"]
ACTIONS = ["Set", "SetTtl", "Remove", "SetBatch", "ExpireAt", "Persist", "Clear", "RemovePrefix", "Get", "TimePasses",
           "Fire", "WorkerStale", "WorkerReArm", "WorkerEvict", "Compact", "Close", "Reopen"]
NV_DEFAULT = 2


def module(ck, name, kinds=ALL_KINDS, invariants=("Inv_Reads", "Inv_Struct"), **const):
    d = os.path.join(ck.work, name)
    os.makedirs(d, exist_ok=True)
    c = dict(NK=2, NV=NV_DEFAULT, MaxTime=3, MaxTtl=2, MaxOps=3, CacheMax=1, WorkerOn=True,
             Dev_ExpiredKeyResurrected=False, Dev_ReplayDropsPerRecord=False, Emit=False)
    c.update(const)
    with open(os.path.join(d, "MCKvMap.tla"), "w") as f:
        f.write("---- MODULE MCKvMap ----\nEXTENDS KvMap\nMCKinds == %s\n====\n" % vf.tla(set(kinds)))
    consts = dict(c)
    consts["OpKinds"] = "<- MCKinds"
    cfg = os.path.join(d, "MCKvMap.cfg")
    vf.write_cfg(cfg, constants=consts, invariants=list(invariants))
    return os.path.join(d, "MCKvMap.tla"), cfg


def hist_lines(r):
    out = []
    seen = set()
    for ln in r.prints:
        m = re.match(r'^"HIST (.*)"$', ln.strip())
        if m and m.group(1) not in seen:
            seen.add(m.group(1))
            out.append(m.group(1))
    return out


def cex_history(r, nv):
    if not r.trace_json:
        return None
    ops = []
    for a in r.trace_json["counterexample"]["action"]:
        name, c = a[1]["name"], a[1].get("context", {})
        if name == "Set": ops.append("set %d %d" % (c["k"], c["v"]))
        elif name == "SetTtl": ops.append("setttl %d %d %d" % (c["k"], c["v"], c["d"]))
        elif name == "Remove": ops.append("rm %d" % c["k"])
        elif name == "ExpireAt": ops.append("exp %d %d" % (c["k"], c["t"]))
        elif name == "Persist": ops.append("per %d" % c["k"])
        elif name == "Get": ops.append("get %d" % c["k"])
        elif name == "SetBatch": ops.append("batch %d 1:%d,2:%d" % (c["d"], c["a"], nv))
        elif name == "Clear": ops.append("clear")
        elif name == "RemovePrefix": ops.append("rmp 1")
        elif name == "Compact": ops.append("compact")
        elif name == "Close": ops.append("close")
        elif name == "Reopen": ops.append("open")
        elif name == "TimePasses": ops.append("tick %d" % c["d"])
    return ";".join(ops)


def run(ck):
    thorough = ck.tier == "thorough"
    ck.make("drv_kvmap")
    ck.rule = ("histories = step sequences printed by TLC from KvMap.tla in generator mode (every 3-step history over "
               "2 keys / 2 values / TTL 1-2 / absolute expiries 0-4 / time jumps 1-3, every 4-step TTL/expireAt/persist/"
               "compact/close/tick history over one key, seeded simulation of 6-8 steps over 3 keys / 3 values, "
               "counterexamples of the Dev_* self-tests); each is replayed on the real store under a "
               "virtual wall clock with all read APIs logged after every step, under a slow wheel (both read orders; cache sizes 0-3), a "
               "10 ms wheel (eviction worker active) and with a concurrent reader; non-trivial = the history lets an "
               "expiry pass (TTL/expireAt followed by a time jump) or restarts / compacts the store")
    # ------------------------------------------------------------------ 1. model checking, self-tests, generators
    jobs = []
    mod, cfg = module(ck, "mc3")
    jobs.append(("mc3", mod, cfg, dict(workers=6, coverage=True, timeout=1500)))
    if thorough:
        mod, cfg = module(ck, "mc4mem", kinds=MEM_KINDS, MaxOps=4)
        jobs.append(("mc4mem", mod, cfg, dict(workers=5, timeout=2400)))
        mod, cfg = module(ck, "mc4disk", kinds=DISK_KINDS, MaxOps=4, NV=1)
        jobs.append(("mc4disk", mod, cfg, dict(workers=5, timeout=2400)))
    mod, cfg = module(ck, "dev_res", kinds=DISK_KINDS, NV=1, MaxOps=4, Dev_ExpiredKeyResurrected=True, invariants=["Inv_Reads"])
    jobs.append(("dev_res", mod, cfg, dict(workers=1, dump_trace=os.path.join(ck.work, "cex_res.json"))))
    mod, cfg = module(ck, "dev_rep", kinds=DISK_KINDS, NV=1, MaxOps=4, Dev_ReplayDropsPerRecord=True, invariants=["Inv_Reads"])
    jobs.append(("dev_rep", mod, cfg, dict(workers=2, dump_trace=os.path.join(ck.work, "cex_rep.json"))))
    mod, cfg = module(ck, "gen3", MaxOps=3, MaxTime=3, WorkerOn=False, Emit=True, invariants=["EmitInv"])
    jobs.append(("gen3", mod, cfg, dict(workers=4, timeout=1500)))
    # restart / compaction focused: one key, one value, all 4-step histories (+ the open that follows a close)
    mod, cfg = module(ck, "genR", kinds=["setttl", "exp", "per", "compact", "close", "tick"], NK=1, NV=1, MaxOps=4, MaxTime=2,
                      MaxTtl=2, WorkerOn=False, Emit=True, invariants=["EmitInv"])
    jobs.append(("genR", mod, cfg, dict(workers=2, timeout=1500)))
    if thorough:
        mod, cfg = module(ck, "mc3c0", CacheMax=0)
        jobs.append(("mc3c0", mod, cfg, dict(workers=4, timeout=2400)))
        mod, cfg = module(ck, "mc3c2", CacheMax=2)
        jobs.append(("mc3c2", mod, cfg, dict(workers=4, timeout=2400)))
    nsim = 700 if thorough else 120
    mod, cfg = module(ck, "genL", NK=3, NV=3, MaxOps=8 if thorough else 7, MaxTime=4, WorkerOn=False, Emit=True,
                      invariants=["EmitInv"])
    jobs.append(("genL", mod, cfg, dict(workers=2, simulate="num=%d" % nsim, depth=40, seed=ck.seed)))

    def one(j):
        tag, mod, cfg, kw = j
        return tag, vf.run_tlc(mod, cfg, tag="C12_" + tag, lib_dirs=[SPECDIR], **kw)
    with cf.ThreadPoolExecutor(max_workers=4) as ex:
        res = dict(ex.map(one, jobs))
    for tag, r in res.items():
        if r.error:
            raise vf.Infra("TLC failed (%s): %s" % (tag, r.error))
        ck.states += r.distinct
        ck.transitions += r.generated
        ck.note("TLC %s: %s" % (tag, r.summary()))
    impl_bad = False
    for tag in ("mc3", "mc4mem", "mc4disk", "mc3c0", "mc3c2"):
        if tag in res and res[tag].violated:
            impl_bad = True
            rp = ck.save_replay("impl_spec_" + tag, {"tlc.out": res[tag].out})
            ck.violation("%s: the Impl specification violates %s with all deviation flags off" % (tag, res[tag].violated), rp)
    for a, (tk, gn) in res["mc3"].coverage.items():
        ck.cov[a] = ck.cov.get(a, 0) + tk
    if not impl_bad:
        for a in ACTIONS:
            if ck.cov.get(a, 0) == 0:
                raise vf.Infra("self-test: Impl action %s never taken" % a)
    ck.exhaustive = True
    probes = []
    for tag, what in (("dev_res", "Dev_ExpiredKeyResurrected"), ("dev_rep", "Dev_ReplayDropsPerRecord")):
        r = res[tag]
        if r.violated != "Inv_Reads":
            raise vf.Infra("self-test: Impl with %s = TRUE must violate Inv_Reads, got %r" % (what, r.violated))
        h = cex_history(r, 1)
        if not h:
            raise vf.Infra("self-test: no counterexample exported for " + what)
        probes.append(h)
        ck.sample({"kind": "probe: TLC counterexample of %s, replayed on the real store" % what, "history": h})
    # ------------------------------------------------------------------ 2. cases
    rng = ck.rng
    h3 = hist_lines(res["gen3"])
    hl = hist_lines(res["genL"])
    hr = [h for h in hist_lines(res["genR"]) if ("close" in h or "compact" in h) and ("setttl" in h or "exp" in h)]
    if len(h3) < 20000 or len(hl) < 50 or len(hr) < 1000:
        raise vf.Infra("generator produced too few histories: %d of 3 steps, %d long, %d restart" % (len(h3), len(hl), len(hr)))
    h3 = sorted(h3)
    hl = sorted(hl)
    hr = sorted(hr)
    rng.shuffle(h3)
    rng.shuffle(hl)
    rng.shuffle(hr)
    n3 = len(h3) if thorough else 2500
    nr = len(hr) if thorough else 900
    base = probes + hl + hr[:nr] + h3[:n3]
    cases = [("wheel=long order=0 cache=1 conc=0", h) for h in base]
    n_o1 = len(base) if thorough else 900
    cases += [("wheel=long order=1 cache=1 conc=0", h) for h in (probes + hl + h3[:n3])[:n_o1]]
    cases += [("wheel=long order=0 cache=0 conc=0", h) for h in (hl[:150] + h3[:600] if thorough else hl[:25] + h3[:60])]
    timed = [h for h in base if "tick" in h]
    n_short = 4000 if thorough else 350
    cases += [("wheel=short order=%d cache=1 conc=0" % (i % 2), h) for i, h in enumerate(timed[:n_short])]
    noclose = [h for h in timed if "close" not in h and "open" not in h]
    n_conc = 1500 if thorough else 150
    cases += [("wheel=short order=0 cache=2 conc=1", h) for h in noclose[:n_conc]]
    cases += [("wheel=long order=0 cache=3 conc=0", h) for h in hl[:200 if thorough else 40]]
    ck.note("cases: %d (3-step histories %d of %d, restart/compaction histories %d of %d, long %d, short-wheel %d, "
            "concurrent %d)" % (len(cases), n3, len(h3), nr, len(hr), len(hl), min(n_short, len(timed)),
                                min(n_conc, len(noclose))))
    out_path, stats = drive(ck, "main", cases)
    if stats["timeouts"]:
        raise vf.Infra("drv_kvmap: %d executions exceeded the wall-clock limit" % stats["timeouts"])
    ck.evaluations = stats["executions"]
    judge(ck, "main", cases, out_path)
    if thorough:
        # exploration: the concurrent-reader histories once more under ThreadSanitizer (a report aborts the execution
        # and shows up as a died store); the traces are judged by the same oracle
        ck.make("drv_kvmap.tsan")
        tcases = [c for c in cases if "conc=1" in c[0]][:400]
        out_path, stats = drive(ck, "tsan", tcases, binary="drv_kvmap.tsan")
        if stats["timeouts"]:
            raise vf.Infra("drv_kvmap.tsan: %d executions exceeded the wall-clock limit" % stats["timeouts"])
        ck.evaluations += stats["executions"]
        ck.note("ThreadSanitizer build: %d concurrent-reader executions, %d aborted (race report / crash)" % (
            stats["executions"], stats["crashed"]))
        judge(ck, "tsan", tcases, out_path)


def drive(ck, name, cases, binary="drv_kvmap"):
    cases_path = os.path.join(ck.work, "cases_%s.txt" % name)
    with open(cases_path, "w") as f:
        for c, h in cases:
            f.write("%s | %s\n" % (c, h))
    out_path = os.path.join(ck.work, "kvmap_%s.ndjson" % name)
    scratch = os.path.join(ck.work, "scratch_" + name)
    rc, out = vf.run_driver(binary, ["run", cases_path, out_path, scratch, min(16, vf.NCPU)], timeout=2400)
    if rc != 0:
        raise vf.Infra("%s failed: %s" % (binary, out[-2000:]))
    try:
        stats = json.loads(out.strip().splitlines()[-1])
    except Exception:
        raise vf.Infra("drv_kvmap: no statistics line: " + out[-500:])
    return out_path, stats


def split_execs(path):
    """-> list of (case index, [lines])"""
    res, cur, case = [], [], -1
    with open(path) as f:
        for ln in f:
            cur.append(ln)
            if ln.startswith('{"e":"Begin"'):
                case = json.loads(ln).get("case", -1)
            elif ln.startswith('{"e":"Crashed"') or ln.startswith('{"e":"HarnessTimeout"'):
                case = json.loads(ln).get("x", case)
            elif ln.startswith('{"e":"Reset"'):
                res.append((case, cur))
                cur, case = [], -1
    return res


def validate_execs(ck, tag, execs, max_reject=4, par=6):
    rejected = []
    chunks, cur, n = [], [], 0
    for x in execs:
        cur.append(x)
        n += len(x[1])
        if n > 40000:
            chunks.append(cur)
            cur, n = [], 0
    if cur:
        chunks.append(cur)

    def one(ix):
        i, chunk = ix
        rej = []
        chunk = list(chunk)
        rounds = 0
        while chunk and rounds <= max_reject:
            p = os.path.join(ck.work, "val_%s_%d.ndjson" % (tag, i))
            with open(p, "w") as f:
                for _, lines in chunk:
                    f.writelines(lines)
            for attempt in (1, 2):
                v = vf.validate_trace(os.path.join(SPECDIR, "KvMapTrace.tla"), os.path.join(SPECDIR, "KvMapTrace.cfg"), p,
                                      tag="C12_val_%s_%d" % (tag, i), timeout=1500)
                if not v.error:
                    break
            if v.error:
                raise vf.Infra("trace validation error: " + v.error)
            if v.accepted:
                return rej
            ln, k = 0, 0
            while k < len(chunk) and ln + len(chunk[k][1]) < v.maxl:
                ln += len(chunk[k][1])
                k += 1
            if k >= len(chunk):
                raise vf.Infra("trace validation: cannot locate rejected line %d" % v.maxl)
            case, lines = chunk[k]
            pos = v.maxl - ln - 1
            rej.append((case, lines, pos))
            chunk = chunk[k + 1:]
            rounds += 1
        return rej
    with cf.ThreadPoolExecutor(max_workers=par) as ex:
        for rej in ex.map(one, list(enumerate(chunks))):
            rejected += rej
    return rejected


def nontrivial_history(h):
    ops = h.split(";")
    ttl_at = [i for i, o in enumerate(ops) if o.startswith("setttl") or o.startswith("exp ") or
              (o.startswith("batch") and not o.startswith("batch 0"))]
    tick_at = [i for i, o in enumerate(ops) if o.startswith("tick")]
    return (bool(ttl_at) and bool(tick_at) and min(ttl_at) < max(tick_at)) or "open" in ops or "compact" in ops


def judge(ck, name, cases, out_path):
    execs = split_execs(out_path)
    good = []
    evict = reads = died = 0
    for case, lines in execs:
        txt = lines[-2] if len(lines) >= 2 else ""
        if any(l.startswith('{"e":"Crashed"') for l in lines):
            died += 1
            if died <= 3:
                cl = case_line(cases, case)
                rp = ck.save_replay("%s_died_%d" % (name, case), {"trace.ndjson": "".join(lines), "case.txt": cl + "\n"})
                ck.violation("the store crashed (signal / abort / uncaught exception) during: %s" % cl, rp)
            continue
        if txt.startswith('{"e":"End"'):
            e = json.loads(txt)
            evict += e.get("evict", 0)
            reads += e.get("reads", 0)
        good.append((case, lines))
    ck.note("%s: %d executions (%d died); evictions by the worker observed: %d; concurrent reads logged: %d" % (
        name, len(execs), died, evict, reads))
    if name == "main" and (evict == 0 or reads == 0):
        raise vf.Infra("self-test: the short-wheel runs never evicted (%d) or the reader thread logged nothing (%d)" % (evict, reads))
    rej = validate_execs(ck, name, good)
    ck.traces += len(good) - len(rej)
    nt = set()
    for case, lines in good:
        if 0 <= case < len(cases) and nontrivial_history(cases[case][1]):
            nt.add(cases[case][1])
    ck.nontrivial = max(ck.nontrivial, len(nt))
    ck.note("%s: %d executions validated against KvMapTrace, %d rejected" % (name, len(good), len(rej)))
    if good:
        for idx in (0, len(good) // 2):
            ck.sample({"case": case_line(cases, good[idx][0]), "events": [json.loads(l) for l in good[idx][1][:5]]})
    reported = set()
    for case, lines, pos in rej:
        cl = case_line(cases, case)
        if cl in reported:
            continue
        reported.add(cl)
        again = confirm(ck, cl)
        if again is None:
            ck.note("rejection not repeated on 3 re-runs (ignored): %s" % cl)
            continue
        lines2, pos2 = again
        rp = ck.save_replay("%s_reject_%d" % (name, case), {
            "trace.ndjson": "".join(lines2), "case.txt": cl + "\n",
            "why.txt": "KvMapTrace.tla cannot match line %d: %s\n" % (pos2 + 1, lines2[pos2] if 0 <= pos2 < len(lines2) else "?")})
        ck.violation("a read disagrees with the reference map (%s): %s" % (cl, explain(lines2, pos2)), rp)
    if name == "main":
        selftest_corrupt(ck, good)


def explain(lines, pos):
    steps = []
    for l in lines[:pos + 1]:
        try:
            e = json.loads(l)
        except Exception:
            continue
        if e["e"] == "Step":
            a = e["op"]
            for f in ("k", "v", "d", "t"):
                if e.get(f): a += " %s=%d" % (f, e[f])
            steps.append(a)
        elif e["e"] == "R":
            steps.append("concurrent read api=%d k=%d -> %d in steps %d..%d" % (e["api"], e["k"], e["r"], e["lo"], e["hi"]))
    last = {}
    try:
        last = json.loads(lines[pos])
    except Exception:
        pass
    obs = {k: last[k] for k in ("g1", "g2", "ex", "keys", "pfx", "size", "gb", "ttl", "extra") if k in last}
    return ("; ".join(steps) + " => " + json.dumps(obs))[:700]


def case_line(cases, i):
    if 0 <= i < len(cases):
        return "%s | %s" % cases[i]
    return "?"


def confirm(ck, cl):
    """re-run one case (up to 3 times); return (lines, index of the unmatched line) of a rejected run, or None"""
    cfgtxt, _, h = cl.partition(" | ")
    for attempt in range(3):
        out_path, stats = drive(ck, "confirm", [(cfgtxt, h)])
        execs = split_execs(out_path)
        if any(l.startswith('{"e":"Crashed"') for _, ls in execs for l in ls):
            return execs[0][1], len(execs[0][1]) - 2
        rej = validate_execs(ck, "confirm", execs, max_reject=0, par=1)
        if rej:
            return rej[0][1], rej[0][2]
    return None


def selftest_corrupt(ck, good):
    """a corrupted recording must be rejected: one answer of the cache-path get changed"""
    for case, lines in good:
        for i, l in enumerate(lines):
            if l.startswith('{"e":"Step"') and '"up":true' in l:
                e = json.loads(l)
                if any(e["g2"]):
                    k = next(j for j, v in enumerate(e["g2"]) if v)
                    e["g2"][k] = 0
                    bad = lines[:i] + [json.dumps(e, separators=(",", ":")) + "\n"] + lines[i + 1:]
                    rej = validate_execs(ck, "selftest", [(case, bad)], max_reject=0, par=1)
                    if not rej:
                        raise vf.Infra("self-test: KvMapTrace accepted a corrupted observation")
                    ck.note("self-test: corrupted trace rejected at line %d" % (rej[0][2] + 1))
                    return
    raise vf.Infra("self-test: no observation with a live key found")


def replay(ck, path):
    ck.make("drv_kvmap")
    cl = open(os.path.join(path, "case.txt")).read().strip()
    again = confirm(ck, cl)
    if again is None:
        print("[C12] replay: '%s' is explained by the reference map" % cl)
        return
    lines, pos = again
    print("".join(lines))
    rp = ck.save_replay("replay_reject", {"trace.ndjson": "".join(lines), "case.txt": cl + "\n"})
    ck.violation("a read disagrees with the reference map (%s): %s" % (cl, explain(lines, pos)), rp)
