"""C12 — the key-value store is a map with absolute expiry, across restarts.

1. TLC checks spec/storage/KvMap.tla (Impl: _kv/_expiry/bounded cache/wheel timers with generation ids/eviction
   queue + worker/persisted image with absolute expiries/compaction/close/reopen/time passing) against the Abs map
   of KvAbs.tla as a refinement invariant: in every reachable state every read path (get fast and slow path, exists,
   keys, prefix scan, size, getBatch, ttl) answers what the reference map answers at `now`.
   Self-tests: with Dev_ExpiredKeyResurrected (F-12a) / Dev_ReplayDropsPerRecord (F-12b) / Dev_SnapshotDropsExpired
   (the snapshot half of F-12b alone: TTL, compaction, LATER expireAt / persist, clock past the original deadline,
   restart) / Dev_PrefixStopsAtNul (C-string prefix comparison over byte-string keys) = TRUE TLC must report the
   violation; each counterexample becomes a probe history for the real code.
   Keys are byte strings: KvAbs.tla holds two key universes (key ids / prefix ids -> bytes; universe 1 = binary keys
   that are prefixes of each other and differ only after an embedded NUL, prefixes with NUL / equal to a key / longer
   than every key / differing after the NUL) and decides "has prefix" on the bytes; removeWithPrefix takes a prefix id.
2. KvMap.tla in generator mode prints operation histories (all histories of 3 steps, seeded simulation for longer
   ones, the probes; all 5-step one-key histories with a SENSITIVE reopen - the model says the persisted image at the
   reopen distinguishes the load orders, e.g. an expiry extended / removed after a compaction and the clock past the
   original deadline; all 3-step set / TTL / remove / prefix-remove / restart histories over the binary keys and all six
   prefixes).  harness/drv_kvmap.cpp replays them on the REAL KVStore under a virtual CLOCK_REALTIME with
   maxCacheSize = 1, (a) with a slow wheel - the eviction worker does not run, expired keys stay in memory - in both
   read orders, (b) with a 10 ms wheel where the worker runs all the time, (c) with a concurrent reader thread.
   After every step ALL read APIs are logged, keysWithPrefix for every prefix of the universe.
3. TLC validates every log against spec/storage/KvMapTrace.tla (Abs map evaluated at the virtual now; concurrent
   reads must be explained by one of the states they overlapped).
4. Concurrent part (readers / writers racing each other and the eviction worker).  Every API call of the code holds
   _mutex for its whole body, so in KvMap.tla concurrent callers are interleavings of the atomic actions; the flag
   Dev_CacheFillOutsideLock splits get() on a cache miss into GetRead (copy under _mutex) and GetFill (cache fill after
   the unlock): TLC must then report Inv_Reads violated (three configurations: the window is hit by an overwrite, a
   remove, an expireAt), and the counterexamples become tiny concurrent programs.  harness/drv_s_kvmap.cpp runs the
   real KVStore under the deterministic scheduler (vf/sched: pthread mutex / rwlock / condvar interposition, one thread
   at a time, the store's wheel and eviction-worker threads scheduled too): preemption-bounded DFS of the TLC-derived
   programs plus seeded random programs under random schedules, each followed by a sequential read-back of every key.
   Oracle: spec/storage/KvConcTrace.tla - Call/Ret linearizability against the KvAbs map; the read-back must equal it.
"""
import os, json, re, concurrent.futures as cf
import vf

SPECDIR = os.path.join(vf.SPEC, "storage")
ALL_KINDS = ["set", "setttl", "rm", "exp", "per", "get", "batch", "clear", "rmp", "compact", "close", "tick"]
MEM_KINDS = [k for k in ALL_KINDS if k not in ("compact", "close")]
DISK_KINDS = ["set", "setttl", "rm", "exp", "per", "compact", "close", "tick"]
ACTIONS = ["Set", "SetTtl", "Remove", "SetBatch", "ExpireAt", "Persist", "Clear", "RemovePrefix", "Get", "TimePasses",
           "Fire", "WorkerStale", "WorkerReArm", "WorkerEvict", "Compact", "Close", "Reopen"]
NV_DEFAULT = 2
PFX_ALL = (1, 2, 3, 4, 5, 6)


def module(ck, name, kinds=ALL_KINDS, invariants=("Inv_Reads", "Inv_Struct"), pfx=(1,), **const):
    d = os.path.join(ck.work, name)
    os.makedirs(d, exist_ok=True)
    c = dict(NK=2, NV=NV_DEFAULT, MaxTime=3, MaxTtl=2, MaxOps=3, CacheMax=1, WorkerOn=True,
             Dev_ExpiredKeyResurrected=False, Dev_ReplayDropsPerRecord=False, Dev_CacheFillOutsideLock=False, NReaders=1,
             Dev_EvictJournalOutsideLock=False, Emit=False,
             KU=0, Dev_SnapshotDropsExpired=False, Dev_PrefixStopsAtNul=False, EmitSens=False)
    c.update(const)
    with open(os.path.join(d, "MCKvMap.tla"), "w") as f:
        f.write("---- MODULE MCKvMap ----\nEXTENDS KvMap\nMCKinds == %s\nMCPfx == %s\n====\n" % (vf.tla(set(kinds)), vf.tla(set(pfx))))
    consts = dict(c)
    consts["OpKinds"] = "<- MCKinds"
    consts["RmpPfx"] = "<- MCPfx"
    cfg = os.path.join(d, "MCKvMap.cfg")
    vf.write_cfg(cfg, constants=consts, invariants=list(invariants))
    return os.path.join(d, "MCKvMap.tla"), cfg


def hist_lines(r):
    out = []
    seen = set()
    for ln in r.prints:
        m = re.match(r'^"HIST (.*)"$', ln.strip())
        if m and m.group(1) not in seen:
            seen.add(m.group(1))
            out.append(m.group(1))
    return out


def cex_history(r, nv):
    if not r.trace_json:
        return None
    ops = []
    for a in r.trace_json["counterexample"]["action"]:
        name, c = a[1]["name"], a[1].get("context", {})
        if name == "Set": ops.append("set %d %d" % (c["k"], c["v"]))
        elif name == "SetTtl": ops.append("setttl %d %d %d" % (c["k"], c["v"], c["d"]))
        elif name == "Remove": ops.append("rm %d" % c["k"])
        elif name == "ExpireAt": ops.append("exp %d %d" % (c["k"], c["t"]))
        elif name == "Persist": ops.append("per %d" % c["k"])
        elif name == "Get": ops.append("get %d" % c["k"])
        elif name == "SetBatch": ops.append("batch %d 1:%d,2:%d" % (c["d"], c["a"], nv))
        elif name == "Clear": ops.append("clear")
        elif name == "RemovePrefix": ops.append("rmp %d" % c["p"])
        elif name == "Compact": ops.append("compact")
        elif name == "Close": ops.append("close")
        elif name == "Reopen": ops.append("open")
        elif name == "TimePasses": ops.append("tick %d" % c["d"])
    return ";".join(ops)


def run(ck):
    thorough = ck.tier == "thorough"
    ck.make("drv_kvmap", "drv_s_kvmap")
    ck.rule = ("histories = step sequences printed by TLC from KvMap.tla in generator mode (every 3-step history over "
               "2 keys / 2 values / TTL 1-2 / absolute expiries 0-4 / time jumps 1-3, every 4-step TTL/expireAt/persist/"
               "compact/close/tick history over one key, every 5-step such history whose reopen the model calls sensitive "
               "(the persisted image distinguishes load orders: e.g. expiry extended / removed after a compaction, clock past "
               "the original deadline), every 3-step set/TTL/remove/prefix-remove/restart history over three binary keys "
               "that are prefixes of each other with an embedded NUL and six prefixes (with NUL, equal to a key, longer than "
               "every key), seeded simulation of 6-8 steps over 3 keys / 3 values / all prefixes, "
               "counterexamples of the Dev_* self-tests); each is replayed on the real store under a "
               "virtual wall clock with all read APIs (keysWithPrefix for each of the six prefixes of the key universe) logged after every step, under a slow wheel (both read orders; cache sizes 0-3), a "
               "10 ms wheel (eviction worker active) and with a concurrent reader; concurrent part: programs derived from the "
               "TLC counterexamples of Dev_CacheFillOutsideLock (preemption-bounded DFS of the real store's schedules) and "
               "seeded random 2-3 thread programs under random schedules, judged for linearizability; non-trivial = the history lets an "
               "expiry pass (TTL/expireAt followed by a time jump) or restarts / compacts the store")
    # ------------------------------------------------------------------ 1. model checking, self-tests, generators
    jobs = []
    mod, cfg = module(ck, "mc3")
    jobs.append(("mc3", mod, cfg, dict(workers=6, coverage=True, timeout=1500)))
    if thorough:
        mod, cfg = module(ck, "mc4mem", kinds=MEM_KINDS, MaxOps=4)
        jobs.append(("mc4mem", mod, cfg, dict(workers=5, timeout=2400)))
        mod, cfg = module(ck, "mc4disk", kinds=DISK_KINDS, MaxOps=4, NV=1)
        jobs.append(("mc4disk", mod, cfg, dict(workers=5, timeout=2400)))
    mod, cfg = module(ck, "dev_res", kinds=DISK_KINDS, NV=1, MaxOps=4, Dev_ExpiredKeyResurrected=True, invariants=["Inv_Reads"])
    jobs.append(("dev_res", mod, cfg, dict(workers=1, dump_trace=os.path.join(ck.work, "cex_res.json"))))
    mod, cfg = module(ck, "dev_rep", kinds=DISK_KINDS, NV=1, MaxOps=4, Dev_ReplayDropsPerRecord=True, invariants=["Inv_Reads"])
    jobs.append(("dev_rep", mod, cfg, dict(workers=2, dump_trace=os.path.join(ck.work, "cex_rep.json"))))
    # the snapshot half of F-12b alone: needs TTL, compaction, a LATER expireAt / persist, the clock past the original
    # deadline, close, reopen (5 steps + the open)
    mod, cfg = module(ck, "dev_snap", kinds=["setttl", "exp", "per", "compact", "close", "tick"], NK=1, NV=1, MaxOps=5,
                      MaxTime=2, MaxTtl=1, WorkerOn=False, Dev_SnapshotDropsExpired=True, invariants=["Inv_Reads"])
    jobs.append(("dev_snap", mod, cfg, dict(workers=1, dump_trace=os.path.join(ck.work, "cex_snap.json"))))
    # byte-string keys: a C-string prefix comparison must be seen by the refinement invariant in the universe of binary
    # keys (prefix scan right after a set, or a prefix remove that takes a key outside the prefix)
    mod, cfg = module(ck, "dev_pfx", kinds=["set", "rmp"], pfx=PFX_ALL, NK=3, NV=1, MaxOps=3, MaxTime=0, KU=1,
                      WorkerOn=False, Dev_PrefixStopsAtNul=True, invariants=["Inv_Reads", "Inv_Prefix"])
    jobs.append(("dev_pfx", mod, cfg, dict(workers=1, dump_trace=os.path.join(ck.work, "cex_pfx.json"))))
    # ... and the correct comparison holds there, all prefixes, with TTLs, restarts and the eviction path interleaved
    mod, cfg = module(ck, "mcpfx", kinds=["set", "setttl", "rm", "rmp", "close", "tick"], pfx=PFX_ALL, NK=3, NV=1, MaxOps=3,
                      MaxTime=1, MaxTtl=1, KU=1, invariants=["Inv_Reads", "Inv_Struct", "Inv_Prefix"])
    jobs.append(("mcpfx", mod, cfg, dict(workers=3, timeout=1500)))
    # concurrent part: the split critical section must be seen by the refinement invariant (1 reader in the window +
    # writer actions + the eviction path); three configurations force three different writers into the window
    for tag, kinds, nv in (("fill_set", ["set", "get"], 2), ("fill_rm", ["set", "rm", "get"], 1),
                           ("fill_exp", ["set", "exp", "get"], 1)):
        mod, cfg = module(ck, "dev_" + tag, kinds=kinds, NV=nv, MaxOps=5, MaxTime=1, Dev_CacheFillOutsideLock=True,
                          invariants=["Inv_Reads"])
        jobs.append(("dev_" + tag, mod, cfg, dict(workers=1, dump_trace=os.path.join(ck.work, "cex_%s.json" % tag))))
    # the eviction step split into "erase under the lock" and "journal the tombstone": the restart half of Inv_Reads must fail
    mod, cfg = module(ck, "dev_evict", kinds=["set", "exp", "close"], NK=1, NV=1, MaxOps=4, MaxTime=0, MaxTtl=1,
                      Dev_EvictJournalOutsideLock=True, invariants=["Inv_Reads"])
    jobs.append(("dev_evict", mod, cfg, dict(workers=1, dump_trace=os.path.join(ck.work, "cex_evict.json"))))
    mod, cfg = module(ck, "gen3", MaxOps=3, MaxTime=3, WorkerOn=False, Emit=True, invariants=["EmitInv"])
    jobs.append(("gen3", mod, cfg, dict(workers=4, timeout=1500)))
    # restart / compaction focused: one key, one value, all 4-step histories (+ the open that follows a close)
    mod, cfg = module(ck, "genR", kinds=["setttl", "exp", "per", "compact", "close", "tick"], NK=1, NV=1, MaxOps=4, MaxTime=2,
                      MaxTtl=2, WorkerOn=False, Emit=True, invariants=["EmitInv"])
    jobs.append(("genR", mod, cfg, dict(workers=2, timeout=1500)))
    # histories with a SENSITIVE reopen (the model says: the persisted image distinguishes the load orders), one key, all
    # 5-step histories; the reopen is printed as `open 1`
    mod, cfg = module(ck, "genS", kinds=["setttl", "exp", "per", "compact", "close", "tick"], NK=1, NV=1, MaxOps=5, MaxTime=2,
                      MaxTtl=2, WorkerOn=False, Emit=True, EmitSens=True, invariants=["EmitInv"])
    jobs.append(("genS", mod, cfg, dict(workers=3, timeout=1500)))
    # byte-string keys: every 3-step (thorough: 4-step) set / TTL / remove / prefix-remove (all six prefixes) / restart
    # history over the three binary keys
    mod, cfg = module(ck, "genP", kinds=["set", "setttl", "rm", "rmp", "close", "tick"], pfx=PFX_ALL, NK=3, NV=1,
                      MaxOps=4 if thorough else 3, MaxTime=1, MaxTtl=1, KU=1, WorkerOn=False, Emit=True, invariants=["EmitInv"])
    jobs.append(("genP", mod, cfg, dict(workers=3, timeout=1500)))
    if thorough:
        mod, cfg = module(ck, "mc3c0", CacheMax=0)
        jobs.append(("mc3c0", mod, cfg, dict(workers=4, timeout=2400)))
        mod, cfg = module(ck, "mc3c2", CacheMax=2)
        jobs.append(("mc3c2", mod, cfg, dict(workers=4, timeout=2400)))
    nsim = 700 if thorough else 120
    mod, cfg = module(ck, "genL", pfx=PFX_ALL, NK=3, NV=3, MaxOps=8 if thorough else 7, MaxTime=4, WorkerOn=False, Emit=True,
                      invariants=["EmitInv"])
    jobs.append(("genL", mod, cfg, dict(workers=2, simulate="num=%d" % nsim, depth=40, seed=ck.seed)))

    def one(j):
        tag, mod, cfg, kw = j
        return tag, vf.run_tlc(mod, cfg, tag="C12_" + tag, lib_dirs=[SPECDIR], **kw)
    with cf.ThreadPoolExecutor(max_workers=4) as ex:
        res = dict(ex.map(one, jobs))
    for tag, r in res.items():
        if r.error:
            raise vf.Infra("TLC failed (%s): %s" % (tag, r.error))
        ck.states += r.distinct
        ck.transitions += r.generated
        ck.note("TLC %s: %s" % (tag, r.summary()))
    impl_bad = False
    for tag in ("mc3", "mc4mem", "mc4disk", "mc3c0", "mc3c2", "mcpfx"):
        if tag in res and res[tag].violated:
            impl_bad = True
            rp = ck.save_replay("impl_spec_" + tag, {"tlc.out": res[tag].out})
            ck.violation("%s: the Impl specification violates %s with all deviation flags off" % (tag, res[tag].violated), rp)
    for a, (tk, gn) in res["mc3"].coverage.items():
        ck.cov[a] = ck.cov.get(a, 0) + tk
    if not impl_bad:
        for a in ACTIONS:
            if ck.cov.get(a, 0) == 0:
                raise vf.Infra("self-test: Impl action %s never taken" % a)
    ck.exhaustive = True
    probes, probes1 = [], []
    for tag, what in (("dev_res", "Dev_ExpiredKeyResurrected"), ("dev_rep", "Dev_ReplayDropsPerRecord"),
                      ("dev_snap", "Dev_SnapshotDropsExpired"), ("dev_pfx", "Dev_PrefixStopsAtNul")):
        r = res[tag]
        if r.violated not in (("Inv_Reads", "Inv_Prefix") if tag == "dev_pfx" else ("Inv_Reads",)):
            raise vf.Infra("self-test: Impl with %s = TRUE must violate Inv_Reads, got %r" % (what, r.violated))
        h = cex_history(r, 1)
        if not h:
            raise vf.Infra("self-test: no counterexample exported for " + what)
        if tag == "dev_snap" and not ("compact" in h and "open" in h and ("exp" in h or "per" in h)):
            raise vf.Infra("self-test: the counterexample of Dev_SnapshotDropsExpired has no compaction + later expireAt/persist + reopen: " + h)
        (probes1 if tag == "dev_pfx" else probes).append(h)
        ck.sample({"kind": "probe: TLC counterexample of %s, replayed on the real store" % what, "history": h})
    conc_programs = []
    for tag in ("dev_fill_set", "dev_fill_rm", "dev_fill_exp"):
        r = res[tag]
        if r.violated != "Inv_Reads":
            raise vf.Infra("self-test: Impl with Dev_CacheFillOutsideLock = TRUE must violate Inv_Reads (%s), got %r" % (tag, r.violated))
        prog = cex_program(r)
        if not prog:
            raise vf.Infra("self-test: counterexample of %s has no GetRead .. GetFill window" % tag)
        conc_programs.append(prog)
        ck.sample({"kind": "concurrent program from the TLC counterexample of Dev_CacheFillOutsideLock (%s)" % tag, "program": prog})
    r = res["dev_evict"]
    if r.violated != "Inv_Reads":
        raise vf.Infra("self-test: Impl with Dev_EvictJournalOutsideLock = TRUE must violate Inv_Reads, got %r" % (r.violated,))
    evict_prog = cex_program_evict(r)
    if not evict_prog:
        raise vf.Infra("self-test: counterexample of Dev_EvictJournalOutsideLock has no WorkerEvictErase .. WorkerJournal window")
    ck.sample({"kind": "concurrent program from the TLC counterexample of Dev_EvictJournalOutsideLock", "program": evict_prog})
    conc_programs.append(evict_prog)
    # ------------------------------------------------------------------ 2. cases
    rng = ck.rng
    h3 = hist_lines(res["gen3"])
    hl = hist_lines(res["genL"])
    hr = [h for h in hist_lines(res["genR"]) if ("close" in h or "compact" in h) and ("setttl" in h or "exp" in h)]
    hs = hist_lines(res["genS"])
    hp = hist_lines(res["genP"])
    if len(h3) < 20000 or len(hl) < 50 or len(hr) < 1000:
        raise vf.Infra("generator produced too few histories: %d of 3 steps, %d long, %d restart" % (len(h3), len(hl), len(hr)))

    def ext_after_compact(h):       # expiry extended / removed after a compaction, then a reopen the model calls sensitive
        ops = h.split(";")
        return any(ops[i] == "compact" and any(o.startswith("exp ") or o.startswith("per ") for o in ops[i + 1:j])
                   for j in range(len(ops)) if ops[j] == "open 1" for i in range(j))
    n_ext = sum(1 for h in hs if ext_after_compact(h))
    n_rmp = len(set(o for h in hp for o in h.split(";") if o.startswith("rmp ")))
    if len(hs) < 200 or n_ext < 20 or any("open 1" not in h for h in hs):
        raise vf.Infra("generator: %d histories with a sensitive reopen, %d of them extend / remove an expiry after a "
                       "compaction" % (len(hs), n_ext))
    if len(hp) < 2000 or n_rmp != len(PFX_ALL):
        raise vf.Infra("generator: %d byte-string-key histories using %d of %d prefixes" % (len(hp), n_rmp, len(PFX_ALL)))
    h3 = sorted(h3)
    hl = sorted(hl)
    hr = sorted(hr)
    hs = sorted(hs)
    hp = sorted(hp)
    rng.shuffle(h3)
    rng.shuffle(hl)
    rng.shuffle(hr)
    rng.shuffle(hs)
    rng.shuffle(hp)
    n3 = len(h3) if thorough else 2500
    nr = len(hr) if thorough else 900
    ns = len(hs) if thorough else 1000
    npf = min(len(hp), 15000) if thorough else 700
    base = probes + hl + hr[:nr] + hs[:ns] + h3[:n3]
    cases = [("wheel=long order=0 cache=1 conc=0", h) for h in base]
    # byte-string keys (universe 1: binary keys that are prefixes of each other, embedded NUL): the prefix histories, and
    # the long / restart / 3-step histories once more - every step observes keysWithPrefix for all six prefixes
    bin_hist = probes1 + hp[:npf] + hl + (hs + h3[:8000] if thorough else hs[:150] + h3[:300])
    cases += [("wheel=long order=%d cache=1 conc=0 ku=1" % (i % 2), h) for i, h in enumerate(bin_hist)]
    n_o1 = len(base) if thorough else 900
    cases += [("wheel=long order=1 cache=1 conc=0", h) for h in (probes + hl + h3[:n3])[:n_o1]]
    cases += [("wheel=long order=0 cache=0 conc=0", h) for h in (hl[:150] + h3[:600] if thorough else hl[:25] + h3[:60])]
    timed = [h for h in base if "tick" in h]
    n_short = 4000 if thorough else 350
    cases += [("wheel=short order=%d cache=1 conc=0" % (i % 2), h) for i, h in enumerate(timed[:n_short])]
    noclose = [h for h in timed if "close" not in h and "open" not in h]
    n_conc = 1500 if thorough else 150
    cases += [("wheel=short order=0 cache=2 conc=1", h) for h in noclose[:n_conc]]
    cases += [("wheel=long order=0 cache=3 conc=0", h) for h in hl[:200 if thorough else 40]]
    ck.note("cases: %d (3-step histories %d of %d, restart/compaction histories %d of %d, sensitive-reopen histories "
            "%d of %d (%d extend / remove an expiry after a compaction), byte-string-key histories %d of %d + %d others "
            "in the binary universe, long %d, short-wheel %d, concurrent %d)" % (
                len(cases), n3, len(h3), nr, len(hr), min(ns, len(hs)), len(hs), n_ext, min(npf, len(hp)), len(hp),
                len(bin_hist) - min(npf, len(hp)), len(hl), min(n_short, len(timed)), min(n_conc, len(noclose))))
    out_path, stats = drive(ck, "main", cases)
    if stats["timeouts"]:
        raise vf.Infra("drv_kvmap: %d executions exceeded the wall-clock limit" % stats["timeouts"])
    ck.evaluations = stats["executions"]
    judge(ck, "main", cases, out_path)
    concurrent_part(ck, conc_programs, thorough)
    if thorough:
        # exploration: the concurrent-reader histories once more under ThreadSanitizer (a report aborts the execution
        # and shows up as a died store); the traces are judged by the same oracle
        ck.make("drv_kvmap.tsan")
        tcases = [c for c in cases if "conc=1" in c[0]][:400]
        out_path, stats = drive(ck, "tsan", tcases, binary="drv_kvmap.tsan")
        if stats["timeouts"]:
            raise vf.Infra("drv_kvmap.tsan: %d executions exceeded the wall-clock limit" % stats["timeouts"])
        ck.evaluations += stats["executions"]
        ck.note("ThreadSanitizer build: %d concurrent-reader executions, %d aborted (race report / crash)" % (
            stats["executions"], stats["crashed"]))
        judge(ck, "tsan", tcases, out_path)


# ---------------------------------------------------------------------------------------------- concurrent part
def cex_program(r):
    """TLC counterexample of Dev_CacheFillOutsideLock -> 'init=.. ; a=get:k,get:k ; b=<what ran inside the window>'"""
    if not r.trace_json:
        return None
    seq = []          # (kind, text or key)
    for a in r.trace_json["counterexample"]["action"]:
        name, c = a[1]["name"], a[1].get("context", {})
        if name == "Set": seq.append(("op", "set:%d:%d" % (c["k"], c["v"])))
        elif name == "SetTtl": seq.append(("op", "setx:%d:%d" % (c["k"], c["v"])))
        elif name == "Remove": seq.append(("op", "rm:%d" % c["k"]))
        elif name == "ExpireAt": seq.append(("op", ("expp:%d" if c["t"] <= 0 else "expf:%d") % c["k"]))
        elif name == "Persist": seq.append(("op", "per:%d" % c["k"]))
        elif name == "Clear": seq.append(("op", "clear"))
        elif name == "GetRead": seq.append(("read", c["k"]))
        elif name == "GetFill":
            seq.append(("fill", c["k"] if "k" in c else c["r"]["k"]))
            break
    if not seq or seq[-1][0] != "fill":
        return None
    k = seq[-1][1]
    opens = [i for i, (kind, x) in enumerate(seq) if kind == "read" and x == k]
    if not opens:
        return None
    w = opens[-1]     # the copy that GetFill installs was taken by the last GetRead of that key
    txt = lambda e: e[1] if e[0] == "op" else "get:%d" % e[1]
    pre = [txt(e) for e in seq[:w]]
    mid = [txt(e) for e in seq[w + 1:-1]]
    if not mid:
        return None
    return "init=%s ; a=get:%d,get:%d ; b=%s" % (",".join(pre), k, k, ",".join(mid))


def cex_program_evict(r):
    """TLC counterexample of Dev_EvictJournalOutsideLock -> 'init=<up to the erase> ; b=<writers inside the window>'"""
    if not r.trace_json:
        return None
    pre, mid, state = [], [], 0
    for a in r.trace_json["counterexample"]["action"]:
        name, c = a[1]["name"], a[1].get("context", {})
        op = None
        if name == "Set": op = "set:%d:%d" % (c["k"], c["v"])
        elif name == "SetTtl": op = "setx:%d:%d" % (c["k"], c["v"])
        elif name == "Remove": op = "rm:%d" % c["k"]
        elif name == "ExpireAt": op = ("expp:%d" if c["t"] <= 0 else "expf:%d") % c["k"]
        elif name == "Persist": op = "per:%d" % c["k"]
        elif name == "WorkerEvictErase" and state == 0: state = 1
        elif name == "WorkerJournal" and state == 1: state = 2
        if op and state < 2:
            (pre if state == 0 else mid).append(op)
    if state != 2 or not pre or not mid:
        return None
    return "init=%s ; b=%s" % (",".join(pre), ",".join(mid))


READ_OPS = ["get", "get", "get", "ex", "ttl", "getb", "keys", "size"]
WRITE_OPS = ["set", "set", "setx", "rm", "expf", "expp", "per", "clear", "compact"]


def random_program(rng):
    def wop():
        o = rng.choice(WRITE_OPS)
        if o in ("set", "setx"):
            return "%s:%d:%d" % (o, rng.randint(1, 3), rng.randint(1, 3))
        if o in ("clear", "compact"):
            return o
        return "%s:%d" % (o, rng.randint(1, 3))

    def rop():
        o = rng.choice(READ_OPS)
        return o if o in ("getb", "keys", "size") else "%s:%d" % (o, rng.randint(1, 3))
    init = ["%s:%d:%d" % (rng.choice(["set", "set", "setx"]), k, rng.randint(1, 3)) for k in rng.sample([1, 2, 3], rng.randint(2, 3))]
    if rng.random() < 0.3:
        # a key that expires at once: the wheel fires at its next tick and the worker evicts it while the writers run
        init.append("expp:%d" % int(init[rng.randrange(len(init))].split(":")[1]))
    threads = []
    shape = rng.choice(["rw", "rw", "rrw", "rww", "mix"])
    for i, name in enumerate("abc"[:len(shape) if shape != "mix" else 2]):
        n = rng.randint(2, 4)
        if shape == "mix":
            ops = [rng.choice([rop, wop])() for _ in range(n)]
        else:
            ops = [(rop if shape[i] == "r" else wop)() for _ in range(n)]
        threads.append("%s=%s" % (name, ",".join(ops)))
    return "init=%s ; %s" % (",".join(init), " ; ".join(threads))


def split_conc(path):
    """-> list of [lines]; executions that did not run to completion are returned separately"""
    done, other, cur = [], [], []
    with open(path) as f:
        for ln in f:
            cur.append(ln)
            if ln.startswith('{"e":"Reset"'):
                end = next((l for l in cur if l.startswith('{"e":"End"')), None)
                crashed = any(l.startswith('{"e":"Crashed"') or l.startswith('{"e":"HarnessTimeout"') for l in cur)
                if end and '"outcome":"done"' in end and not crashed:
                    done.append(cur)
                else:
                    other.append(cur)
                cur = []
    return done, other


def validate_conc(ck, tag, execs):
    """dedupe, validate against KvConcTrace; returns list of rejected executions (lines, index of unmatched line)"""
    uniq, seen = [], set()
    for lines in execs:
        key = "".join(l for l in lines if not l.startswith('{"e":"End"'))
        if key not in seen:
            seen.add(key)
            uniq.append(lines)
    rejected = []
    chunk = list(uniq)
    rounds = 0
    while chunk and rounds <= 3:
        p = os.path.join(ck.work, "val_conc_%s.ndjson" % tag)
        with open(p, "w") as f:
            for lines in chunk:
                f.writelines(lines)
        for attempt in (1, 2):
            v = vf.validate_trace(os.path.join(SPECDIR, "KvConcTrace.tla"), os.path.join(SPECDIR, "KvConcTrace.cfg"), p,
                                  tag="C12_conc_" + tag, timeout=1200)
            if not v.error:
                break
        if v.error:
            raise vf.Infra("trace validation error (KvConcTrace): " + v.error)
        ck.states += v.states
        if v.accepted:
            break
        ln, k = 0, 0
        while k < len(chunk) and ln + len(chunk[k]) < v.maxl:
            ln += len(chunk[k])
            k += 1
        if k >= len(chunk):
            raise vf.Infra("trace validation: cannot locate rejected line %d" % v.maxl)
        rejected.append((chunk[k], v.maxl - ln - 1))
        chunk = chunk[k + 1:]
        rounds += 1
    return len(uniq), rejected


def overlapping(lines):
    open_calls = 0
    for l in lines:
        if l.startswith('{"e":"Call"') and '"t":"main"' not in l:
            open_calls += 1
            if open_calls > 1:
                return True
        elif l.startswith('{"e":"Ret"') and '"t":"main"' not in l:
            open_calls -= 1
    return False


def conc_summary(lines, pos):
    out = []
    for l in lines[:pos + 1]:
        try:
            e = json.loads(l)
        except Exception:
            continue
        if e["e"] == "Call":
            out.append("%s:%s(%s%s)" % (e["t"], e["op"], e["k"] or "", (",%d" % e["v"]) if e["v"] else ""))
        elif e["e"] == "Reopen":
            out.append("| CLOSE+REOPEN |")
        elif e["e"] == "Ret" and e["op"] in ("get", "ex", "ttl", "getb", "keys", "size"):
            out.append("%s:%s->%s" % (e["t"], e["op"], e["rvs"] if e["op"] in ("getb", "keys") else e["rv"]))
    return " ".join(out)[-700:]


def run_sched(ck, args, timeout=1500):
    rc, out = vf.run_driver("drv_s_kvmap", args, timeout=timeout)
    if rc != 0:
        raise vf.Infra("drv_s_kvmap failed: " + out[-1500:])
    return out.strip().splitlines()[-1] if out.strip() else ""


def concurrent_part(ck, tlc_programs, thorough):
    rng = ck.rng
    scratch = os.path.join(ck.work, "scratch_conc")
    par = min(16, vf.NCPU)
    total = inconclusive = distinct = 0
    nontriv = set()
    findings = []        # (case text, lines, pos)
    # ---- preemption-bounded DFS of the programs derived from the TLC counterexamples (+ eviction / compaction variants)
    # programs whose init already runs the wheel (expp) need one unit per tick time-out (two ticks until a zero-delay timer
    # fires) plus one for the preemption inside the worker's window: bound 3
    dfs_jobs = [(1, p, 3 if "expp" in p.split(";")[0] else 2, 8000 if "expp" in p.split(";")[0] else 1500) for p in tlc_programs]
    if thorough:
        dfs_jobs = [(1, p, 3, 12000) for p in tlc_programs] + [(2, p, 2, 3000) for p in tlc_programs]
        dfs_jobs += [(1, "init=set:1:1,set:2:1,expp:1 ; a=get:1,ex:1 ; b=set:1:2", 3, 20000),
                     (1, "init=setx:1:1,expp:1 ; b=setx:1:2,per:1", 3, 20000)]
        dfs_jobs += [(1, "init=setx:1:1,set:2:1 ; a=get:1,ttl:1 ; b=expp:1,set:1:2", 2, 6000),
                     (1, "init=set:1:1,set:2:1 ; a=get:1,get:2 ; b=compact,rm:1", 2, 6000),
                     (1, "init=set:1:1,set:2:1 ; a=get:1 ; b=set:1:2 ; c=get:1,ex:1", 2, 8000)]
    for j, (cache, prog, bound, cap) in enumerate(dfs_jobs):
        outp = os.path.join(ck.work, "conc_dfs%d.ndjson" % j)
        stat = run_sched(ck, ["dfs", cache, prog, bound, cap, outp, scratch, par])
        done, other = split_conc(outp)
        total += len(done) + len(other)
        inconclusive += len(other)
        n, rej = validate_conc(ck, "dfs%d" % j, done)
        distinct += n
        nontriv.update("".join(x) for x in done if overlapping(x))
        ck.note("concurrent DFS cache=%d bound=%d '%s': %s, %d distinct executions, %d rejected" % (cache, bound, prog, stat, n, len(rej)))
        for lines, pos in rej[:1]:
            findings.append(("dfs %d | %s | %d %d" % (cache, prog, bound, cap), lines, pos))
    # ---- random programs under random schedules (every other one with timeouts of the wheel's tick wait interleaved)
    nrand = 3000 if thorough else 320
    cases = []
    for i in range(nrand):
        prog = tlc_programs[i % len(tlc_programs)] if i < (600 if thorough else 150) else random_program(rng)
        cases.append("cache=%d | %s | %s %d" % (rng.choice([1, 1, 2]), prog, "randomt" if i % 2 else "random", ck.seed * 7919 + i))
    cp = os.path.join(ck.work, "conc_cases.txt")
    open(cp, "w").write("\n".join(cases) + "\n")
    outp = os.path.join(ck.work, "conc_rand.ndjson")
    stat = run_sched(ck, ["run", cp, outp, scratch, par])
    done, other = split_conc(outp)
    total += len(done) + len(other)
    inconclusive += len(other)
    n, rej = validate_conc(ck, "rand", done)
    distinct += n
    nontriv.update("".join(x) for x in done if overlapping(x))
    ck.note("concurrent random: %d programs (%s), %d distinct executions, %d rejected" % (nrand, stat, n, len(rej)))
    # map a rejected execution back to its case: executions are written in case order
    if rej:
        all_execs = []
        cur = []
        for ln in open(outp):
            cur.append(ln)
            if ln.startswith('{"e":"Reset"'):
                all_execs.append(cur)
                cur = []
        for lines, pos in rej[:3]:
            idx = next((i for i, x in enumerate(all_execs) if x == lines), -1)
            findings.append(("run | " + (cases[idx] if 0 <= idx < len(cases) else "?"), lines, pos))
    ck.evaluations += total
    ck.traces += distinct - len(findings)
    ck.nontrivial += len(nontriv)
    ck.note("concurrent part: %d executions under the scheduler (%d inconclusive: step limit / blocked outside the "
            "scheduler / died), %d with overlapping calls of different threads" % (total, inconclusive, len(nontriv)))
    if total == 0 or len(nontriv) == 0:
        raise vf.Infra("self-test: the scheduler runs produced no execution with overlapping calls")
    if inconclusive * 20 > total:
        raise vf.Infra("concurrent part: %d of %d executions did not run to completion under the scheduler" % (inconclusive, total))
    for case, lines, pos in findings:
        again = confirm_conc(ck, case)
        if again is None:
            ck.note("concurrent rejection not repeated on re-run (ignored): %s" % case)
            continue
        lines2, pos2 = again
        rp = ck.save_replay("conc_reject_%d" % (abs(hash(case)) % 100000), {
            "trace.ndjson": "".join(lines2), "case.txt": "conc " + case + "\n",
            "why.txt": "KvConcTrace.tla finds no linearization; first event that cannot be matched (line %d): %s\n" % (
                pos2 + 1, lines2[pos2] if 0 <= pos2 < len(lines2) else "?")})
        ck.violation("concurrent execution not linearizable w.r.t. the reference map (%s): ... %s" % (case, conc_summary(lines2, pos2)), rp)
    # self-test of the oracle: a stale answer in the sequential read-back must be rejected
    for lines in done:
        idx = next((i for i, l in enumerate(lines) if l.startswith('{"e":"Ret","t":"main","op":"get"') and '"rv":0' not in l), -1)
        if idx >= 0:
            e = json.loads(lines[idx])
            e["rv"] = e["rv"] % 3 + 1
            bad = lines[:idx] + [json.dumps(e, separators=(",", ":")) + "\n"] + lines[idx + 1:]
            n2, rej2 = validate_conc(ck, "selftest", [bad])
            if not rej2:
                raise vf.Infra("self-test: KvConcTrace accepted a corrupted read-back")
            break


def confirm_conc(ck, case):
    """re-run a concurrent case; return (lines, pos) of a rejected execution or None"""
    kind, _, rest = case.partition(" | ")
    scratch = os.path.join(ck.work, "scratch_conc")
    outp = os.path.join(ck.work, "conc_confirm.ndjson")
    for attempt in range(3):
        if kind.startswith("dfs"):
            cache = kind.split()[1]
            prog, _, bc = rest.rpartition(" | ")
            bound, cap = bc.split()
            run_sched(ck, ["dfs", cache, prog, bound, cap, outp, scratch, min(16, vf.NCPU)])
        else:
            cp = os.path.join(ck.work, "conc_confirm.txt")
            open(cp, "w").write(rest + "\n")
            run_sched(ck, ["run", cp, outp, scratch, 1])
        done, other = split_conc(outp)
        n, rej = validate_conc(ck, "confirm", done)
        if rej:
            return rej[0]
    return None


def drive(ck, name, cases, binary="drv_kvmap"):
    cases_path = os.path.join(ck.work, "cases_%s.txt" % name)
    with open(cases_path, "w") as f:
        for c, h in cases:
            f.write("%s | %s\n" % (c, h))
    out_path = os.path.join(ck.work, "kvmap_%s.ndjson" % name)
    scratch = os.path.join(ck.work, "scratch_" + name)
    rc, out = vf.run_driver(binary, ["run", cases_path, out_path, scratch, min(16, vf.NCPU)], timeout=2400)
    if rc != 0:
        raise vf.Infra("%s failed: %s" % (binary, out[-2000:]))
    try:
        stats = json.loads(out.strip().splitlines()[-1])
    except Exception:
        raise vf.Infra("drv_kvmap: no statistics line: " + out[-500:])
    return out_path, stats


def split_execs(path):
    """-> list of (case index, [lines])"""
    res, cur, case = [], [], -1
    with open(path) as f:
        for ln in f:
            cur.append(ln)
            if ln.startswith('{"e":"Begin"'):
                case = json.loads(ln).get("case", -1)
            elif ln.startswith('{"e":"Crashed"') or ln.startswith('{"e":"HarnessTimeout"'):
                case = json.loads(ln).get("x", case)
            elif ln.startswith('{"e":"Reset"'):
                res.append((case, cur))
                cur, case = [], -1
    return res


def validate_execs(ck, tag, execs, max_reject=4, par=6):
    rejected = []
    chunks, cur, n = [], [], 0
    for x in execs:
        cur.append(x)
        n += len(x[1])
        if n > 40000:
            chunks.append(cur)
            cur, n = [], 0
    if cur:
        chunks.append(cur)

    def one(ix):
        i, chunk = ix
        rej = []
        chunk = list(chunk)
        rounds = 0
        while chunk and rounds <= max_reject:
            p = os.path.join(ck.work, "val_%s_%d.ndjson" % (tag, i))
            with open(p, "w") as f:
                for _, lines in chunk:
                    f.writelines(lines)
            for attempt in (1, 2):
                v = vf.validate_trace(os.path.join(SPECDIR, "KvMapTrace.tla"), os.path.join(SPECDIR, "KvMapTrace.cfg"), p,
                                      tag="C12_val_%s_%d" % (tag, i), timeout=1500)
                if not v.error:
                    break
            if v.error:
                raise vf.Infra("trace validation error: " + v.error)
            if v.accepted:
                return rej
            ln, k = 0, 0
            while k < len(chunk) and ln + len(chunk[k][1]) < v.maxl:
                ln += len(chunk[k][1])
                k += 1
            if k >= len(chunk):
                raise vf.Infra("trace validation: cannot locate rejected line %d" % v.maxl)
            case, lines = chunk[k]
            pos = v.maxl - ln - 1
            rej.append((case, lines, pos))
            chunk = chunk[k + 1:]
            rounds += 1
        return rej
    with cf.ThreadPoolExecutor(max_workers=par) as ex:
        for rej in ex.map(one, list(enumerate(chunks))):
            rejected += rej
    return rejected


def nontrivial_history(h):
    ops = h.split(";")
    ttl_at = [i for i, o in enumerate(ops) if o.startswith("setttl") or o.startswith("exp ") or
              (o.startswith("batch") and not o.startswith("batch 0"))]
    tick_at = [i for i, o in enumerate(ops) if o.startswith("tick")]
    return (bool(ttl_at) and bool(tick_at) and min(ttl_at) < max(tick_at)) or "open" in ops or "open 1" in ops or "compact" in ops


def judge(ck, name, cases, out_path):
    execs = split_execs(out_path)
    good = []
    evict = reads = died = 0
    for case, lines in execs:
        txt = lines[-2] if len(lines) >= 2 else ""
        if any(l.startswith('{"e":"Crashed"') for l in lines):
            died += 1
            if died <= 3:
                cl = case_line(cases, case)
                rp = ck.save_replay("%s_died_%d" % (name, case), {"trace.ndjson": "".join(lines), "case.txt": cl + "\n"})
                ck.violation("the store crashed (signal / abort / uncaught exception) during: %s" % cl, rp)
            continue
        if txt.startswith('{"e":"End"'):
            e = json.loads(txt)
            evict += e.get("evict", 0)
            reads += e.get("reads", 0)
        good.append((case, lines))
    ck.note("%s: %d executions (%d died); evictions by the worker observed: %d; concurrent reads logged: %d" % (
        name, len(execs), died, evict, reads))
    if name == "main" and (evict == 0 or reads == 0):
        raise vf.Infra("self-test: the short-wheel runs never evicted (%d) or the reader thread logged nothing (%d)" % (evict, reads))
    rej = validate_execs(ck, name, good)
    ck.traces += len(good) - len(rej)
    nt = set()
    for case, lines in good:
        if 0 <= case < len(cases) and nontrivial_history(cases[case][1]):
            nt.add(cases[case][1])
    ck.nontrivial = max(ck.nontrivial, len(nt))
    ck.note("%s: %d executions validated against KvMapTrace, %d rejected" % (name, len(good), len(rej)))
    if good:
        for idx in (0, len(good) // 2):
            ck.sample({"case": case_line(cases, good[idx][0]), "events": [json.loads(l) for l in good[idx][1][:5]]})
    reported = set()
    for case, lines, pos in rej:
        cl = case_line(cases, case)
        if cl in reported:
            continue
        reported.add(cl)
        again = confirm(ck, cl)
        if again is None:
            ck.note("rejection not repeated on 3 re-runs (ignored): %s" % cl)
            continue
        lines2, pos2 = again
        rp = ck.save_replay("%s_reject_%d" % (name, case), {
            "trace.ndjson": "".join(lines2), "case.txt": cl + "\n",
            "why.txt": "KvMapTrace.tla cannot match line %d: %s\n" % (pos2 + 1, lines2[pos2] if 0 <= pos2 < len(lines2) else "?")})
        ck.violation("a read disagrees with the reference map (%s): %s" % (cl, explain(lines2, pos2)), rp)
    if name == "main":
        selftest_corrupt(ck, good)


def explain(lines, pos):
    steps = []
    for l in lines[:pos + 1]:
        try:
            e = json.loads(l)
        except Exception:
            continue
        if e["e"] == "Step":
            a = e["op"]
            for f in ("k", "v", "d", "t"):
                if e.get(f): a += " %s=%d" % (f, e[f])
            steps.append(a)
        elif e["e"] == "R":
            steps.append("concurrent read api=%d k=%d -> %d in steps %d..%d" % (e["api"], e["k"], e["r"], e["lo"], e["hi"]))
    last = {}
    try:
        last = json.loads(lines[pos])
    except Exception:
        pass
    obs = {k: last[k] for k in ("g1", "g2", "ex", "keys", "pfxm", "pfxn", "size", "gb", "ttl", "extra") if k in last}
    return ("; ".join(steps) + " => " + json.dumps(obs))[:700]


def case_line(cases, i):
    if 0 <= i < len(cases):
        return "%s | %s" % cases[i]
    return "?"


def confirm(ck, cl):
    """re-run one case (up to 3 times); return (lines, index of the unmatched line) of a rejected run, or None"""
    cfgtxt, _, h = cl.partition(" | ")
    for attempt in range(3):
        out_path, stats = drive(ck, "confirm", [(cfgtxt, h)])
        execs = split_execs(out_path)
        if any(l.startswith('{"e":"Crashed"') for _, ls in execs for l in ls):
            return execs[0][1], len(execs[0][1]) - 2
        rej = validate_execs(ck, "confirm", execs, max_reject=0, par=1)
        if rej:
            return rej[0][1], rej[0][2]
    return None


def selftest_corrupt(ck, good):
    """a corrupted recording must be rejected: one answer of the cache-path get changed"""
    for case, lines in good:
        for i, l in enumerate(lines):
            if l.startswith('{"e":"Step"') and '"up":true' in l:
                e = json.loads(l)
                if any(e["g2"]):
                    k = next(j for j, v in enumerate(e["g2"]) if v)
                    e["g2"][k] = 0
                    bad = lines[:i] + [json.dumps(e, separators=(",", ":")) + "\n"] + lines[i + 1:]
                    rej = validate_execs(ck, "selftest", [(case, bad)], max_reject=0, par=1)
                    if not rej:
                        raise vf.Infra("self-test: KvMapTrace accepted a corrupted observation")
                    ck.note("self-test: corrupted trace rejected at line %d" % (rej[0][2] + 1))
                    return
    raise vf.Infra("self-test: no observation with a live key found")


def replay(ck, path):
    ck.make("drv_kvmap", "drv_s_kvmap")
    cl = open(os.path.join(path, "case.txt")).read().strip()
    if cl.startswith("conc "):
        again = confirm_conc(ck, cl[5:])
        if again is None:
            print("[C12] replay: every execution of '%s' is linearizable w.r.t. the reference map" % cl)
            return
        lines, pos = again
        print("".join(lines))
        rp = ck.save_replay("replay_conc_reject", {"trace.ndjson": "".join(lines), "case.txt": cl + "\n"})
        ck.violation("concurrent execution not linearizable w.r.t. the reference map (%s): ... %s" % (cl, conc_summary(lines, pos)), rp)
        return
    again = confirm(ck, cl)
    if again is None:
        print("[C12] replay: '%s' is explained by the reference map" % cl)
        return
    lines, pos = again
    print("".join(lines))
    rp = ck.save_replay("replay_reject", {"trace.ndjson": "".join(lines), "case.txt": cl + "\n"})
    ck.violation("a read disagrees with the reference map (%s): %s" % (cl, explain(lines, pos)), rp)
