"""C19 — DNS messages decode exactly or are rejected; cached answers honour TTL.

Three generator/Impl specifications, three Abs trace oracles, one driver (harness/drv_dns.cpp, ASan+UBSan for decoding):

  names    spec/dns/DnsName.tla enumerates EVERY layout of N cells in {End, Label(1|2|63), Junk, Ptr(cell k), Ptr(=size),
           Ptr(far)} x {whole buffer, last byte cut}, walks each like decodeNameWithLoopDetection (invariants Refines,
           Terminates) and prints it with the predicted result; every layout is rendered to an exact-size heap buffer and
           decoded by the real DnsMessage::decodeName; DnsNameTrace.tla judges: exact name + end offset for well-formed
           layouts, ALWAYS an error for pointer loops and out-of-range pointers, never a crash / sanitizer report / hang.
  records  spec/dns/DnsRecords.tla builds responses the way a compressing server does (record type x section x owner form
           x RDATA-name form x value class, a second record pointing into the first, ten malformations) and query plans;
           the driver renders them with its own encoder + compressor, runs DnsMessage::parse (also on every truncation
           and on seeded byte mutations) and buildQuery -> parse; DnsRecordsTrace.tla demands exact records for
           well-formed plans and contained outcomes otherwise.
  cache    spec/dns/DnsCache.tla (Impl of DnsCache over ExpiringCache, property HitOk as invariant, exhaustive) also
           generates operation sequences (all Get-terminated sequences of length 3 + TLC simulation walks); they are
           replayed on the real DnsCache under a virtual monotonic clock (half-second ticks, exact TTL boundaries);
           DnsCacheTrace.tla (the Abs map) judges every get.
Self-tests: every deviation flag must make TLC report a violation; corrupted traces must be flagged by each oracle.
"""
import os, re, json, concurrent.futures as cf
from collections import Counter, defaultdict
import vf

SPECDIR = os.path.join(vf.SPEC, "dns")
ASAN_ENV = {"ASAN_OPTIONS": "detect_leaks=0:abort_on_error=0:allocator_may_return_null=1",
            "UBSAN_OPTIONS": "print_stacktrace=1"}
CHAIN_DEPTHS = [1, 2, 9, 10, 11, 12, 63, 126]        # pointers followed for one name (126: the deepest a legal name can need)
REC_CHAIN_DEPTHS = [1, 2, 9, 10, 11, 12, 25, 40]      # records whose owner names chain (deep subdomain tree)
# the Abs walk of a 254-cell chain layout recurses ~400 deep: TLC worker threads need a larger stack (replaces the
# JAVA_TOOL_OPTIONS vf.run_tlc would set, so library path and queue are repeated here)
DEEP_JOPTS = "-Xss64m -Xmx3g -DTLA-Library=%s" % os.pathsep.join([os.path.join(vf.SPEC, "common"), SPECDIR])
DEEP_ENV = {"JAVA_TOOL_OPTIONS": DEEP_JOPTS}
DEEP_ENV_VAL = {"JAVA_TOOL_OPTIONS": DEEP_JOPTS + " -Dtlc2.tool.queue.IStateQueue=StateDeque"}
NAME_ACTIONS = ["OffEnd", "PtrTruncated", "PtrRange", "PtrLoop", "PtrFollow", "EndOfName", "LabelTooLong",
                "LabelTruncated", "Label"]
CACHE_ACTIONS = ["Put", "PutNeg", "GetHit", "GetMiss", "Remove", "Clear", "Advance"]
SIG_A_PTRLIKE = {"spec": "DnsRecordsTrace", "deviation_action": "Dev_ARdataLooksLikePointer",
                 "args": {"rtype": "A", "addr": "ptrlike"}}
SIG_TTL0 = {"spec": "DnsCacheTrace", "deviation_action": "Dev_TtlZeroCachedForDefault", "args": {"ttl": 0}}


# ------------------------------------------------------------------------------------------------ helpers
def tlc_json_prints(r):
    out = []
    for ln in r.prints:
        if ln.startswith('"'):
            try:
                out.append(json.loads(json.loads(ln)))
            except Exception:
                pass
    return out


def account(ck, r, prefix):
    ck.states += r.distinct
    ck.transitions += r.generated
    for a, (tk, gn) in r.coverage.items():
        ck.cov[prefix + a] = ck.cov.get(prefix + a, 0) + gn


def validate_sharded(ck, spec, trace_path, nshards, by_reset=False, env=None):
    """validate an ndjson trace with `nshards` TLC processes; returns (bad_lines, dev_list[(name, line)]) with global
    1-based line numbers.  The oracles report disallowed events as BAD/DEV lines instead of stopping, so a shard that
    is not consumed completely is an infrastructure problem (unknown event / evaluation error)."""
    lines = open(trace_path).read().splitlines()
    n = len(lines)
    if n == 0:
        raise vf.Infra("empty trace " + trace_path)
    cuts = [0]
    for s in range(1, nshards):
        c = n * s // nshards
        if by_reset:
            while c < n and c > 0 and '"e":"Reset"' not in lines[c - 1]:
                c += 1
        if c > cuts[-1] and c < n:
            cuts.append(c)
    cuts.append(n)
    jobs = []
    for i in range(len(cuts) - 1):
        p = "%s.v%d" % (trace_path, i)
        with open(p, "w") as f:
            f.write("\n".join(lines[cuts[i]:cuts[i + 1]]) + "\n")
        jobs.append((p, cuts[i]))
    mod = os.path.join(SPECDIR, spec + ".tla")
    cfg = os.path.join(SPECDIR, spec + ".cfg")

    def go(job):
        return job, vf.validate_trace(mod, cfg, job[0], tag="C19_val", xmx="3g", env=env)
    with cf.ThreadPoolExecutor(max_workers=min(8, len(jobs))) as ex:
        res = list(ex.map(go, jobs))
    bad, dev, wall = [], [], 0.0
    for (p, base), v in res:
        wall = max(wall, v.wall)
        if v.error:
            raise vf.Infra("trace validation error (%s): %s" % (spec, v.error))
        if not v.accepted:
            ln = lines[base + v.maxl - 1] if base + v.maxl - 1 < n else "?"
            raise vf.Infra("%s cannot consume line %d of %s (no action for this event): %s" % (
                spec, base + v.maxl, os.path.basename(trace_path), ln[:300]))
        bad += [base + int(x) for x in re.findall(r'<<"BAD", (\d+)>>', v.out)]
        skipped = len(re.findall(r'<<"SKIP", (\d+)>>', v.out))
        if skipped:
            ck.skipped = getattr(ck, "skipped", 0) + skipped
        dev += [(d, base + int(x)) for d, x in re.findall(r'<<"DEV", "(\w+)", (\d+)>>', v.out)]
        os.remove(p)
    ck.note("validate %s against %s: %d events in %d shards, %.1fs, BAD=%d DEV=%d" % (
        os.path.basename(trace_path), spec, n, len(jobs), wall, len(bad), len(dev)))
    return lines, sorted(bad), sorted(dev, key=lambda x: x[1])


def run_drv(binary, mode, cases_path, out_path, shards, extra=()):
    for p in (out_path, out_path + ".stderr"):
        if os.path.exists(p):
            os.remove(p)
    rc, out = vf.run_driver(binary, [mode, cases_path, out_path, shards] + list(extra), timeout=1500, env=ASAN_ENV)
    if rc != 0 or "cases=" not in out:
        raise vf.Infra("%s %s failed (rc=%s): %s" % (binary, mode, rc, out[-1500:]))
    return out.strip()


def stderr_excerpt(out_path, limit=6000):
    p = out_path + ".stderr"
    if not os.path.exists(p):
        return ""
    t = open(p, errors="replace").read()
    keep = [ln for ln in t.splitlines() if "stl_vector.h" not in ln or "runtime error" in ln]
    return "\n".join(keep)[:limit]


def self_test_corrupt(ck, spec, lines, mutate, what, flagged=()):
    """corrupt one recorded event that the oracle accepted; the oracle must flag exactly that line.
    Stateless traces (names, records): the corrupted event alone; cache: its execution from the preceding Reset."""
    flagged = set(flagged)
    idx, newline = mutate(lines, flagged)
    if idx is None:
        if ck.violations:
            # so much of the run was rejected that no accepted event of this kind is left: the verdict stands
            ck.note("self-test (%s) not run: no accepted event to corrupt" % what)
            return
        raise vf.Infra("self-test (%s): no event to corrupt" % what)
    lo = idx
    if spec == "DnsCacheTrace":
        while lo > 0 and '"e":"Reset"' not in lines[lo - 1]:
            lo -= 1
        if any((i + 1) in flagged for i in range(lo, idx + 1)):
            raise vf.Infra("self-test (%s): chosen execution already contains flagged events" % what)
    chunk = lines[lo:idx] + [newline]
    p = os.path.join(ck.work, "selftest_%s.ndjson" % spec)
    open(p, "w").write("\n".join(chunk) + "\n")
    v = vf.validate_trace(os.path.join(SPECDIR, spec + ".tla"), os.path.join(SPECDIR, spec + ".cfg"), p, tag="C19_self",
                          env=DEEP_ENV_VAL if spec == "DnsNameTrace" else None)
    if v.error:
        raise vf.Infra("self-test (%s): %s" % (what, v.error))
    bad = [int(x) for x in re.findall(r'<<"BAD", (\d+)>>', v.out)] + [int(x) for x in re.findall(r'<<"DEV", "\w+", (\d+)>>', v.out)]
    if bad != [len(chunk)]:
        raise vf.Infra("self-test: %s accepted a corrupted trace (%s): BAD=%s expected [%d]" % (spec, what, bad, len(chunk)))


# ------------------------------------------------------------------------------------------------ names
def name_line(c):
    return "%d %d %s" % (c["cut"], c["start"], " ".join(map(str, c["cells"])))


def name_cfg(ck, name, n, devs=(), chain=False):
    p = os.path.join(ck.work, name + ".cfg")
    consts = {"Family": '"chain"' if chain else '"all"', "N": n, "Cuts": "{0}" if chain else "{0, 1}",
              "Depths": "{%s}" % ", ".join(map(str, CHAIN_DEPTHS)) if chain else "{}", "NameLimit": 254,
              "Dev_NoVisited": "Dev_NoVisited" in devs, "Dev_PtrBoundOffByOne": "Dev_PtrBoundOffByOne" in devs,
              "Dev_MaxPointerJumps": "Dev_MaxPointerJumps" in devs}
    vf.write_cfg(p, constants=consts, invariants=["Refines", "Terminates"] + ([] if devs else ["Emit"]))
    return p


def part_names(ck, thorough, tlc_results):
    r = tlc_results["name"]
    if r.error:
        raise vf.Infra("TLC DnsName: " + r.error)
    if r.violated:
        rp = ck.save_replay("name_impl_spec", {"tlc.out": r.out[-20000:]})
        ck.violation("DnsName.tla (Impl of decodeNameWithLoopDetection) violates %s" % r.violated, rp)
        return
    account(ck, r, "Name.")
    for a in NAME_ACTIONS:
        if ck.cov.get("Name." + a, 0) == 0:
            raise vf.Infra("self-test: DnsName action %s never taken" % a)
    for dev, exp in (("Dev_NoVisited", ("Terminates", "Refines")), ("Dev_PtrBoundOffByOne", ("Refines",)),
                     ("Dev_MaxPointerJumps", ("Refines",))):
        d = tlc_results[dev]
        if d.violated not in exp:
            raise vf.Infra("self-test: DnsName with %s should violate %s, got %r %s" % (dev, exp, d.violated, d.error))
    rc = tlc_results["name_chain"]
    if rc.error:
        raise vf.Infra("TLC DnsName (chain family): " + rc.error)
    if rc.violated:
        rp = ck.save_replay("name_impl_spec_chain", {"tlc.out": rc.out[-20000:]})
        ck.violation("DnsName.tla (chain family) violates %s" % rc.violated, rp)
        return
    ck.states += rc.distinct
    ck.transitions += rc.generated
    chains = tlc_json_prints(rc)
    # the depth family: every depth, open (well-formed, exactly k jumps) and closed into a loop
    for k in CHAIN_DEPTHS:
        if not any(c["cls"] == "wf" and c["jumps"] == k and len(c["name"]) == k + 1 for c in chains) or \
           not any(c["cls"] == "loop" and len(c["cells"]) == 2 * k + 2 for c in chains):
            raise vf.Infra("chain family: depth %d missing (open well-formed chain / closed loop)" % k)
    cases = tlc_json_prints(r) + chains
    cases.sort(key=lambda c: (len(c["cells"]) > 9, c["cut"], c["cells"]))
    classes = Counter(c["cls"] for c in cases)
    ck.note("DnsName: %s; %d layouts (%d of the chain family, depths %s); Abs classes %s" % (
        r.summary(), len(cases), len(chains), CHAIN_DEPTHS, dict(classes)))
    for k in ("wf", "fwd", "loop", "range", "mal"):
        if classes.get(k, 0) == 0:
            raise vf.Infra("generator produced no layout of class " + k)
    cp = os.path.join(ck.work, "name_cases.txt")
    with open(cp, "w") as f:
        for c in cases:
            f.write(name_line(c) + "\n")
    outp = os.path.join(ck.work, "name.ndjson")
    ck.note("drv_dns.asan name: " + run_drv("drv_dns.asan", "name", cp, outp, 8))
    lines, bad, dev = validate_sharded(ck, "DnsNameTrace", outp, 8, env=DEEP_ENV_VAL)
    if len(lines) != len(cases):
        raise vf.Infra("name mode: %d events for %d cases" % (len(lines), len(cases)))
    ck.evaluations += len(cases)
    ck.traces += len(cases) - len(bad)
    drift = 0
    nontrivial = 0
    for c, ln in zip(cases, lines):
        e = json.loads(ln)
        if any(x >= 10 for x in c["cells"][:1]) or c["cls"] != "wf" or any(x >= 10 for x in c["cells"]):
            nontrivial += 1
        pred = "err" if c["res"] == "hang" else c["res"]
        if (e["res"], e["name"] if e["res"] == "ok" else [], e["end"] if e["res"] == "ok" else 0) != \
           (pred, c["name"] if pred == "ok" else [], c["end"] if pred == "ok" else 0):
            drift += 1
            if drift <= 2:
                ck.note("model drift (names): layout %s cut=%d model %s %s real %s %s" % (
                    c["cells"], c["cut"], c["res"], c["name"], e["res"], e["name"]))
    ck.nontrivial += nontrivial
    ck.note("names: %d layouts decoded by the real code, results differing from the Impl prediction: %d" % (len(cases), drift))
    ck.sample({"kind": "name layout", "case": cases[len(cases) // 3], "event": json.loads(lines[len(cases) // 3])})
    deep = next(i for i, c in enumerate(cases) if c["cls"] == "wf" and c["jumps"] == 12)
    ck.sample({"kind": "compression chain 12 pointers deep", "case": cases[deep], "event": json.loads(lines[deep])})
    # oracle self-tests
    def corrupt_loop(ls, fl):
        for i, c in enumerate(cases):
            if c["cls"] == "loop" and i > len(cases) // 2 and (i + 1) not in fl:
                e = json.loads(ls[i]); e["res"] = "ok"
                return i, json.dumps(e)
        return None, None

    def corrupt_wf(ls, fl):
        for i, c in enumerate(cases):
            if c["cls"] == "wf" and len(c["name"]) >= 2 and (i + 1) not in fl:
                e = json.loads(ls[i]); e["name"] = e["name"][:-1]
                return i, json.dumps(e)
        return None, None
    # verdicts
    groups = defaultdict(list)
    for b in bad:
        c = cases[b - 1]
        e = json.loads(lines[b - 1])
        groups[(c["cls"] + ("_chain" if len(c["cells"]) > 9 else ""), e["res"])].append(b)
    for (cls, res), bs in sorted(groups.items()):
        b = bs[0]
        # re-run the rejected layout alone before reporting it
        again = rerun_single(ck, "name", name_line(cases[b - 1]), "DnsNameTrace")
        if not again:
            ck.note("rejection of layout %s not repeated on re-run: not reported" % cases[b - 1]["cells"])
            continue
        rp = ck.save_replay("name_%s_%s" % (cls, res), {
            "kind.txt": "name\n", "case.txt": name_line(cases[b - 1]) + "\n",
            "event.ndjson": lines[b - 1] + "\n", "model.json": cases[b - 1], "stderr.txt": stderr_excerpt(outp),
            "why.txt": "layout class %s (DnsNameOps.AbsClass) does not allow result %s; %d layouts of this kind\n" % (cls, res, len(bs))})
        ex = cases[b - 1]
        ck.violation("decodeName: layout of Abs class '%s' ended in '%s' (%d layouts, e.g. %s cut %d)" % (
            cls, res, len(bs), ("cells %s" % ex["cells"]) if len(ex["cells"]) <= 9 else
            ("compression chain %d pointers deep" % ((len(ex["cells"]) - 2) // 2)), ex["cut"]), rp)
    self_test_corrupt(ck, "DnsNameTrace", lines, corrupt_loop, "pointer loop reported as decoded", bad)
    self_test_corrupt(ck, "DnsNameTrace", lines, corrupt_wf, "well-formed name with a label missing", bad)


def rerun_single(ck, mode, case_line, spec, extra=()):
    """run one case again; True iff the oracle flags it again (BAD or DEV)"""
    cp = os.path.join(ck.work, "rerun_case.txt")
    open(cp, "w").write(case_line + "\n")
    outp = os.path.join(ck.work, "rerun.ndjson")
    run_drv("drv_dns" if mode == "cache" else "drv_dns_e2e.asan" if mode == "e2e" else "drv_dns.asan", mode, cp, outp, 1, extra)
    v = vf.validate_trace(os.path.join(SPECDIR, spec + ".tla"), os.path.join(SPECDIR, spec + ".cfg"), outp, tag="C19_rerun",
                          env=DEEP_ENV_VAL if spec == "DnsNameTrace" else None)
    if v.error:
        raise vf.Infra("re-run validation: " + v.error)
    return bool(re.search(r'<<"(BAD|DEV)"', v.out))


# ------------------------------------------------------------------------------------------------ records / queries
def plan_key(p):
    return (len(p["rrs"]), p["mm"], tuple(r["ty"] for r in p["rrs"]))


def is_nontrivial_plan(p):
    if "qs" in p:
        return len(p["qs"]) > 1 or any(q["form"] != "plain" or not q["name"] for q in p["qs"])
    return p["mm"] != "exact" or any(r["olit"] < len(r["own"]) or any(l < len(n) for l, n in zip(r["lits"], r["names"]))
                                     for r in p["rrs"])


def part_records(ck, thorough, tlc_results):
    r = tlc_results["rec"]
    if r.error:
        raise vf.Infra("TLC DnsRecords: " + r.error)
    if r.violated:
        raise vf.Infra("DnsRecords.tla generator violates its own invariant %s" % r.violated)
    account(ck, r, "Rec.")
    for a in ("AddRR", "Finish"):
        if ck.cov.get("Rec." + a, 0) == 0:
            raise vf.Infra("self-test: DnsRecords action %s never taken" % a)
    allc = tlc_json_prints(r)
    resp = sorted((c["plan"] for c in allc if c["kind"] == "resp"), key=lambda p: json.dumps(p, sort_keys=True))
    qry = sorted((c["plan"] for c in allc if c["kind"] == "query"), key=lambda p: json.dumps(p, sort_keys=True))
    chain_plans = [p for p in resp if p.get("fam") == "chain"]
    if sorted(len(p["rrs"]) - 1 for p in chain_plans) != REC_CHAIN_DEPTHS:
        raise vf.Infra("generator produced chain responses of depths %s, expected %s" % (
            sorted(len(p["rrs"]) - 1 for p in chain_plans), REC_CHAIN_DEPTHS))
    resp = [p for p in resp if p.get("fam") != "chain"]
    ck.note("DnsRecords: %s; %d response plans + %d owner-name chains (depths %s), %d query plans" % (
        r.summary(), len(resp), len(chain_plans), REC_CHAIN_DEPTHS, len(qry)))
    if not thorough:
        # quick: every well-formed single-record plan, a seeded sample of each malformation and of the two-record plans
        by = defaultdict(list)
        for p in resp:
            by[(len(p["rrs"]), p["mm"])].append(p)
        chosen = []
        for k, ps in sorted(by.items()):
            if k == (1, "exact"):
                chosen += ps
            elif k[0] == 1:
                chosen += ck.rng.sample(ps, min(len(ps), 350))
            else:
                chosen += ck.rng.sample(ps, min(len(ps), 3500))
        resp = chosen
        qry = ck.rng.sample(qry, min(len(qry), 400))
    if thorough:
        part_e2e(ck, resp)
    resp = resp + chain_plans          # the depth family is always executed
    plans = resp + qry
    kinds = Counter((p["mm"] if "mm" in p else "query") for p in plans)
    types = Counter(r_["ty"] for p in resp for r_ in p["rrs"])
    for m in ["exact", "more", "less", "rdlen0", "rdbig", "rdshort", "rloop", "roor", "oloop", "ooor", "query"]:
        if kinds.get(m, 0) == 0:
            raise vf.Infra("generator produced no plan of class " + m)
    for t in ["A", "AAAA", "CNAME", "NS", "PTR", "MX", "SRV", "SOA", "TXT", "NAPTR"]:
        if types.get(t, 0) == 0:
            raise vf.Infra("generator produced no record of type " + t)
    if not any(len(p["rrs"]) == 2 for p in resp):
        raise vf.Infra("generator produced no two-record response")
    cp = os.path.join(ck.work, "rec_cases.txt")
    with open(cp, "w") as f:
        for p in plans:
            f.write(json.dumps(p, separators=(",", ":")) + "\n")
    outp = os.path.join(ck.work, "rec.ndjson")
    muts = 24 if thorough else 12
    ck.note("drv_dns.asan rec: " + run_drv("drv_dns.asan", "rec", cp, outp, 12, [ck.seed, muts]))
    lines, bad, dev = validate_sharded(ck, "DnsRecordsTrace", outp, 8)
    # map events back to plans (a plan produces 1 (Rec|Query) or 3 (Rec, Trunc, Mut) events, or 1 failure event)
    owner = []
    pi = -1
    parses = 0
    for ln in lines:
        if ln.startswith('{"e":"Rec"') or ln.startswith('{"e":"Query"'):
            pi += 1
        if ln.startswith('{"e":"DriverError"'):
            raise vf.Infra("driver could not render a plan: " + ln[:400])
        if ln.startswith('{"e":"Trunc"'):
            parses += json.loads(ln)["len"]
        owner.append(pi)
    if pi + 1 != len(plans):
        raise vf.Infra("rec mode: events for %d plans, expected %d" % (pi + 1, len(plans)))
    ck.evaluations += len(plans)
    ck.traces += len(plans) - len(set(owner[b - 1] for b in bad))
    ck.nontrivial += sum(1 for p in plans if is_nontrivial_plan(p))
    ck.note("records: %d plans parsed by the real code (+ %d truncated prefixes, %d byte mutations); classes %s" % (
        len(plans), parses, muts * kinds.get("exact", 0), dict(kinds)))
    first_exact = next((ln for ln in lines if '"mm":"exact"' in ln and '"res":"ok"' in ln and '"lits":[0]' in ln), None)
    first_query = next((ln for ln in lines if ln.startswith('{"e":"Query"') and '"ok"' in ln), None)
    if first_exact:
        ck.sample({"kind": "response plan", "event": json.loads(first_exact)})
    if first_query:
        ck.sample({"kind": "query plan", "event": json.loads(first_query)})

    flagged = set(bad) | set(b for _, b in dev)

    def corrupt_typed(ls, fl):
        for i, ln in enumerate(ls):
            if (i + 1) not in fl and ln.startswith('{"e":"Rec"') and '"mm":"exact"' in ln and '"res":"ok"' in ln:
                e = json.loads(ln)
                if e["typed"] and e["typed"][0][4]:
                    e["typed"][0][4][0] = e["typed"][0][4][0][:-1] + [7]
                    return i, json.dumps(e)
        return None, None

    def corrupt_trunc(ls, fl):
        for i, ln in enumerate(ls):
            if (i + 1) not in fl and ln.startswith('{"e":"Trunc"'):
                e = json.loads(ln); e["r"] = e["r"][:-1]
                return i, json.dumps(e)
        return None, None
    # verdicts
    groups = defaultdict(list)
    for b in bad:
        p = plans[owner[b - 1]]
        e = json.loads(lines[b - 1])
        if "qs" in p:
            k = ("query", e.get("res"), ())
        else:
            feats = []
            for r_ in p["rrs"]:
                f = r_["ty"]
                if r_["ty"] in ("A", "AAAA", "TXT"):
                    f += str(r_["strs"])
                if [10, 11, 12, 13] in r_["names"] + [r_["own"]]:
                    f += "+maxname"
                feats.append(f)
            k = (p["mm"], e.get("res"), tuple(sorted(set(feats))) if e["e"] == "Rec" and p["mm"] == "exact" else
                 tuple(r_["ty"] for r_ in p["rrs"]) + (e["e"],))
        groups[k].append(b)
    reported = 0
    for k, bs in sorted(groups.items(), key=lambda kv: (-len(kv[1]), str(kv[0]))):
        b = bs[0]
        p = plans[owner[b - 1]]
        line = json.dumps(p, separators=(",", ":"))
        if not rerun_single(ck, "rec", line, "DnsRecordsTrace", [ck.seed, muts]):
            # mutations depend on the case index: replay the whole case file position instead of dropping silently
            ck.note("rejection of plan %s not repeated when run alone (seeded mutation at another index)" % str(k))
        reported += 1
        if reported > 12:
            ck.note("... %d further groups of rejected plans not listed" % (len(groups) - 12))
            break
        rp = ck.save_replay("rec_%d" % reported, {
            "kind.txt": "rec\n", "case.txt": line + "\n", "event.ndjson": lines[b - 1] + "\n",
            "stderr.txt": stderr_excerpt(outp),
            "why.txt": "DnsRecordsOps.AllowedRec/AllowedQuery does not allow this outcome (class %s); %d plans in this group\n" % (str(k), len(bs))})
        ck.violation("DnsMessage::parse: plan class %s -> %s (%d plans; first: %s)" % (
            k[0], k[1], len(bs), line[:300]), rp)
    self_test_corrupt(ck, "DnsRecordsTrace", lines, corrupt_typed, "RDATA name of a typed record altered", flagged)
    self_test_corrupt(ck, "DnsRecordsTrace", lines, corrupt_trunc, "a truncation without outcome", flagged)
    devgroups = defaultdict(list)
    for d, b in dev:
        devgroups[d].append(b)
    for d, bs in sorted(devgroups.items()):
        b = bs[0]
        p = plans[owner[b - 1]]
        line = json.dumps(p, separators=(",", ":"))
        rp = ck.save_replay("rec_dev_" + d, {"kind.txt": "rec\n", "case.txt": line + "\n", "event.ndjson": lines[b - 1] + "\n",
                                             "why.txt": "%d well-formed plans rejected through %s\n" % (len(bs), d)})
        sig = SIG_A_PTRLIKE if d == "Dev_ARdataLooksLikePointer" else {"spec": "DnsRecordsTrace", "deviation_action": d}
        ck.classify(sig, "well-formed response rejected: an A record whose address has first octet >= 0xC0, second < 64 and "
                    "last two 0 (e.g. 192.5.0.0) is taken for a compression pointer by validateRdataSecurity "
                    "(%d plans, first: %s)" % (len(bs), line[:200]), rp)


# ------------------------------------------------------------------------------------------------ end to end
def part_e2e(ck, resp_plans):
    """thorough tier: a stratified seeded sample of response plans is served over loopback UDP to a real DnsTransport"""
    ck.make("drv_dns_e2e.asan")
    by = defaultdict(list)
    for p in resp_plans:
        if len(p["rrs"]) == 1:
            by[p["mm"]].append(p)
    chosen = []
    for k, ps in sorted(by.items()):
        chosen += ck.rng.sample(ps, min(len(ps), 8 if k == "exact" else 4))
    cp = os.path.join(ck.work, "e2e_cases.txt")
    open(cp, "w").write("\n".join(json.dumps(p, separators=(",", ":")) for p in chosen) + "\n")
    outp = os.path.join(ck.work, "e2e.ndjson")
    ck.note("drv_dns_e2e.asan e2e: " + run_drv("drv_dns_e2e.asan", "e2e", cp, outp, 4))
    lines, bad, dev = validate_sharded(ck, "DnsRecordsTrace", outp, 1)
    evs = [json.loads(ln) for ln in lines]
    if len(evs) != len(chosen):
        raise vf.Infra("e2e: %d events for %d plans" % (len(evs), len(chosen)))
    if any(e["e"] == "E2E" and e["res"] in ("ok", "err") and not e["served"] for e in evs):
        raise vf.Infra("e2e: the UDP mock never received the query")
    ck.evaluations += len(chosen)
    ck.traces += len(chosen) - len(bad)
    ck.note("e2e: %d plans answered to DnsTransport::query: %s; slowest completion %d ms" % (
        len(chosen), dict(Counter((e["res"], e["exc"]) for e in evs)), max(e["ms"] for e in evs)))
    for b in bad:
        e = evs[b - 1]
        rp = ck.save_replay("e2e_%d" % b, {"kind.txt": "e2e\n", "case.txt": json.dumps(e["plan"], separators=(",", ":")) + "\n",
                                          "event.ndjson": lines[b - 1] + "\n", "stderr.txt": stderr_excerpt(outp)})
        ck.violation("DnsTransport::query on a %s response ended in '%s' (%s)" % (e["plan"]["mm"], e["res"], e["exc"]), rp)
    for d, b in dev:
        ck.classify(SIG_A_PTRLIKE, "end to end: well-formed response with an A record that looks like a compression pointer rejected", "-")


# ------------------------------------------------------------------------------------------------ cache
QUESTIONS = [[1, 1, 1, 1], [1, 2, 1, 1], [1, 3, 1, 1], [1, 1, 28, 1], [1, 1, 1, 3], [2, 1, 1, 1]]
TTL_LISTS = [[0], [1], [2, 1], [1, 2], []]
NEG_KINDS = [["e", 0, 0], ["e", 1, 0], ["s", 1, 2], ["s", 2, 1], ["n", 0, 0]]
DEFAULT_TTL = 2


def cache_mc(ck, name, max_ops, questions, devs=(), view=True, emit=None, advances=(1, 2)):
    d = os.path.join(ck.work, name)
    os.makedirs(d, exist_ok=True)
    with open(os.path.join(d, "MCDnsCache.tla"), "w") as f:
        f.write("---- MODULE MCDnsCache ----\nEXTENDS DnsCache\n")
        f.write("MCQuestions == %s\n" % vf.tla(set(tuple(q) for q in questions)))
        f.write("MCTtlLists == %s\n" % vf.tla(set(tuple(t) for t in TTL_LISTS)))
        f.write("MCNegKinds == %s\n" % vf.tla(set(tuple(k) for k in NEG_KINDS)))
        f.write("MCAdvances == %s\n" % vf.tla(set(advances)))
        f.write("EmitGet == Len(hist) < MaxOps \\/ hist[MaxOps].op # \"G\" \\/ PrintT(ToJson(hist))\n====\n")
    consts = {"Questions": "<- MCQuestions", "TtlLists": "<- MCTtlLists", "NegKinds": "<- MCNegKinds",
              "Advances": "<- MCAdvances", "DefaultTtl": DEFAULT_TTL, "MaxOps": max_ops}
    for fl in ("Dev_TtlZeroCachedForDefault", "Dev_CaseSensitiveKey", "Dev_MaxTtl", "Dev_HitAtExpiry"):
        consts[fl] = fl in devs
    cfg = os.path.join(d, "MCDnsCache.cfg")
    vf.write_cfg(cfg, constants=consts, invariants=["HitOk", "ImplNeverLate"] + ([emit] if emit else []),
                 view="View" if view else None)
    return os.path.join(d, "MCDnsCache.tla"), cfg


def ops_to_case(ck, ops, pl0=None):
    """driver case line; `pl` says in which sections / typed vectors of the DnsResult the TTLs of a Put are placed"""
    ops = [dict(o) for o in ops]
    for i, o in enumerate(ops):
        if o["op"] == "P":
            o["pl"] = pl0 if (pl0 and i == 0) else ck.rng.randint(1, 6)
    return json.dumps({"dflt": DEFAULT_TTL, "ops": ops}, separators=(",", ":"))


def part_cache(ck, thorough, tlc_results):
    r = tlc_results["cache_mc"]
    if r.error:
        raise vf.Infra("TLC DnsCache: " + r.error)
    account(ck, r, "Cache.")
    ck.note("DnsCache exhaustive: %s" % r.summary())
    if r.violated:
        rp = ck.save_replay("cache_impl_spec", {"tlc.out": r.out[-20000:]})
        ck.violation("DnsCache.tla (Impl of DnsCache/ExpiringCache) violates %s" % r.violated, rp)
        return
    for a in CACHE_ACTIONS:
        if ck.cov.get("Cache." + a, 0) == 0:
            raise vf.Infra("self-test: DnsCache action %s never taken" % a)
    probes = []
    for fl in ("Dev_TtlZeroCachedForDefault", "Dev_CaseSensitiveKey", "Dev_MaxTtl", "Dev_HitAtExpiry"):
        d = tlc_results[fl]
        if d.violated != "HitOk":
            raise vf.Infra("self-test: DnsCache with %s should violate HitOk, got %r %s" % (fl, d.violated, d.error))
        ck.states += d.distinct
        ck.transitions += d.generated
        # the counterexample of the deviating design becomes a probe behaviour for the real code
        if d.trace_json:
            st = d.trace_json["counterexample"]["state"]
            hist = st[-1][1]["hist"]
            probes.append((fl, hist))
    gen = tlc_results["cache_gen"]
    gen1 = tlc_results["cache_gen1"]
    sim = tlc_results["cache_sim"]
    for g in (gen, gen1, sim):
        if g.error:
            raise vf.Infra("TLC DnsCache generation: " + g.error)
        if g.violated:
            raise vf.Infra("DnsCache.tla generation run violates " + g.violated)
    ck.states += gen.distinct
    ck.transitions += gen.generated
    ck.states += gen1.distinct
    ck.transitions += gen1.generated
    seqs = tlc_json_prints(gen)
    over = tlc_json_prints(gen1)
    if len(over) < 1000:
        raise vf.Infra("cache overwrite generator produced too few sequences (%d)" % len(over))
    ck.note("cache: %d single-key overwrite histories of 4 operations" % len(over))
    seqs += over
    gen2 = tlc_results["cache_gen2"]
    if gen2.error or gen2.violated:
        raise vf.Infra("TLC DnsCache look-alike generation: %s %s" % (gen2.error, gen2.violated))
    ck.states += gen2.distinct
    ck.transitions += gen2.generated
    alike = tlc_json_prints(gen2)
    if len(alike) < 500:
        raise vf.Infra("cache look-alike generator produced too few sequences (%d)" % len(alike))
    ck.note("cache: %d histories of 3 operations over look-alike names (one non-letter octet apart)" % len(alike))
    seqs += alike
    walks = tlc_json_prints(sim)
    seqs.sort(key=lambda s: json.dumps(s, sort_keys=True))
    walks.sort(key=lambda s: json.dumps(s, sort_keys=True))
    if len(seqs) < 1000 or len(walks) < 100:
        raise vf.Infra("cache generators produced too few sequences (%d exhaustive, %d walks)" % (len(seqs), len(walks)))
    # placement sweep: an exhaustive sequence that starts with a Put carrying several TTLs is replayed once per placement
    # of those TTLs (answer / authority / additional sections, typed vectors); everything else gets a seeded placement
    allseq, case_lines = [], []
    for kind, h in [("probe:" + fl, h) for fl, h in probes] + [("exh", s) for s in seqs] + [("walk", s) for s in walks]:
        sweep = range(1, 7) if (kind == "exh" and h[0]["op"] == "P" and len(h[0]["ttls"]) >= 2) else [None]
        for pl in sweep:
            allseq.append((kind, h))
            case_lines.append(ops_to_case(ck, h, pl))
    cp = os.path.join(ck.work, "cache_cases.txt")
    open(cp, "w").write("\n".join(case_lines) + "\n")
    outp = os.path.join(ck.work, "cache.ndjson")
    ck.note("drv_dns cache: " + run_drv("drv_dns", "cache", cp, outp, 8))
    lines, bad, dev = validate_sharded(ck, "DnsCacheTrace", outp, 8, by_reset=True)
    # execution index of every line, get statistics, model drift
    xi, owner = 0, []
    for ln in lines:
        owner.append(xi)
        if ln == '{"e":"Reset"}':
            xi += 1
    if xi != len(allseq):
        raise vf.Infra("cache mode: %d executions for %d cases" % (xi, len(allseq)))
    gets = hits = drift = 0
    nontrivial = set()
    it = iter(lines)
    for x, (kind, hist) in enumerate(allseq):
        evs = []
        for ln in it:
            if ln == '{"e":"Reset"}':
                break
            evs.append(json.loads(ln))
        evs = evs[1:]  # Begin
        saw_adv = False
        for o, e in zip(hist, evs):
            if o["op"] == "A":
                saw_adv = True
            if o["op"] == "G":
                gets += 1
                hits += 1 if e["hit"] else 0
                if kind != "probe:Dev_TtlZeroCachedForDefault" and not kind.startswith("probe") and \
                   (bool(o["hit"]) != bool(e["hit"]) or (e["hit"] and o["val"] != e["val"])):
                    drift += 1
                    if drift <= 2:
                        ck.note("model drift (cache): %s" % json.dumps(hist))
                if saw_adv:
                    nontrivial.add(case_lines[x])
    ck.evaluations += len(allseq)
    ck.traces += len(allseq) - len(set(owner[b - 1] for b in bad + [b for _, b in dev]))
    ck.nontrivial += len(nontrivial)
    ck.note("cache: %d sequences replayed on the real DnsCache (virtual clock): %d gets, %d hits, results differing from "
            "the Impl prediction: %d" % (len(allseq), gets, hits, drift))
    if hits < 100 or gets - hits < 100:
        raise vf.Infra("cache replay is vacuous: %d hits / %d gets" % (hits, gets))
    ck.sample({"kind": "cache sequence (TLC simulation walk)", "ops": walks[0]})
    ck.sample({"kind": "probe = TLC counterexample of DnsCache.tla with Dev_TtlZeroCachedForDefault", "ops": probes[0][1]})

    flagged = set(bad) | set(b for _, b in dev)
    flagged_exec = set(owner[b - 1] for b in flagged)

    def corrupt_hit(ls, fl):
        # turn a miss at/after the deadline into a hit with the stored value
        last_put = {}
        for i, ln in enumerate(ls):
            if owner[i] in flagged_exec:
                continue
            e = json.loads(ln)
            if e["e"] in ("Begin", "Reset", "Clear"):
                last_put = {}
            if e["e"] in ("Put", "PutNeg"):
                last_put[(e["q"][0], e["q"][2], e["q"][3])] = e["val"]
            if e["e"] == "Remove":
                last_put.pop((e["q"][0], e["q"][2], e["q"][3]), None)
            if e["e"] == "Get" and not e["hit"] and (e["q"][0], e["q"][2], e["q"][3]) in last_put and i > len(ls) // 2:
                e["hit"] = True; e["val"] = last_put[(e["q"][0], e["q"][2], e["q"][3])]
                return i, json.dumps(e)
        return None, None
    groups = defaultdict(list)
    for b in bad:
        groups[("BAD", allseq[owner[b - 1]][0])].append(b)
    for d, b in dev:
        groups[(d, allseq[owner[b - 1]][0])].append(b)
    for (what, kind), bs in sorted(groups.items()):
        b = bs[0]
        x = owner[b - 1]
        if not rerun_single(ck, "cache", case_lines[x], "DnsCacheTrace"):
            ck.note("rejection of cache sequence not repeated on re-run: not reported: " + case_lines[x])
            continue
        start = b - 1
        while start > 0 and lines[start - 1] != '{"e":"Reset"}':
            start -= 1
        rp = ck.save_replay("cache_%s_%s" % (what, kind.replace(":", "_")), {
            "kind.txt": "cache\n", "case.txt": case_lines[x] + "\n",
            "trace.ndjson": "\n".join(lines[start:b]) + "\n",
            "why.txt": "DnsCacheTrace: the last Get is a hit the Abs map does not allow (%s); %d gets in this group\n" % (what, len(bs))})
        msg = "DnsCache served a get the Abs map forbids (%s sequence, %d gets): %s" % (kind, len(bs), "; ".join(lines[start:b])[:600])
        if what == "Dev_TtlZeroCachedForDefault":
            ck.classify(SIG_TTL0, "answer whose smallest TTL (or negative TTL) is 0 is served for the default TTL: " + msg, rp)
        else:
            ck.violation(msg, rp)
    self_test_corrupt(ck, "DnsCacheTrace", lines, corrupt_hit, "an expired entry reported as a hit", flagged)


# ------------------------------------------------------------------------------------------------ run
def run(ck):
    thorough = ck.tier == "thorough"
    ck.make("drv_dns", "drv_dns.asan")
    ck.rule = ("names: every layout of N cells (alphabet End/Label/Junk/Ptr, N=%d) x {whole, last byte cut} enumerated by TLC "
               "from DnsName.tla + the generated compression chains 1, 2, 9, 10, 11, 12, 63, 126 pointers deep (open and closed "
               "into a loop), non-trivial = contains a pointer or is not well-formed; records: owner-name chains of 1..40 "
               "records (deep subdomain tree) and every response plan of "
               "DnsRecords.tla (type x section x owner form x RDATA-name form x value class x malformation; second record "
               "pointing into the first)%s, each also truncated at every length and byte-mutated; non-trivial = uses "
               "compression or a malformation; cache: every Get-terminated operation sequence of length 3 over %d questions "
               "+ TLC simulation walks + counterexamples of the deviating designs, non-trivial = a get after time advanced"
               % (5 if thorough else 4, "" if thorough else " (quick: seeded sample of malformed and two-record plans)",
                  5))
    n = 5 if thorough else 4
    jobs = {}
    name_mod = os.path.join(SPECDIR, "DnsName.tla")
    jobs["name"] = dict(module_path=name_mod, cfg_path=name_cfg(ck, "name", n), workers=6, coverage=True, timeout=1200)
    jobs["Dev_NoVisited"] = dict(module_path=name_mod, cfg_path=name_cfg(ck, "name_nv", 3, ["Dev_NoVisited"]), workers=1)
    jobs["Dev_PtrBoundOffByOne"] = dict(module_path=name_mod, cfg_path=name_cfg(ck, "name_ob", 3, ["Dev_PtrBoundOffByOne"]), workers=1)
    jobs["name_chain"] = dict(module_path=name_mod, cfg_path=name_cfg(ck, "name_chain", 0, chain=True), workers=2, env=DEEP_ENV)
    jobs["Dev_MaxPointerJumps"] = dict(module_path=name_mod, cfg_path=name_cfg(ck, "name_mj", 0, ["Dev_MaxPointerJumps"], chain=True),
                                       workers=1, env=DEEP_ENV)
    rec_cfg = os.path.join(ck.work, "rec.cfg")
    vf.write_cfg(rec_cfg, constants={"MaxRR": 2, "ChainDepths": "{%s}" % ", ".join(map(str, REC_CHAIN_DEPTHS))},
                 invariants=["Realizable", "SectionsOrdered", "Emit"])
    jobs["rec"] = dict(module_path=os.path.join(SPECDIR, "DnsRecords.tla"), cfg_path=rec_cfg, workers=6, coverage=True, timeout=1200)
    mq = QUESTIONS[:2] + QUESTIONS[3:]      # exhaustive runs: 5 questions (two letter cases of one name, type, class, other name)
    m, c = cache_mc(ck, "cache_mc", 5 if thorough else 4, mq)
    jobs["cache_mc"] = dict(module_path=m, cfg_path=c, workers=6 if thorough else 4, coverage=True, timeout=1500, lib_dirs=[SPECDIR])
    for fl in ("Dev_TtlZeroCachedForDefault", "Dev_CaseSensitiveKey", "Dev_MaxTtl", "Dev_HitAtExpiry"):
        m, c = cache_mc(ck, "cache_" + fl, 4, mq, devs=[fl])
        jobs[fl] = dict(module_path=m, cfg_path=c, workers=1, lib_dirs=[SPECDIR],
                        dump_trace=os.path.join(ck.work, "cex_%s.json" % fl))
    m, c = cache_mc(ck, "cache_gen", 3, mq, view=False, emit="EmitGet")
    jobs["cache_gen"] = dict(module_path=m, cfg_path=c, workers=4, lib_dirs=[SPECDIR], timeout=900)
    # overwrite histories: every sequence of 4 operations on ONE key (two letter cases of its name in the thorough tier)
    # that ends in a get - an entry replaced while it is still live, by a positive or negative answer with a shorter or
    # longer TTL, then read on either side of both deadlines
    m, c = cache_mc(ck, "cache_gen1", 4, mq[:2] if thorough else mq[:1], view=False, emit="EmitGet")
    jobs["cache_gen1"] = dict(module_path=m, cfg_path=c, workers=4, lib_dirs=[SPECDIR], timeout=900)
    # look-alike names: "served only for the same question" - names 3..6 differ from each other in ONE octet that is not a letter
    # ('@' / '`', '[' / '{': 0x20 apart, like the two cases of a letter); every sequence of 3 operations over three of them
    m, c = cache_mc(ck, "cache_gen2", 3, [[3, 1, 1, 1], [4, 1, 1, 1], [3, 2, 1, 1], [5, 1, 1, 1], [6, 1, 1, 1]], view=False, emit="EmitGet")
    jobs["cache_gen2"] = dict(module_path=m, cfg_path=c, workers=4, lib_dirs=[SPECDIR], timeout=900)
    depth = 10 if thorough else 8
    m, c = cache_mc(ck, "cache_sim", depth, QUESTIONS + [[3, 1, 1, 1], [4, 1, 1, 1]], view=False, emit="Emit", advances=(1, 2, 3))
    jobs["cache_sim"] = dict(module_path=m, cfg_path=c, workers=2, lib_dirs=[SPECDIR], timeout=900,
                             simulate="num=%d" % (12000 if thorough else 1500), depth=depth + 1, seed=ck.seed)

    def go(k):
        kw = dict(jobs[k])
        kw.setdefault("lib_dirs", [SPECDIR])
        return k, vf.run_tlc(kw.pop("module_path"), kw.pop("cfg_path"), tag="C19_" + k, **kw)
    with cf.ThreadPoolExecutor(max_workers=6) as ex:
        res = dict(ex.map(go, list(jobs)))
    # TLC enumerations are exhaustive within the stated bounds; the quick tier executes a seeded sample of the record plans
    ck.exhaustive = bool(thorough)
    part_names(ck, thorough, res)
    part_records(ck, thorough, res)
    part_cache(ck, thorough, res)
    if getattr(ck, "skipped", 0):
        ck.note("%d cases were skipped by the driver after repeated crashes / hangs in their shard" % ck.skipped)
        if not ck.violations:
            raise vf.Infra("cases were skipped although no violation was reported")
    ck.assumptions += [
        "a name that runs off the end of the buffer without terminator, a reserved label type, a cut label or pointer, an "
        "oversize name and a malformed RDATA may end in a decoded message OR an error (the statement asks only for "
        "termination without reading outside the buffer); only pointer loops and out-of-range pointers MUST be errors",
        "a looping / out-of-range pointer inside an RDATA name counts as 'reported' when parse() throws or when the message "
        "is returned without a typed record built from that name (the code logs and skips the record)",
        "a forward compression pointer that leads to a proper name may be decoded exactly or rejected",
        "the number of compression pointers followed is no criterion of well-formedness: RFC 1035 bounds a name by 255 octets / "
        "127 labels, so chains up to 126 pointers deep must decode exactly (a jump cap below that rejects legal names)",
        "buildQuery may refuse a question (exception); what it builds must decode to the same questions "
        "(names compared label-wise without regard to letter case and the trailing root dot)",
        "cache: a hit is forbidden at or after insert + TTL (virtual clock, exact instants); a miss is always allowed; "
        "a positive answer without any record has no TTL bound; without SOA the negative TTL is the configured default"]


def replay(ck, path):
    ck.make("drv_dns", "drv_dns.asan")
    kind = open(os.path.join(path, "kind.txt")).read().strip()
    case = open(os.path.join(path, "case.txt")).read().strip()
    spec = {"name": "DnsNameTrace", "rec": "DnsRecordsTrace", "e2e": "DnsRecordsTrace", "cache": "DnsCacheTrace"}[kind]
    if kind == "e2e":
        ck.make("drv_dns_e2e.asan")
    flagged = rerun_single(ck, kind, case, spec, [ck.seed, 12] if kind == "rec" else [])
    print(open(os.path.join(ck.work, "rerun.ndjson")).read()[:4000])
    print(stderr_excerpt(os.path.join(ck.work, "rerun.ndjson"), 3000))
    if flagged:
        ck.violation("replayed case is rejected by %s again" % spec, path)
    else:
        ck.note("replayed case is accepted by %s" % spec)
