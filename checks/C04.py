"""C04 — synchronous connect yields a live session or a definite error in time.

1. TLC checks spec/transport/SyncConnect.tla (Impl of connectSync racing onConnect / onClose in its timeout window) exhaustively
   for 2 concurrent callers: GlobalOnlyOwned, OkOnlyLive.  Self-test: MarkAbandoned = FALSE (before the fix) must violate
   GlobalOnlyOwned with the schedule Register, TimeoutUnlock, IoOnConnect, IoOnClose.
2. Programs (callers x engine outcomes: connected, refused, never answered, closed right after connecting, teardown while
   parked) run on the real Transport over the scripted engine under seeded random schedules and preemption-bounded DFS, in
   virtual time; traces validated against TransportTrace.tla (ok only for a live session the transport did not close itself,
   Timeout never early and only after the engine was told to close the attempt, global callbacks only for owned sessions).
"""
import os, concurrent.futures as cf
import vf
from checks import transport_common as tc

SPECDIR = tc.SPECDIR


def nontrivial(evs):
    return any(e["e"] == "ConnRet" and not e["ok"] for e in evs) or any(e["e"] in ("GlobalClose", "EngClose") for e in evs)


PROGS = [
    "8 | io=connected:1 ; main=csync:50",
    "8 | io=connected:1,connected:2 ; main=csync:100 ; a=csync:50",
    "8 | io=connfail:1 ; main=csync:100,csync:30",
    "8 | io=connected:1,close:100 ; main=csync:100,sleep:5",
    "8 | io=connected:2,connfail:1 ; main=csync:80 ; a=csync:40 ; b=connect",
    "8 | io=connected:1 ; main=csync:20,csync:20,sleep:30",
    "8 | io=connected:1 ; main=sleep:1,stop ; a=csync:100000",
    "8 | io=connected:1,connected:2 ; main=destroy ; a=csync:100000 ; b=csync:100000",
    "8 | io=accept:1,connected:1,data:1:2,close:1 ; main=observe:1:o1,csync:60,connect,sleep:10",
    # connectSyncCancellable (sub-attempts of at most 100 ms): cancelled before / during / between attempts, a connect that
    # completes around the cancel; Cancelled only with nothing left open, ok only with a live session
    "8 | io=sleep:40,connected:1 ; main=join ; a=ccsync:1000 ; b=sleep:30,cancel",
    "8 | io=connected:2 ; main=join ; a=ccsync:350 ; b=sleep:120,cancel",
    "8 | io=accept:1 ; main=join ; a=ccsync:250 ; b=sleep:130,cancel",
]


def nontrivial_engine(evs):
    return any(e["e"] == "SyncConnRet" and not e["ok"] for e in evs) or stale_window(evs)


def stale_window(evs):
    """black-hole programs: the attempt was queued and the old session's socket became writable again before the I/O thread
    processed the close of that session - its next epoll batch carries a stale event for a recycled descriptor number"""
    names = [(e["e"], e.get("s")) for e in evs]
    try:
        drain = names.index(("PDrain", None))
        return drain < names.index(("Close", 1)) and any(n[0] in ("ConnRet", "SyncConnCall") for n in names[:drain])
    except ValueError:
        return False


def engine_batch(ck, thorough):
    """EngineBatch.tla: how the TCP engine's I/O thread walks one epoll batch by descriptor NUMBER while process() releases and
    re-issues numbers.  The code (getpeername probe, no skipping of entries for numbers released in the batch) keeps
    NoFalseConnect; without the probe TLC's counterexample is the black-hole program run on the real engine below; with the
    usual remedy (SkipClosedInBatch) both invariants hold.  NoCollateralClose does NOT hold for the code - observed on the real
    engine as well (DESIGN 8.5), no listed property, reported as an observation."""
    tla_path = os.path.join(SPECDIR, "EngineBatch.tla")
    jobs = [("code", True, False, ["TypeOK", "NoFalseConnect"]), ("noprobe", False, False, ["TypeOK", "NoFalseConnect"]),
            ("observe", True, False, ["NoCollateralClose"]), ("remedy", False, True, ["TypeOK", "NoFalseConnect", "NoCollateralClose"])]

    def go(job):
        name, probe, skip, invs = job
        cfg = os.path.join(ck.work, "batch_%s.cfg" % name)
        vf.write_cfg(cfg, constants={"Fds": "{1, 2}", "MaxGen": 3 if thorough and name == "code" else 2, "ProbeOnWritable": probe,
                                     "SkipClosedInBatch": skip}, invariants=invs)
        return job, vf.run_tlc(tla_path, cfg, tag="C04_batch_" + name, workers=4, coverage=name == "code", timeout=1500)
    with cf.ThreadPoolExecutor(max_workers=4) as ex:
        res = list(ex.map(go, jobs))
    for (name, probe, skip, invs), r in res:
        if r.error:
            raise vf.Infra("TLC failed on EngineBatch %s: %s" % (name, r.error))
        ck.states += r.distinct
        ck.transitions += r.generated
        if name == "noprobe":
            if r.violated != "NoFalseConnect":
                raise vf.Infra("self-test: EngineBatch.tla with ProbeOnWritable=FALSE should violate NoFalseConnect, got %r" % r.violated)
        elif name == "observe":
            ck.note("OBSERVATION (no listed property): EngineBatch.tla with the code's constants %s NoCollateralClose (violated = a stale "
                    "hang-up entry for a recycled descriptor number closes the new owner)" % ("violates" if r.violated else "keeps"))
        else:
            ck.note("EngineBatch %s: %s" % (name, r.summary()))
            if name == "code":
                for a, (tk, gn) in r.coverage.items():
                    ck.cov["Batch." + a] = gn
                for a in ["AppConnect", "AppClose", "KernelWritable", "KernelReset", "Wait", "StepCmd", "StepSkip", "StepWritable", "StepHangup"]:
                    if ck.cov.get("Batch." + a, 0) == 0:
                        raise vf.Infra("self-test: EngineBatch action %s never taken" % a)
            if r.violated:
                rp = ck.save_replay("impl_batch_" + name, {"tlc.out": r.out})
                if name == "code":
                    ck.violation("EngineBatch.tla (the design the engine follows) violates %s" % r.violated, rp)
                else:
                    raise vf.Infra("self-test: EngineBatch.tla with SkipClosedInBatch should keep every invariant, violated %r" % r.violated)


def run(ck):
    thorough = ck.tier == "thorough"
    ck.make(tc.DRV)
    ck.rule = ("programs = callers x engine outcomes (connected / refused / silent / closed after connect / teardown while parked), "
               "each under seeded random schedules and preemption-bounded DFS of the real Transport on the scripted engine, in "
               "virtual time; non-trivial = a connectSync failed or a close command / global close occurred")
    tla_path = os.path.join(SPECDIR, "SyncConnect.tla")
    # mark = (MarkAbandoned, MarkAbandonedOnTeardown): the code as repaired is (True, True); either flag FALSE must violate
    jobs = [("c2", "{c1, c2}", (True, True)), ("c2_nomark", "{c1, c2}", (False, True)), ("c2_nomark_td", "{c1, c2}", (True, False))] + (
        [("c3", "{c1, c2, c3}", (True, True))] if thorough else [])

    def go(job):
        name, callers, mark = job
        cfg = os.path.join(ck.work, name + ".cfg")
        vf.write_cfg(cfg, constants={"Callers": callers, "MarkAbandoned": mark[0], "MarkAbandonedOnTeardown": mark[1], "WithTeardown": True},
                     invariants=["GlobalOnlyOwned", "OkOnlyLive"])
        return job, vf.run_tlc(tla_path, cfg, tag="C04_" + name, workers=4, coverage=all(mark), timeout=900)
    with cf.ThreadPoolExecutor(max_workers=3) as ex:
        res = list(ex.map(go, jobs))
    for (name, callers, mark), r in res:
        if r.error:
            raise vf.Infra("TLC failed on SyncConnect %s: %s" % (name, r.error))
        ck.states += r.distinct
        ck.transitions += r.generated
        if not all(mark):
            if r.violated != "GlobalOnlyOwned":
                raise vf.Infra("self-test: SyncConnect.tla with MarkAbandoned%s=FALSE should violate GlobalOnlyOwned, got %r" % (
                    "" if not mark[0] else "OnTeardown", r.violated))
            continue
        for a, (tk, gn) in r.coverage.items():
            ck.cov[a] = ck.cov.get(a, 0) + gn
        ck.note("SyncConnect %s: %s" % (name, r.summary()))
        if r.violated:
            rp = ck.save_replay("impl_" + name, {"tlc.out": r.out})
            ck.violation("SyncConnect.tla (the design the code follows) violates %s" % r.violated, rp)
    for a in ["Register", "WakeDone", "TimeoutUnlock", "IssueClose", "ReturnTimeout", "IoOnConnect", "IoOnClose", "Fence", "ReturnShutdown"]:
        if ck.cov.get(a, 0) == 0:
            raise vf.Infra("self-test: SyncConnect action %s never taken" % a)
    engine_batch(ck, thorough)
    lines = []
    nsched = 200 if thorough else 40
    for i, p in enumerate(PROGS):
        for k in range(nsched):
            lines.append("%s | random %d" % (p, ck.seed * 999983 + i * 1009 + k))
    # the TLC counterexample of MarkAbandoned=FALSE as a directed plan: Register, TimeoutUnlock, IoOnConnect, IoOnClose
    lines.append("8 | io=connected:1 ; main=csync:50 | replay main*cv_wait main io*sleep main! main*point:call io* main*")
    tc.run_cases(ck, lines, "random", nontrivial)
    for j, p in enumerate(PROGS[:2] if not thorough else PROGS):
        tc.run_dfs(ck, p, 2, 40000 if thorough else 2500, "dfs%d" % j, nontrivial)
    # the counterexample of MarkAbandonedOnTeardown=FALSE (Register, Fence, ReturnShutdown, IoOnConnect, IoOnClose) lies within two
    # preemptions of this program: destruction while one connectSync is parked and its connect completes late
    tc.run_dfs(ck, "8 | io=connected:1 ; main=destroy ; a=csync:100000", 2, 20000 if thorough else 2000, "dfs_td", nontrivial)
    # the real TcpEngine under the scheduler (harness/drv_sio_engine.cpp, oracle EngineTrace.tla): a connectSync whose timeout may
    # expire while its Connect command is still queued / the handshake is under way; whatever it returns, once it has closed what
    # it was given nothing stays open on either side of the loopback connection ("leaves no open connection behind")
    kw = dict(drv=tc.ENGINE_DRV, spec="EngineTrace")
    ck.make(tc.ENGINE_DRV)
    eprog = "main=listen,setflag:g,waitflag:d,gauge:0,stop ; a=waitflag:g,csync:20,close:0,setflag:d"
    elines = ["%s | %s | %s %d" % (proto, eprog, "randomt" if k % 2 else "random", ck.seed * 6007 + k)
              for proto in ("tcp", "tcpb") for k in range((150 if thorough else 40) if proto == "tcp" else (40 if thorough else 10))]
    tc.run_cases(ck, elines, "engine_csync", nontrivial_engine, **kw)
    tc.run_dfs(ck, "tcp | " + eprog, 1 if not thorough else 2, 8000 if thorough else 400, "engine_dfs", nontrivial_engine, **kw)
    # "success only for a completed handshake" against STALE readiness events: the target is a black hole (a loopback listener
    # with a full accept queue: SYNs are dropped, the attempt stays in SYN_SENT).  A session with unsent output is closed, the
    # attempt is queued, and the old session's peer starts reading - all before the I/O thread looks again: its next batch is
    # [eventfd, old descriptor: writable]; the close releases the descriptor number, the new socket gets it, and the stale
    # "writable" is dispatched to the connecting session.  It must not be taken for a completed connect.
    holes = ["main=hole,listen,peer:1,waitn:1,send:1:8000000,spin:40,close:1,connectto:hole,pdrain:1,spin:60,stop",
             # (connectSync: the I/O thread is held in a slow data callback of another session while the three things happen)
             "main=hole,listen,peer:1,peer:2,waitn:2,send:1:8000000,spin:40,cbwait:h,psend:2:4,spin:20,setflag:g,waitflag:c,sleep:5,pdrain:1,setflag:h,spin:60,waitflag:d,stop ; a=waitflag:g,close:1,setflag:c,csync:100000:hole,setflag:d"]
    hlines = ["%s | %s | random %d" % (proto, p, ck.seed * 6011 + k) for proto in ("tcp", "tcpb") for pi, p in enumerate(holes)
              for k in range((60 if thorough else 12) if proto == "tcp" else 6)]
    tc.run_cases(ck, hlines, "engine_hole", nontrivial_engine, **kw)
    # (every execution moves 8 MB through loopback and leaves half-open sockets behind: the explorations are kept short)
    tc.run_dfs(ck, "tcp | " + holes[0], 1, 600 if thorough else 200, "engine_hole_dfs0", nontrivial_engine, **kw)
    tc.run_dfs(ck, "tcp | " + holes[1], 1 if not thorough else 2, 1500 if thorough else 400, "engine_hole_dfs1", nontrivial_engine, **kw)
    hits = {}
    for nm in ("engine_hole", "engine_hole_dfs0", "engine_hole_dfs1"):
        fp = os.path.join(ck.work, nm + ".ndjson")
        if os.path.exists(fp):
            xs = vf.split_executions(vf.read_ndjson(fp))
            hits[nm] = "%d of %d" % (sum(1 for x in xs if stale_window(x[1])), len(xs))
    ck.note("black-hole programs: executions in which a stale readiness event reached the connecting session's descriptor: %s" % hits)
    real_engine(ck, thorough)


REAL = [
    "call:accept:2000,call:refused:2000,call:blackhole:300,call:reset:1000,call:cancel:1000",
    "par:call:accept:2000+call:blackhole:400+call:refused:1500+call:accept:2000+call:blackhole:250+call:cancel:800+call:reset:1000+call:accept:2000",
    "par:call:blackhole:200+call:blackhole:350+call:blackhole:500+call:cancel:600,call:accept:1500,par:call:refused:500+call:refused:500",
    # the engine's own connect timer (300 ms) fires while the I/O thread is still deciding that the connect completed (stalled
    # inside getpeername): its Close command is stale by the time it is processed - the session handed out must stay live
    "ct:300,stallgp:700,call:accept:3000,wait:400,call:accept:3000",
    "ct:250,call:accept:2000,stallgp:600,call:accept:3000,wait:300,call:refused:1000",
]


def real_engine(ck, thorough):
    """the real TcpEngine: targets that accept, refuse, black-hole, reset; cancellation; 8 concurrent callers (real time)"""
    import json
    ck.make("drv_connectreal")
    cases = REAL * (4 if thorough else 1)
    cp = os.path.join(ck.work, "real_cases.txt")
    open(cp, "w").write("\n".join(cases) + "\n")
    outp = os.path.join(ck.work, "real.ndjson")
    rc, out = vf.run_driver("drv_connectreal", ["run", cp, outp, 3], timeout=900)
    if rc != 0:
        raise vf.Infra("drv_connectreal failed: " + out[-1500:])
    events = vf.read_ndjson(outp)
    if any(e["e"] in ("SetupFailed", "HarnessTimeout") for e in events):
        raise vf.Infra("drv_connectreal could not set a scenario up")
    execs = vf.split_executions(events)
    ck.evaluations += len(execs)
    if any(e["e"] == "Crashed" for e in events):
        rp = ck.save_replay("real_crash", {"trace.ndjson": outp})
        ck.violation("real-engine connectSync scenario crashed", rp)
        return
    spec = os.path.join(SPECDIR, "ConnectRealTrace.tla")
    v = ck.validate(spec, os.path.join(SPECDIR, "ConnectRealTrace.cfg"), outp, n_exec=len(execs))
    ck.sample({"kind": "real TcpEngine connectSync", "case": cases[0], "events": execs[0][1][:12]})
    if not v.accepted:
        # a rejection that depends on wall-clock slack is reported only if an immediate re-run repeats it
        rc, out = vf.run_driver("drv_connectreal", ["run", cp, outp + ".again", 3], timeout=900)
        v2 = ck.validate(spec, os.path.join(SPECDIR, "ConnectRealTrace.cfg"), outp + ".again", n_exec=0)
        if v2.accepted:
            ck.note("real-engine rejection at line %d not repeated by an immediate re-run: treated as load noise, not reported" % v.maxl)
            return
        events = vf.read_ndjson(outp + ".again")
        execs = vf.split_executions(events)
        x = vf.exec_index_of_line(events, v2.maxl)
        start, evs = execs[min(x, len(execs) - 1)]
        bad_ev = events[v2.maxl - 1] if v2.maxl <= len(events) else {}
        rp = ck.save_replay("real_reject_%d" % x, {"trace.ndjson": "\n".join(json.dumps(e) for e in evs) + "\n", "case.txt": "real " + cases[x] + "\n"})
        ck.classify({"spec": "ConnectRealTrace", "event": bad_ev.get("e"), "kind": bad_ev.get("kind")},
                    "real TcpEngine connectSync execution rejected (%s): first unmatched event %s" % (cases[x], json.dumps(bad_ev)), rp)


def replay(ck, path):
    tc.replay(ck, path, nontrivial)
