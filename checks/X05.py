"""X05 (extra, beyond the listed properties; not registered in MANIFEST.json) — iora::core::StateMachine: first matching rule in
insertion order with lazily evaluated guards, exit -> action -> commit -> enter -> observer, invalid events change nothing,
return value of the first leg, thenEvent follow-ups, forceState, mutual exclusion of transitions, atomic state reads.

  1. spec/extra/StateMachine.tla (Impl, one action per critical section, any transition table) is model-checked for the table
     T1 below with two threads; every Dev_* flag must make TLC report a violation (self-test).
  2. Generator: the state graph (VIEW without the ghost history) of the one-thread and of the two-thread configuration is
     dumped; a transition cover + random walks become thread programs.  One-thread behaviours run on both instantiations
     (Context = void / context-bearing); two-thread behaviours are replayed at critical-section grain under the scheduler,
     run again under seeded random schedules, and a preemption-bounded DFS explores one program.
  3. Every recorded execution (callbacks log what currentState() shows them) is judged by spec/extra/StateMachineTrace.tla.
Observations (notes; the check stays green): processEvent/forceState from inside a callback self-deadlocks (probe per callback
kind); the legs of a compound (thenEvent) transition are not atomic (probe from TLC's counterexample to CompoundAtomic)."""
import os, re, json
import vf
from checks import xcore_common as xc

SPECDIR = xc.SPECDIR
TRACE = os.path.join(SPECDIR, "StateMachineTrace.tla")
TRACE_CFG = os.path.join(SPECDIR, "StateMachineTrace.cfg")
# the transition table T1 (insertion order!): (from, event, to, guard, thenEvent, action)
T1 = dict(init=1, any=1, enter=[2, 3, 2], exit=[1, 2, 1], fenter=[1, 3], fexit=[2],
          rules=[(2, 2, 3, 0, 3, 1), (1, 1, 2, 1, 0, 1), (3, 3, 1, 0, 0, 0), (1, 1, 3, 2, 0, 0), (3, 1, 2, 0, 2, 1),
                 (1, 1, 1, 0, 0, 0), (2, 3, 2, 1, 0, 1), (1, 1, 2, 0, 0, 1), (2, 1, 1, 0, 2, 0)])
# a second table without observer and callbacks (legs without any recorded callback; guard-only machine)
T2 = dict(init=2, any=0, enter=[], exit=[3], fenter=[], fexit=[],
          rules=[(2, 1, 3, 2, 2, 0), (2, 1, 1, 1, 0, 0), (3, 2, 2, 0, 0, 0), (1, 1, 2, 0, 1, 0), (1, 2, 1, 1, 0, 0)])
DEVS = {"Dev_LastMatchWins": "FirstMatchWins", "Dev_EvalAllGuards": "LazyGuards", "Dev_CommitAfterEnter": "CallbackOrder",
        "Dev_NoMatchExits": "NoMatchNoEffect", "Dev_ReturnLastLeg": "ReturnValue", "Dev_ForceFiresRegular": "ForceOnly",
        "Dev_StaleState": "Chain", "Dev_FollowUpUnderLock": "NoSelfDeadlock"}
INVS = ["FirstMatchWins", "LazyGuards", "NoMatchNoEffect", "CallbackOrder", "ReturnValue", "ForceOnly", "Chain", "NoSelfDeadlock"]
ACTIONS = ["FireCS", "FollowCS", "ForceCS", "Read"]


def table_defs(tb):
    rules = ", ".join("[from |-> %d, ev |-> %d, to |-> %d, g |-> %d, then |-> %d, act |-> %s]" % (r[0], r[1], r[2], r[3], r[4], "TRUE" if r[5] else "FALSE") for r in tb["rules"])
    return ("MCRules == << %s >>\nMCGuardVecs == {{}, {1}, {2}, {1, 2}}\nMCOnEnter == %s\nMCOnExit == %s\nMCForceEnter == %s\nMCForceExit == %s\n"
            "GenView == <<state, mutex, pc, ret, nops>>\n" % (rules, vf.tla(tb["enter"]), vf.tla(tb["exit"]), vf.tla(tb["fenter"]), vf.tla(tb["fexit"])))


def consts(tb, procs, max_ops, devs=()):
    c = {"Procs": set(procs), "States": {1, 2, 3}, "Events": {1, 2, 3}, "GuardVecs": "<- MCGuardVecs", "InitState": tb["init"],
         "Rules": "<- MCRules", "OnEnter": "<- MCOnEnter", "OnExit": "<- MCOnExit", "ForceEnter": "<- MCForceEnter",
         "ForceExit": "<- MCForceExit", "HasAny": bool(tb["any"]), "MaxOps": max_ops}
    for d in DEVS:
        c[d] = d in devs
    return c


def table_field(tb, ctx, re_=None):
    s = "%d init=%d rules=%s enter=%s exit=%s fenter=%s fexit=%s any=%d" % (
        ctx, tb["init"], ",".join(":".join(str(x) for x in r) for r in tb["rules"]), ",".join(map(str, tb["enter"])),
        ",".join(map(str, tb["exit"])), ",".join(map(str, tb["fenter"])), ",".join(map(str, tb["fexit"])), tb["any"])
    return s + (" re=" + re_ if re_ else "")


LABEL = re.compile(r'(\w+)\("(\w+)"(?:,(\d+))?(?:,\{([\d, ]*)\})?\)')


def parse_label(lab):
    m = LABEL.match(lab)
    if not m:
        raise vf.Infra("unexpected edge label " + lab)
    gv = [int(x) for x in m.group(4).replace(" ", "").split(",") if x] if m.group(4) is not None else []
    return m.group(1), m.group(2), int(m.group(3)) if m.group(3) else 0, gv


def to_case(labels, ctxid):
    """[(action, thread, n, gv)] -> (programs field, plan)"""
    prog, plan = {}, ["main*"]
    for act, t, n, gv in labels:
        prog.setdefault(t, [])
        if act == "FireCS":
            ctxid[0] += 1
            prog[t].append("fire:%d:%d:%d" % (n, sum(1 << (g - 1) for g in gv), ctxid[0] % 1000)); plan += [t + "*unlock", t]
        elif act == "FollowCS":
            plan += [t + "*unlock", t]
        elif act == "ForceCS":
            prog[t].append("force:%d" % n); plan += [t + "*unlock", t]
        elif act == "Read":
            prog[t].append("read" if ctxid[0] % 3 else "isin:%d" % (1 + ctxid[0] % 3)); plan += [t]
        else:
            break    # ReadStale / FireStaleCS exist only in the deviating design
    return ";".join("%s=%s" % (t, ",".join(o)) for t, o in sorted(prog.items()) if o), plan


def cex_to_labels(r):
    out = []
    for name, args in xc.cex_labels(r):
        t = args[0]
        n = args[1] if len(args) > 1 and isinstance(args[1], int) else 0
        gv = args[2] if len(args) > 2 and isinstance(args[2], list) else []
        out.append((name, t, n, gv))
    return out


def run(ck):
    thorough = ck.tier == "thorough"
    ck.make("drv_s_statemachine")
    ck.rule = ("StateMachine: transition cover + random walks of the TLC state graph of StateMachine.tla as thread programs on the "
               "real class (void and context-bearing), two-thread behaviours replayed at critical-section grain + random schedules "
               "+ DFS; non-trivial = distinct event sequences with a follow-up leg or two threads")
    # ---------------------------------------------------------------- 1. model checking + self-tests
    jobs = {}
    t, c = xc.write_mc(ck, "MCSm", "StateMachine", consts(T1, "ab", 4 if thorough else 3), INVS, defs=table_defs(T1))
    jobs["mc"] = dict(module_path=t, cfg_path=c, workers=4, coverage=True)
    t, c = xc.write_mc(ck, "MCSm2", "StateMachine", consts(T2, "ab", 3), INVS, defs=table_defs(T2))
    jobs["mc_t2"] = dict(module_path=t, cfg_path=c, workers=2, coverage=True)
    dots = {}
    for key, tb, procs, ops in (("g1", T1, "a", 6), ("g2", T1, "ab", 4 if thorough else 3), ("g1_t2", T2, "a", 6)):
        dots[key] = os.path.join(ck.work, key + ".dot")
        t, c = xc.write_mc(ck, "Gen_" + key, "StateMachine", consts(tb, procs, ops), INVS, defs=table_defs(tb), view="GenView")
        jobs[key] = dict(module_path=t, cfg_path=c, workers=2, dump_dot=dots[key])
    for d in DEVS:
        t, c = xc.write_mc(ck, "MC_" + d, "StateMachine", consts(T1, "ab" if d == "Dev_StaleState" else "a", 3, devs=[d]), INVS, defs=table_defs(T1))
        jobs[d] = dict(module_path=t, cfg_path=c, workers=1, dump_trace=os.path.join(ck.work, d + ".json"))
    t, c = xc.write_mc(ck, "MC_Obs", "StateMachine", consts(T1, "ab", 3), ["CompoundAtomic"], defs=table_defs(T1))
    jobs["obs"] = dict(module_path=t, cfg_path=c, workers=1, dump_trace=os.path.join(ck.work, "obs.json"))
    res = xc.tlc_many(jobs, max_parallel=6)
    for k in ("mc", "mc_t2", "g1", "g2", "g1_t2"):
        r = res[k]
        if r.error:
            raise vf.Infra("TLC %s: %s" % (k, r.error))
        if k.startswith("mc"):
            xc.account(ck, r, "" if k == "mc" else "T2.")
        ck.note("StateMachine.tla %s: %s" % (k, r.summary()))
        if r.violated:
            ck.violation("StateMachine.tla (%s) violates %s" % (k, r.violated), ck.save_replay("impl_" + k, {"tlc.out": r.out[-20000:]}))
            return
    xc.require_actions(ck, res["mc"], ACTIONS, "StateMachine.tla")
    ck.exhaustive = True
    for d, inv in DEVS.items():
        if res[d].violated != inv:
            raise vf.Infra("self-test: StateMachine.tla with %s should violate %s, got %r %s" % (d, inv, res[d].violated, (res[d].error or "")[-400:]))
    if res["obs"].violated != "CompoundAtomic":
        raise vf.Infra("self-test: CompoundAtomic should fail in the model of the code as it is, got %r" % res["obs"].violated)
    ck.note("self-test: %d deviation flags each violate their invariant; CompoundAtomic fails (Obs_ThenNotAtomic)" % len(DEVS))
    # ---------------------------------------------------------------- 2. behaviours -> the real class
    lines, kinds = [], []
    ctxid = [0]

    def add(tb, ctx, labels, sched, kind, re_=None):
        progs, plan = to_case(labels, ctxid)
        if not progs:
            return
        lines.append("%s | %s | %s" % (table_field(tb, ctx, re_), progs, sched if sched else "replay " + " ".join(plan)))
        kinds.append(kind)
    # directed probes: counterexamples of the deviating designs (the real code must NOT show them) and the observation
    for d in DEVS:
        add(T1, 0, cex_to_labels(res[d]), None, "probe:" + d)
    add(T1, 0, cex_to_labels(res["obs"]), None, "probe:Obs_ThenNotAtomic")
    for key, tb in (("g1", T1), ("g1_t2", T2)):
        g = vf.Graph.load(dots[key]); os.remove(dots[key])
        paths, covered, total = g.transition_cover(ck.rng, maxlen=30)
        walks = g.random_walks(ck.rng, 300 if thorough else 60, maxlen=30)
        ck.note("%s: %d nodes, %d edges, %d cover behaviours (%d edges) + %d walks" % (key, len(g.nodes), total, len(paths), covered, len(walks)))
        if covered < total:
            raise vf.Infra("transition cover of %s incomplete" % key)
        for i, p in enumerate(paths + walks):
            labs = [parse_label(x) for x in p]
            add(tb, i % 2, labs, "random %d" % (ck.seed + i), "seq")
    g = vf.Graph.load(dots["g2"]); os.remove(dots["g2"])
    paths, covered, total = g.transition_cover(ck.rng, maxlen=30, limit=2500 if thorough else 450)
    walks = g.random_walks(ck.rng, 500 if thorough else 100, maxlen=30)
    ck.note("g2: %d nodes, %d edges, %d cover behaviours (%d edges) + %d walks" % (len(g.nodes), total, len(paths), covered, len(walks)))
    for i, p in enumerate(paths + walks):
        labs = [parse_label(x) for x in p]
        add(T1, i % 2, labs, None, "replay")
        if i % 2 == 0:
            add(T1, (i // 2) % 2, labs, "random %d" % (ck.seed * 29 + i), "random")
    # re-entrancy probes: one per callback kind
    reent = [("guard:2:fire:3", "a=fire:1:1:1,read"), ("exit:1:fire:3", "a=fire:1:1:1,read"), ("action:2:force:3", "a=fire:1:1:1,read"),
             ("enter:1:fire:3", "a=fire:1:1:1,read"), ("any:0:fire:3", "a=fire:1:1:1,read"), ("any:0:force:1", "a=fire:1:1:1,read"),
             ("fexit:1:fire:1", "a=force:2,force:3,read"), ("fenter:2:force:1", "a=force:3,read")]
    for re_, prog in reent:
        for ctx in (0, 1):
            lines.append("%s | %s | random 1" % (table_field(T1, ctx, re_), prog)); kinds.append("reent")
    outp = xc.run_driver_cases(ck, "drv_s_statemachine", lines, "sm")
    dfs_out = os.path.join(ck.work, "dfs.ndjson")
    rc, out = vf.run_driver("drv_s_statemachine", ["dfs", "%s | a=fire:1:0:1,fire:1:1:2;b=force:3,fire:1:0:3,read" % table_field(T1, 1), 2,
                                                   3000 if thorough else 400, dfs_out, 12], timeout=900)
    if rc != 0:
        raise vf.Infra("drv_s_statemachine dfs failed: " + out[-1000:])
    ck.note("dfs (preemption bound 2): " + out.strip().splitlines()[-1])
    allp = os.path.join(ck.work, "all.ndjson")
    with open(allp, "w") as f:
        f.write(open(outp).read()); f.write(open(dfs_out).read())
    raw = open(allp).read().splitlines()
    execs = xc.exec_texts(allp)
    ck.evaluations += len(execs)
    case_of = lambda x: lines[x] if x < len(lines) else "dfs"
    for x, e in enumerate(execs):
        if any('"e":"Crashed"' in y or '"e":"HarnessTimeout"' in y for y in e):
            ck.violation("state machine execution crashed or hung", ck.save_replay("crash", {"trace.ndjson": "\n".join(e) + "\n", "case.txt": case_of(x) + "\n"}))
            return
    nrep = sum(1 for k in kinds if k == "replay")   # (probes of deviating designs may be infeasible on the real code)
    drift = sum(1 for i, e in enumerate(execs) if i < len(kinds) and kinds[i] == "replay" and '"drift":true' in e[-1])
    ck.note("replayed %d TLC behaviours at critical-section grain, %d drifted" % (nrep, drift))

    def nontrivial(e):
        threads = {json.loads(y).get("t") for y in e if '"e":"Cb"' in y}
        legs = sum('"k":"any"' in y for y in e)
        calls = sum('"e":"Call"' in y for y in e)
        return len(threads) > 1 or legs > calls
    ck.nontrivial = len({"\n".join(e[1:]) for e in execs if nontrivial(e)})
    i0 = kinds.index("seq")
    ck.sample({"kind": "one-thread behaviour", "case": lines[i0].split(" | ", 1)[1], "events": [json.loads(y) for y in execs[i0][1:9]]})
    # ---------------------------------------------------------------- 3. the oracle
    ok, bad, obs = xc.validate_sharded(ck, TRACE, TRACE_CFG, allp, nshards=6 if thorough else 4)
    if not ok:
        x = bad["exec"]
        rp = ck.save_replay("reject_%d" % x, {"trace.ndjson": "\n".join(execs[x]) + "\n", "case.txt": case_of(x) + "\n"})
        ck.violation("state machine execution rejected by StateMachineTrace.tla at %s (%s)" % (json.dumps(bad["event"]), case_of(x).split(" | ", 1)[-1]), rp)
        return
    if drift > nrep // 10:
        raise vf.Infra("too many replays drifted (%d of %d)" % (drift, nrep))
    dead = {xc.exec_of_line(raw, ln) for ln in obs.get("ReentrantDeadlock", [])}
    re_idx = [i for i, k in enumerate(kinds) if k == "reent"]
    if all(i in dead for i in re_idx):
        ck.note("OBSERVATION O-05a (re-entrancy): processEvent()/forceState() called from inside ANY callback (guard, onExit, action, onEnter, "
                "onAnyTransition, onExitForce, onEnterForce; void and context-bearing) locks the non-recursive mutex again: the calling "
                "thread deadlocks with itself (%d of %d probes end Stuck at 'lock'), e.g. table T1, onEnter(2) calls processEvent(3) during 'fire 1'" % (len(dead & set(re_idx)), len(re_idx)))
    else:
        ck.note("observation O-05a (self-deadlock on re-entrant processEvent): %d of %d probes deadlock on this tree" % (len(dead & set(re_idx)), len(re_idx)))
    unexpected = dead - set(re_idx)
    if unexpected:
        raise vf.Infra("executions without a re-entrant callback were judged in chaos mode: %s" % sorted(unexpected)[:5])
    na = sorted({xc.exec_of_line(raw, ln) for ln in obs.get("ThenNotAtomic", [])})
    pi = kinds.index("probe:Obs_ThenNotAtomic")
    if na:
        # (the TLC-derived probe shows it only if the interleaved leg records a callback between the two legs; when the follow-up
        #  leg itself is silent the oracle cannot tell the order, so any execution with a recorded interleaving is cited)
        x = pi if pi in na else na[0]
        ck.note("OBSERVATION O-05b (Obs_ThenNotAtomic): the legs of a thenEvent transition are separate critical sections; another thread's "
                "transition slips in between and the follow-up is processed in a different state (or silently dropped): '%s' "
                "(%d executions record a foreign callback between two legs; TLC counterexample to CompoundAtomic: '%s')" % (
                    case_of(x).split(" | ", 1)[-1], len(na), lines[pi].split(" | ", 1)[1]))
    else:
        ck.note("observation O-05b (thenEvent legs not atomic) not reproduced on this tree")
    # oracle self-tests
    base = next(e for e in execs if sum('"k":"exit"' in y for y in e) >= 1 and any('"k":"action"' in y for y in e) and '"ctx":0' in e[0] and '"ReCall"' not in "".join(e))
    ia = next(i for i, y in enumerate(base) if '"k":"action"' in y)
    if '"k":"exit"' in base[ia - 1]:
        sw = list(base); sw[ia - 1], sw[ia] = sw[ia], sw[ia - 1]
        xc.must_reject(ck, TRACE, TRACE_CFG, "\n".join(sw) + "\n", "action before onExit")
    ir = next(i for i, y in enumerate(base) if '"e":"Ret"' in y and '"op":"fire"' in y)
    fl = list(base); d = json.loads(fl[ir]); d["ok"] = not d["ok"]; fl[ir] = json.dumps(d)
    xc.must_reject(ck, TRACE, TRACE_CFG, "\n".join(fl) + "\n", "wrong return value")
    ic = next(i for i, y in enumerate(base) if '"k":"enter"' in y or '"k":"any"' in y)
    cu = list(base); d = json.loads(cu[ic]); d["cur"] = json.loads(base[ia])["cur"] if d["cur"] != json.loads(base[ia])["cur"] else d["cur"] % 3 + 1; cu[ic] = json.dumps(d)
    xc.must_reject(ck, TRACE, TRACE_CFG, "\n".join(cu) + "\n", "enter sees the old state")
    ck.note("oracle self-test: swapped callbacks / wrong return value / stale state in onEnter are rejected")


def replay(ck, path):
    run(ck)
