"""C20 — static asset and template lookup never escapes its root directory.

  1. spec/web/AssetPath.tla (Impl of getStatic/getTemplate as the step sequence lexical reject -> status -> canonical ->
     containment -> is_regular_file -> cache -> open(O_NOFOLLOW) -> read -> .gz sibling, with the environment action
     SwapLeaf between any two steps) is model-checked for EVERY request name of <= MaxSegs segments over a 16-segment
     alphabet (dot-dot, dot, empty = leading/trailing/repeated separators, inside/outside links to files and directories,
     a sibling directory whose name extends the root's, a cross link between the static and template roots, a literal
     %2f.., NUL, backslash, an over-long component, the absolute path of the secret) x 4 modes x every swap plan:
     invariant Safe (what is returned carries the tag of a regular file inside the root of the mode).
  2. Its terminal states are the conformance cases.  harness/drv_assets.cpp builds the tree FS0 on disk, performs every
     case on the real iora::web::Assets (leaf swaps are executed inside the interposed stat/realpath/open/read call the
     model step corresponds to) and logs result class + content tag; spec/web/AssetTrace.tla judges every lookup (tag
     inside per the specification AND per the OS's realpath).
  3. Leaf kinds beyond file / directory / link (a named pipe, a link to it, a unix socket, a link to /dev/null in each
     root; the driver's feeder thread opens the write end of a pipe as soon as the code under test holds its read end,
     so a lookup that opens a pipe returns the pipe's tag instead of hanging) and HISTORIES: every valid sequence of
     <= 3 operations {dirout: the intermediate directory <root>/dir is moved away and a link to the outside directory
     takes its name, dirback, reload()} between consecutive lookups of the same name on ONE Assets object, in all four
     modes, for every name whose resolution the dirout changes.  Every lookup of a history is judged against the tree
     at the time of that lookup (model: `inside`; trace: dir = in | out; OS: walk of the root before the lookup).
  4. Self-tests: each deviation flag (no O_NOFOLLOW, containment on the unresolved candidate, containment by string
     prefix, no is_regular_file test, name -> resolved-path memo) must make TLC violate Safe; a corrupted trace (tag of
     the secret; a history lookup returning the moved-out file) must be flagged; the tree built by the driver must
     equal FS0.
"""
import os, re, json, shutil, concurrent.futures as cf
from collections import Counter, defaultdict
import vf

SPECDIR = os.path.join(vf.SPEC, "web")
ACTIONS = ["Lex", "Exists", "Realpath", "ContainedStep", "IsReg", "CacheStep", "Open", "Read", "GzStat", "GzOpen", "SwapLeaf", "Between"]
DEVS = ["Dev_NoNoFollow", "Dev_LexicalContainment", "Dev_PrefixContainment", "Dev_NoIsReg", "Dev_ResolveMemo"]
SPECIAL = {"DOTDOT", "DOT", "EMPTY", "link_in", "link_out", "dlink_out", "dlink_sib", "link_x", "PCT", "NUL", "BSL", "LONG", "ABS",
           "pipe", "link_pipe", "sock", "link_null"}
NONREG = {"pipe", "link_pipe", "sock", "link_null"}
HIST_DEFAULT = (["none"], [])


def asset_cfg(ck, name, max_segs, max_swap, devs=(), emit=True):
    p = os.path.join(ck.work, name + ".cfg")
    consts = {"MaxSegs": max_segs, "MaxSwapSegs": max_swap, "MaxHist": 3, "MaxHistSegs": min(3, max_segs)}
    for d in DEVS:
        consts[d] = d in devs
    vf.write_cfg(p, constants=consts, invariants=["Safe"] + (["Emit"] if emit else []))
    return p


def hook_of(mode, pc):
    """model step the swap precedes -> (family, ordinal) of the interposed call inside one round of the real lookup
    (measured with `drv_assets probe`: stat, realpath, stat, open, read, read, [gz:] stat, open, read, read; the
    embedded mode first canonicalises EXTERNAL_DIR: stat, realpath)"""
    shift = 1 if mode == "embedded_ext" else 0
    return {"exists": ("pre", 0), "realpath": ("realpath", 1 + shift), "isreg": ("stat", 2 + shift),
            "open": ("open", 1), "read": ("read", 1), "gzstat": ("stat", 3 + shift), "gzopen": ("open", 2)}[pc]


def tlc_cases(r):
    out = []
    for ln in r.prints:
        if ln.startswith('"'):
            try:
                out.append(json.loads(json.loads(ln)))
            except Exception:
                pass
    return out


def check_tree(ck):
    """the tree the driver builds must be the FS0 of the specification"""
    d = os.path.join(ck.work, "fs0")
    os.makedirs(d, exist_ok=True)
    with open(os.path.join(d, "MCFs.tla"), "w") as f:
        f.write("---- MODULE MCFs ----\nEXTENDS AssetOps, Json\nVARIABLE x\n"
                "FsList == {[p |-> p, k |-> FS0[p].k, tag |-> FS0[p].tag, to |-> FS0[p].to] : p \\in DOMAIN FS0}\n"
                "Init == x = 0 /\\ PrintT(ToJson(FsList))\nNext == UNCHANGED x\nSpec == Init /\\ [][Next]_x\n====\n")
    cfg = os.path.join(d, "MCFs.cfg")
    vf.write_cfg(cfg)
    r = vf.run_tlc(os.path.join(d, "MCFs.tla"), cfg, tag="C20_fs0", workers=1, lib_dirs=[SPECDIR])
    if r.error:
        raise vf.Infra("TLC FS0 dump: " + r.error)
    spec = set()
    for c in tlc_cases(r):
        for n in c:
            if not n["p"] or n["p"][0] == "dev":         # the machine's /dev/null is not part of the scratch tree
                continue
            spec.add(("/".join(n["p"]), {"dir": "d", "file": "f", "link": "l", "fifo": "p", "sock": "s"}[n["k"]], n["tag"], "/".join(n["to"]) or "-"))
    rc, out = vf.run_driver("drv_assets", ["tree", "x"])
    drv = set()
    for ln in out.splitlines():
        w = ln.split()
        if len(w) == 4:
            drv.add((w[0], "l" if w[1] == "L" else w[1], int(w[2]), w[3]))    # L: link to /<to> of the machine
    if spec != drv or not spec:
        raise vf.Infra("the tree of drv_assets.cpp differs from FS0 of AssetOps.tla: only in spec %s, only in driver %s" % (
            sorted(spec - drv)[:5], sorted(drv - spec)[:5]))
    ck.note("driver tree = FS0 of the specification (%d nodes)" % len(spec))


def to_case(c):
    rounds = len(c["outs"])
    if c["swap"] == "none":
        fam, nth, rnd = "pre", 0, 0
    else:
        rnd, pc = c["at"]
        fam, nth = hook_of(c["mode"], pc)
    return {"mode": c["mode"], "segs": c["segs"], "swap": c["swap"], "round": rnd, "fam": fam, "nth": nth,
            "target": c["target"], "rounds": rounds, "hist": c["hist"]}


def run_cases(ck, cases, name, shards=8):
    """run driver cases in `shards` processes (each with its own scratch tree); returns list of event lines"""
    fsbase = os.path.join(vf.BUILD, "fs", "C20_%d" % os.getpid())
    os.makedirs(fsbase, exist_ok=True)
    parts = []
    n = len(cases)
    shards = max(1, min(shards, n))
    for s in range(shards):
        lo, hi = n * s // shards, n * (s + 1) // shards
        cp = os.path.join(ck.work, "%s_cases_%d.txt" % (name, s))
        with open(cp, "w") as f:
            for c in cases[lo:hi]:
                f.write(json.dumps(c, separators=(",", ":")) + "\n")
        parts.append((cp, os.path.join(ck.work, "%s_%d.ndjson" % (name, s)), os.path.join(fsbase, "t%d" % s)))

    def go(p):
        rc, out = vf.run_driver("drv_assets", ["run", p[0], p[1], p[2]], timeout=1500)
        if rc != 0 or "cases=" not in out:
            raise vf.Infra("drv_assets failed (rc=%s): %s" % (rc, out[-1500:]))
        return open(p[1]).read()
    with cf.ThreadPoolExecutor(max_workers=shards) as ex:
        texts = list(ex.map(go, parts))
    shutil.rmtree(fsbase, ignore_errors=True)
    outp = os.path.join(ck.work, name + ".ndjson")
    with open(outp, "w") as f:
        f.write("".join(texts))
    for cp, op, _ in parts:
        os.remove(cp); os.remove(op)
    return outp


def validate_sharded(ck, trace_path, nshards=8):
    lines = open(trace_path).read().splitlines()
    n = len(lines)
    if n == 0:
        raise vf.Infra("empty trace")
    pool = nshards
    if n > 500000:
        nshards = 3 * nshards            # keep a shard near the size TLC's Json module has been seen to take
    nshards = max(1, min(nshards, n // 500 + 1))
    jobs = []
    for s in range(nshards):
        lo, hi = n * s // nshards, n * (s + 1) // nshards
        p = "%s.v%d" % (trace_path, s)
        open(p, "w").write("\n".join(lines[lo:hi]) + "\n")
        jobs.append((p, lo))
    mod, cfg = os.path.join(SPECDIR, "AssetTrace.tla"), os.path.join(SPECDIR, "AssetTrace.cfg")

    def go(j):
        return j, vf.validate_trace(mod, cfg, j[0], tag="C20_val", xmx="3g")
    with cf.ThreadPoolExecutor(max_workers=min(pool, nshards)) as ex:
        res = list(ex.map(go, jobs))
    bad, wall = [], 0.0
    for (p, base), v in res:
        wall = max(wall, v.wall)
        if v.error:
            raise vf.Infra("trace validation error: " + v.error)
        if not v.accepted:
            raise vf.Infra("AssetTrace cannot consume line %d: %s" % (base + v.maxl, lines[base + v.maxl - 1][:300] if base + v.maxl - 1 < n else "?"))
        bad += [base + int(x) for x in re.findall(r'<<"BAD", (\d+)>>', v.out)]
        os.remove(p)
    ck.note("validate %s against AssetTrace: %d events in %d shards, %.1fs, BAD=%d" % (os.path.basename(trace_path), n, len(jobs), wall, len(bad)))
    return lines, sorted(bad)


def judge(ck, cases, models, name):
    outp = run_cases(ck, cases, name)
    lines, bad = validate_sharded(ck, outp)
    # events per case = rounds
    owner = []
    for i, c in enumerate(cases):
        owner += [i] * c["rounds"]
    if len(owner) != len(lines):
        drv_err = [ln for ln in lines if "DriverError" in ln][:2]
        raise vf.Infra("%s: %d events for %d expected (%s)" % (name, len(lines), len(owner), drv_err))
    return outp, lines, bad, owner


def run(ck):
    thorough = ck.tier == "thorough"
    ck.make("drv_assets")
    max_segs = 4 if thorough else 3
    ck.rule = ("every request name of <= %d segments over the 20-segment alphabet of AssetPath.tla x modes {filesystem cached, "
               "per-request, embedded + EXTERNAL_DIR, templates} enumerated by TLC, plus every leaf-swap plan (resolved file, "
               "its .gz sibling, or the inside-pointing link the name ends in, replaced by a link to the secret right before "
               "each file-system step of either round) for names of <= %d segments, plus every history of <= 3 operations {<root>/dir "
               "swapped for a link to the outside directory, swapped back, reload()} between lookups of one name on one Assets object "
               "for every name (<= 3 segments) whose resolution the swap changes; the alphabet names a pipe, a link to it, a socket and "
               "a link to /dev/null inside each root; non-trivial = the name contains a dot, empty, link, non-regular or hostile "
               "segment, or the case has a swap or a history" % (max_segs, 3 if thorough else 2))
    check_tree(ck)
    mod = os.path.join(SPECDIR, "AssetPath.tla")
    max_swap = 3 if thorough else 2
    jobs = {"gen": dict(cfg_path=asset_cfg(ck, "gen", max_segs, max_swap), workers=int(os.environ.get("C20_WORKERS", 8 if thorough else 4)), coverage=True, timeout=1500)}
    for d in DEVS:
        jobs[d] = dict(cfg_path=asset_cfg(ck, d, 2, 2, [d], emit=False), workers=1)

    def go(k):
        kw = dict(jobs[k])
        return k, vf.run_tlc(mod, kw.pop("cfg_path"), tag="C20_" + k, lib_dirs=[SPECDIR], **kw)
    with cf.ThreadPoolExecutor(max_workers=4) as ex:
        res = dict(ex.map(go, list(jobs)))
    r = res["gen"]
    if r.error:
        raise vf.Infra("TLC AssetPath: " + r.error)
    ck.states += r.distinct
    ck.transitions += r.generated
    for a, (tk, gn) in r.coverage.items():
        ck.cov[a] = ck.cov.get(a, 0) + gn
    ck.note("AssetPath: %s" % r.summary())
    ck.exhaustive = True
    if r.violated:
        rp = ck.save_replay("impl_spec", {"tlc.out": r.out[-20000:]})
        ck.violation("AssetPath.tla (Impl of the lookup) violates %s: the design lets outside content through" % r.violated, rp)
        return
    for a in ACTIONS:
        if ck.cov.get(a, 0) == 0:
            raise vf.Infra("self-test: AssetPath action %s never taken" % a)
    for d in DEVS:
        if res[d].violated != "Safe":
            raise vf.Infra("self-test: AssetPath with %s should violate Safe, got %r %s" % (d, res[d].violated, res[d].error))
        ck.states += res[d].distinct
        ck.transitions += res[d].generated
    models = tlc_cases(r)
    models.sort(key=lambda c: json.dumps(c, sort_keys=True))
    # several model interleavings map to one driver case only when everything but the model-internal step is equal
    seen, cases, keep = set(), [], []
    for m in models:
        c = to_case(m)
        k = json.dumps(c, sort_keys=True)
        if k in seen:
            continue
        seen.add(k); cases.append(c); keep.append(m)
    models = keep
    kinds = Counter((c["mode"], c["swap"]) for c in cases)
    for mname in ("fs_cached", "fs_perreq", "embedded_ext", "templates"):
        for sw in ("none", "leaf", "relink") + (("gz",) if mname != "templates" else ()):
            if kinds.get((mname, sw), 0) == 0:
                raise vf.Infra("generator produced no case for mode %s swap %s" % (mname, sw))
    is_hist = lambda c: c["hist"] not in HIST_DEFAULT
    hk = Counter((c["mode"], op) for c in cases if is_hist(c) for op in c["hist"])
    for mname in ("fs_cached", "fs_perreq", "embedded_ext", "templates"):
        for op in ("dirout", "dirback", "reload"):
            if hk.get((mname, op), 0) == 0:
                raise vf.Infra("generator produced no history with %s in mode %s" % (op, mname))
        if not any(c["mode"] == mname and NONREG & set(c["segs"]) for c in cases):
            raise vf.Infra("generator produced no name of a non-regular leaf in mode %s" % mname)
    ck.note("cases: %d (by swap kind: %s; histories: %d over %d names)" % (
        len(cases), dict(Counter(c["swap"] for c in cases)), sum(1 for c in cases if is_hist(c)),
        len(set((c["mode"], tuple(c["segs"])) for c in cases if is_hist(c)))))
    outp, lines, bad, owner = judge(ck, cases, models, "assets")
    ck.evaluations += len(cases)
    ck.traces += len(cases) - len(set(owner[b - 1] for b in bad))
    ck.nontrivial += sum(1 for c in cases if c["swap"] != "none" or is_hist(c) or any(s in SPECIAL for s in c["segs"]))
    # model drift / statistics
    found = swapped = drift = exc = outlk = outref = backfound = fed = 0
    first_of = {}
    for i, o in enumerate(owner):
        first_of.setdefault(o, i)
    for ci, (c, m) in enumerate(zip(cases, models)):
        for rr in range(c["rounds"]):
            e = json.loads(lines[first_of[ci] + rr])
            mo = m["outs"][rr]
            found += e["res"] == "found"
            exc += e["res"] == "exception"
            swapped += bool(e["swapped"]) and rr + 1 == c["round"]
            fed += e["fed"]
            if is_hist(c):
                nout = sum(1 for op in c["hist"][:rr] if op == "dirout") - sum(1 for op in c["hist"][:rr] if op == "dirback")
                if (e["dir"] == "out") != (nout == 1):
                    raise vf.Infra("driver did not perform the history %s (round %d: dir=%s)" % (c["hist"], rr + 1, e["dir"]))
                outlk += e["dir"] == "out"
                outref += e["dir"] == "out" and e["res"] != "found" and m["outs"][0]["res"] == "found"
                backfound += e["dir"] == "in" and rr > 0 and "dirback" in c["hist"][:rr] and e["res"] == "found"
            same = (e["res"] == "found") == (mo["res"] == "found") and (e["res"] != "found" or (e["tag"], e["gz"]) == (mo["tag"], mo["gz"]))
            if not same:
                drift += 1
                if drift <= 3:
                    ck.note("model drift: %s round %d: model %s real %s" % (json.dumps(c), rr + 1, mo, {k: e[k] for k in ("res", "tag", "gz", "swapped", "calls")}))
    nswap = sum(1 for c in cases if c["swap"] != "none")
    ck.note("lookups: %d found, %d exceptions; swaps performed %d of %d planned; results differing from the Impl prediction: %d" % (
        found, exc, swapped, nswap, drift))
    ck.note("histories: %d lookups with <root>/dir swapped for the outside link (%d of them of names found before the swap and "
            "refused now), %d found again after the swap back; pipes opened by the code under test: %d" % (outlk, outref, backfound, fed))
    if found < 50 or (nswap and swapped < nswap // 2):
        raise vf.Infra("vacuous run: %d found, %d/%d swaps performed" % (found, swapped, nswap))
    if outlk < 20 or backfound < 5 or (outref < 5 and not bad):
        raise vf.Infra("vacuous histories: %d lookups in the swapped tree, %d refused there, %d found after swap back" % (outlk, outref, backfound))
    sw = next(i for i, c in enumerate(cases) if c["swap"] == "leaf" and c["fam"] == "open")
    ck.sample({"kind": "leaf swap before open()", "case": cases[sw], "model": models[sw]["outs"], "events": [json.loads(lines[first_of[sw] + k]) for k in range(cases[sw]["rounds"])]})
    tr = next(i for i, c in enumerate(cases) if "dlink_out" in c["segs"] and "a" in c["segs"])
    ck.sample({"kind": "name through an outside directory link", "case": cases[tr], "event": json.loads(lines[first_of[tr]])})
    hs = next(i for i, c in enumerate(cases) if c["mode"] == "fs_perreq" and c["hist"] == ["dirout", "dirback", "dirout"] and c["segs"] == ["dir", "a"])
    ck.sample({"kind": "history on one Assets object", "case": cases[hs], "model": models[hs]["outs"],
               "events": [{k: v for k, v in json.loads(lines[first_of[hs] + k]).items() if k in ("round", "dir", "res", "tag", "gz", "os_in")} for k in range(cases[hs]["rounds"])]})
    pp = next(i for i, c in enumerate(cases) if c["mode"] == "fs_cached" and c["segs"] == ["link_pipe"])
    ck.sample({"kind": "name of a link to a named pipe inside the root", "case": cases[pp], "event": json.loads(lines[first_of[pp]])})
    # oracle self-test: the secret's tag must be flagged
    badset = set(bad)
    idx = next(i for i, ln in enumerate(lines) if '"res":"found"' in ln and (i + 1) not in badset)
    e = json.loads(lines[idx]); e["tag"] = 99
    # ... and so must the tag of a file that has been moved out of the root by the time of the lookup, and a pipe's tag
    idx2 = next(i for i, ln in enumerate(lines) if '"res":"found"' in ln and '"tag":2,' in ln and '"mode":"fs_perreq"' in ln and '"dir":"in"' in ln and (i + 1) not in badset)
    e2 = json.loads(lines[idx2]); e2["dir"] = "out"
    e3 = json.loads(lines[idx2]); e3["tag"] = 97
    p = os.path.join(ck.work, "selftest.ndjson")
    open(p, "w").write("\n".join([lines[idx], json.dumps(e), lines[idx2], json.dumps(e2), json.dumps(e3)]) + "\n")
    v = vf.validate_trace(os.path.join(SPECDIR, "AssetTrace.tla"), os.path.join(SPECDIR, "AssetTrace.cfg"), p, tag="C20_self")
    if v.error or sorted(int(x) for x in re.findall(r'<<"BAD", (\d+)>>', v.out)) != [2, 4, 5]:
        raise vf.Infra("self-test: AssetTrace accepted a lookup that returns the secret / a moved-out file / a pipe (%s)" % (v.error or v.out[-300:]))
    # verdicts
    groups = defaultdict(list)
    for b in bad:
        c = cases[owner[b - 1]]
        e = json.loads(lines[b - 1])
        groups[(c["mode"], c["swap"], c["fam"], e["tag"], e["gz"], e["dir"], tuple(c["hist"][:e["round"] - 1]) if is_hist(c) else ())].append(b)
    shown = 0
    for k, bs in sorted(groups.items(), key=lambda kv: -len(kv[1])):
        b = bs[0]
        c = cases[owner[b - 1]]
        # re-run the case alone before reporting it
        outp2, lines2, bad2, _ = judge(ck, [c], None, "rerun")
        if not bad2:
            ck.note("rejection not repeated on re-run, not reported: " + json.dumps(c))
            continue
        shown += 1
        if shown > 10:
            break
        rp = ck.save_replay("escape_%d" % shown, {"case.txt": json.dumps(c) + "\n", "events.ndjson": "\n".join(lines2) + "\n",
                                                 "why.txt": "AssetTrace: returned tag %s / gz %s is not that of a regular file inside the root of mode %s "
                                                            "at the time of the lookup (99 = the secret, 98 = outdir/a, 97/94 = the named pipes, -1 = no tag, "
                                                            "e.g. /dev/null); %d lookups in this group\n" % (k[3], k[4], k[0], len(bs))})
        ck.violation("lookup returned bytes that are not those of a regular file inside its root at the time of the lookup: mode %s, "
                     "name %s, swap %s before %s, history before the lookup %s (<root>/dir %s) -> tag %s gz %s (%d lookups)" % (
            c["mode"], "/".join(c["segs"]), c["swap"], c["fam"], list(k[6]), k[5], k[3], k[4], len(bs)), rp)
    ck.assumptions += [
        "the oracle demands containment only (the bytes returned are those of SOME regular file inside the root of the mode, by "
        "the specification's FS0 and by the OS's realpath); which inside file is served is reported as model drift, not judged",
        "an exception escaping getStatic/getTemplate counts as a refusal",
        "only the final component (the resolved file, its .gz sibling, or the link the request ends in) is swapped DURING a "
        "lookup, as the statement says; intermediate-directory swaps during a lookup are the documented residual of assets.hpp; "
        "BETWEEN two lookups of one Assets object the intermediate directory is swapped and every lookup is judged against the "
        "tree it started on (cached bytes of a file that has been moved out of the root count as outside content)",
        "embedded mode: every requested name is registered as an EXTERNAL path so that the guarded EXTERNAL_DIR read is reached"]


def replay(ck, path):
    ck.make("drv_assets")
    c = json.loads(open(os.path.join(path, "case.txt")).read())
    outp, lines, bad, _ = judge(ck, [c], None, "replay")
    print("\n".join(lines))
    if bad:
        ck.violation("replayed lookup returns outside content again", path)
    else:
        ck.note("replayed lookup is accepted by AssetTrace")
