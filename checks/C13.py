"""C13 — JSON texts and values round-trip and agree with RFC 8259.

  1. spec/parsers/JsonGrammar.tla is a generator: TLC enumerates ALL lexeme strings (<= MaxLen lexemes, <= MaxDead lexemes
     after the first syntax error) over several lexeme alphabets (structure, members/duplicate keys, number characters,
     number forms, string pieces, strings in context, white space, literals, and a 14-symbol single-byte alphabet for an
     exact language comparison).  Every state is a case; its text is the byte string of the lexemes and its expected
     verdict / value / measures are computed by spec/parsers/JsonEval.tla, an RFC 8259 evaluator over bytes.
     Set-up cross-check (infrastructure, never a verdict): the (text, verdict, value) set must agree with Python's json.
  2. harness/drv_json.cpp (ASan+UBSan, exact-size heap buffers) runs Json::parse / parseOrThrow on every text under the
     default limits, on valid texts under limits at/around their measures, on seeded byte-level mutations, builds the
     model's values through the C++ API, serialises every value in four variants (compact, pretty, sorted, pretty+sorted
     with a tab) and reads the output back; JsonFileStore set/flush/reopen/get for scalars.
  3. The events are validated by TLC against spec/parsers/JsonTrace.tla (the oracle: verdict, value, error offset inside
     the input, parseOrThrow consistency; serializer output judged by running JsonEval on its bytes).  A sanitizer abort
     or a hang on any input is a violation of the no-undefined-behaviour / termination clause.
  4. Self-tests: coverage of the generator action, every alphabet yields valid and invalid texts, corrupted events must be
     rejected, and the oracle with a Dev_* flag TRUE must reject the observations that are right for the RFC.
"""
import os, re, json, concurrent.futures as cf, threading, shutil
from decimal import Decimal
import vf

SPECDIR = os.path.join(vf.SPEC, "parsers")
DEV0 = {"Dev_UPlaceholder": False, "Dev_CtlAccepted": False, "Dev_VtFfSpace": False}
DEFAULT_LIMITS = (100, 10000, 10000, 1000000)          # depthMax arrayItemsMax membersMax stringLengthMax
TLC_SLOTS = threading.Semaphore(7)                     # concurrent JVMs


def tlc_twice(fn):
    """run a TLC job; if the JVM was killed from outside (rc 137/143: another job's clean-up, the OOM killer) run it once more"""
    r = fn()
    err = getattr(r, "error", None)
    if err and re.search(r"rc=(-9|-15|137|143)\b", err):
        r = fn()
    return r


def jvm(xmx):
    """Feed() recurses once per byte of a serializer output / mutated input: give the evaluator threads a deep stack"""
    return {"JAVA_TOOL_OPTIONS": "-Xss512m -Xmx%s -DTLA-Library=%s -Dtlc2.tool.queue.IStateQueue=StateDeque" % (
        xmx, os.pathsep.join([os.path.join(vf.SPEC, "common"), SPECDIR]))}

STR_PIECES = ["Q", "X", "SL", "DEL", "EQ", "EB", "ES", "Eb", "Ef", "En", "Er", "Et", "uA", "ue9", "uE9", "u20ac", "u0000",
              "u001f", "u007f", "u0080", "u07ff", "u0800", "ud7ff", "ue000", "uffff", "uPair", "uPairLo", "uPairHi", "uHi",
              "uLo", "Re9", "Reur", "Remo", "C00", "C01", "C1F", "HT", "LF", "VT", "SP", "BX", "BA", "BU2", "BUg", "BUU",
              "BS", "BU0", "Iff", "Ic080", "Ie282", "Ieda080", "I80", "D1", "Ee"]
STR_SMALL = ["Q", "X", "EQ", "EB", "En", "uA", "u20ac", "u001f", "uPair", "uHi", "uLo", "Re9", "Remo", "C01", "HT", "BX",
             "BU2", "BS", "Iff", "Ie282", "D1"]
NUM_FORMS = ["n12", "nm12", "n0_5", "n1e2", "n1Em7", "n1_5ep3", "nm0", "nm0_0", "n0e0", "n1e400", "nm1e400", "n1em400",
             "nbig21", "nfrac19", "n2p53p1", "ni64max", "ni64maxp1", "ni64min", "ndblmax", "ndenmin", "ndblmin", "n1e308",
             "n0_3x", "n1_0", "n100", "n1e0007", "n0_1", "nthird", "b01", "b1dot", "bdot5", "b1e", "b1ep", "bp1", "b0x1",
             "b1_e1", "bm01"]
# name, alphabet, (MaxLen, MaxDead) quick, (MaxLen, MaxDead) thorough, must produce "either" cases
CONFIGS = [
    ("struct", ["LB", "RB", "LC", "RC", "CM", "CL", "SK", "D1", "N", "SP"], (6, 2), (7, 2), False),
    ("members", ["LC", "RC", "CM", "SKC", "SXC", "SUKC", "SEC", "D1", "D7", "LB", "RB"], (7, 1), (7, 2), False),   # {"k":1,"k":7} needs 7
    ("numchars", ["MN", "PL", "D0", "D1", "D7", "DOT", "Ee", "EE", "SP", "LB", "RB", "CM"], (5, 1), (6, 1), False),
    ("numforms", NUM_FORMS + ["MN", "SP", "LB", "RB", "CM"], (2, 1), (3, 1), False),
    ("strpieces", STR_PIECES, (3, 1), (4, 1), True),
    ("strpieces4", STR_SMALL, (4, 1), (4, 2), True),
    ("strctx", ["Q", "X", "uA", "En", "C01", "BX", "Re9", "uHi", "LB", "RB", "LC", "RC", "CL", "CM"], (5, 1), (6, 1), True),
    ("space", ["SP", "HT", "LF", "CR", "VT", "FF", "NBSP", "BOM", "LB", "RB", "CM", "D1", "SKC", "LC", "RC"], (4, 1), (5, 1), True),
    ("literals", ["T", "F", "N", "Ltru", "Lnul", "LTrue", "LNaN", "LInf", "Lnulll", "MN", "LB", "RB", "CM", "SP", "Ee"], (4, 1), (5, 1), False),
    # exact language comparison: every string over 14 single bytes, no pruning after an error
    ("bytes14", ["LB", "RB", "LC", "RC", "CM", "CL", "Q", "BS", "D0", "D1", "MN", "DOT", "Ee", "SP"], (4, 4), (5, 5), False),
]
PLAIN = {"LB", "RB", "LC", "RC", "CM", "CL", "SK", "SX", "SKC", "SXC", "D0", "D1", "D7", "N", "T", "F", "SP", "Q", "X", "K"}


# ------------------------------------------------------------------------------------------------ generator
class Case:
    __slots__ = ("lex", "bytes", "cls", "val", "exact", "finite", "m", "nstr", "cfg")

    def model(self):
        vd, cd, am, mm, dm, sh, sl = self.m
        return dict(cls=self.cls, val=self.val, exact=self.exact, finite=self.finite, vdepth=vd, cdepth=cd, amax=am,
                    mmax=mm, dmax=dm, sHi=sh, sLo=sl)


def generate(ck, name, alphabet, maxlen, maxdead):
    d = os.path.join(ck.work, "gen_" + name)
    os.makedirs(d, exist_ok=True)
    out = os.path.join(d, "cases.csv")
    if os.path.exists(out):
        os.remove(out)
    with open(os.path.join(d, "MCJson.tla"), "w") as f:
        f.write("---- MODULE MCJson ----\nEXTENDS JsonGrammar\nMCAlphabet == %s\n====\n" % vf.tla(set(alphabet)))
    consts = dict(DEV0)
    consts.update({"Alphabet": "<- MCAlphabet", "MaxLen": maxlen, "MaxDead": maxdead, "OutFile": '"%s"' % out})
    cfg = os.path.join(d, "MCJson.cfg")
    # ByteLevel (the verdict is a function of the bytes, not of the lexeme grouping) doubles the cost: smallest alphabets only
    invs = ["TypeOK", "MeasuresOK", "VerdictOK"] + (["ByteLevel"] if name in ("literals", "numforms") else []) + ["CaseOut"]
    vf.write_cfg(cfg, constants=consts, invariants=invs)
    with TLC_SLOTS:
        # no -coverage here: TLC's cost-model instrumentation of this specification exhausts the heap before the first
        # state (probed: 4 GB, 90 s).  Coverage is measured from the emitted cases instead (every lexeme of the alphabet
        # must occur in a case, see pipeline()).
        r = tlc_twice(lambda: vf.run_tlc(os.path.join(d, "MCJson.tla"), cfg, tag="C13_gen_" + name, workers=2, coverage=False,
                                         lib_dirs=[SPECDIR], timeout=1500, xmx="4g"))
    if r.error:
        raise vf.Infra("TLC failed on JsonGrammar (%s): %s" % (name, r.error))
    if r.violated:
        raise vf.Infra("JsonGrammar.tla (%s) violates its own invariant %s:\n%s" % (name, r.violated, r.out[-3000:]))
    cases = []
    with open(out) as f:
        for ln in f:
            p = ln.rstrip("\n").split("|")
            if len(p) != 14:
                raise vf.Infra("malformed case line from TLC: " + ln[:200])
            c = Case()
            c.lex = " ".join(re.findall(r'"(\w+)"', p[0]))
            c.bytes = bytes(int(x) for x in re.findall(r"\d+", p[1]))
            c.cls = p[2].strip('"')
            c.val = p[3][1:-1]
            c.exact = p[4] == "TRUE"
            c.finite = p[5] == "TRUE"
            c.m = tuple(int(x) for x in p[6:13])
            c.nstr = int(p[13])
            c.cfg = name
            cases.append(c)
    os.remove(out)
    if len(cases) != r.distinct:
        raise vf.Infra("generator %s: %d case lines for %d states" % (name, len(cases), r.distinct))
    return cases, r


# ------------------------------------------------------------------------------------------------ set-up cross-check
def _bad_const(s):
    raise ValueError("constant " + s)


def py_ref(bs):
    try:
        s = bs.decode("utf-8")
    except UnicodeDecodeError:
        return "nonutf8", None
    try:
        return "yes", json.loads(s, parse_constant=_bad_const)
    except (ValueError, RecursionError):
        return "no", None


def parse_canon(c):
    pos = [0]

    def val():
        ch = c[pos[0]]
        if ch in "ntf":
            pos[0] += 1
            return {"n": None, "t": True, "f": False}[ch]
        if ch == "#":
            m = re.match(r"#(\?|-?inf|-?\d+e-?\d+|0)", c[pos[0]:])
            pos[0] += m.end()
            return ("#", m.group(1))
        if ch == "'":
            e = c.index("'", pos[0] + 1)
            h = c[pos[0] + 1:e]
            pos[0] = e + 1
            return ("s", bytes.fromhex(h))
        if ch == "[":
            pos[0] += 1
            out = []
            if c[pos[0]] == "]":
                pos[0] += 1
                return out
            while True:
                out.append(val())
                if c[pos[0]] == ",":
                    pos[0] += 1
                    continue
                pos[0] += 1
                return out
        if ch == "{":
            pos[0] += 1
            out = {}
            if c[pos[0]] == "}":
                pos[0] += 1
                return out
            while True:
                k = val()
                pos[0] += 1
                out[k[1]] = val()
                if c[pos[0]] == ",":
                    pos[0] += 1
                    continue
                pos[0] += 1
                return out
        raise ValueError(c[pos[0]:])
    v = val()
    if pos[0] != len(c):
        raise ValueError(c)
    return v


def py_num_canon(pv):
    """the canonical number form (JsonEval) of what Python's decoder yields: an int that fits 64 bits keeps its digits,
    anything else is the shortest decimal that identifies the nearest double"""
    if isinstance(pv, int) and -(1 << 63) <= pv < (1 << 63):
        if pv == 0:
            return "0"
        digs = str(abs(pv))
        m = digs.rstrip("0")
        return ("-" if pv < 0 else "") + m + "e" + str(len(digs) - len(m))
    try:
        f = float(pv)
    except OverflowError:
        f = float("inf") if pv > 0 else float("-inf")
    if f != f:
        return "nan"
    if f in (float("inf"), float("-inf")):
        return "inf" if f > 0 else "-inf"
    if f == 0:
        return "0"
    t = Decimal(repr(f)).as_tuple()
    digs = "".join(map(str, t.digits)).lstrip("0")
    m = digs.rstrip("0")
    return ("-" if t.sign else "") + m + "e" + str(t.exponent + len(digs) - len(m))


def same_value(cv, pv):
    if isinstance(cv, tuple) and cv[0] == "#":
        if isinstance(pv, bool) or not isinstance(pv, (int, float)):
            return False
        if cv[1] == "?":
            return True
        return cv[1] == py_num_canon(pv)
    if isinstance(cv, tuple) and cv[0] == "s":
        return isinstance(pv, str) and pv.encode("utf-8", "surrogatepass") == cv[1]
    if isinstance(cv, list):
        return isinstance(pv, list) and len(cv) == len(pv) and all(same_value(a, b) for a, b in zip(cv, pv))
    if isinstance(cv, dict):
        if not isinstance(pv, dict):
            return False
        pk = {k.encode("utf-8", "surrogatepass"): v for k, v in pv.items()}
        return set(pk) == set(cv) and all(same_value(cv[k], pk[k]) for k in cv)
    return cv is pv


def cross_check(name, cases):
    """the SPECIFICATION against an independent decoder; a disagreement is an infrastructure error in the spec"""
    for c in cases:
        rc, rv = py_ref(c.bytes)
        if c.cls == "yes":
            ok = rc == "yes" and same_value(parse_canon(c.val), rv)
        elif c.cls == "no":
            ok = rc in ("no", "nonutf8")
        else:
            ok = True     # "either": no demand is made, so nothing to cross-check
        if not ok:
            raise vf.Infra("JsonEval.tla disagrees with Python's json on %r (%s): spec %s %s, python %s %r" % (
                c.bytes, c.lex, c.cls, c.val, rc, rv))


def batch_eval(ck, inputs):
    """Eval(bytes) of JsonEval for byte strings the generator did not produce -> list of Case"""
    d = os.path.join(ck.work, "batch")
    os.makedirs(d, exist_ok=True)
    inp, out = os.path.join(d, "in.ndjson"), os.path.join(d, "out.csv")
    if os.path.exists(out):
        os.remove(out)
    with open(inp, "w") as f:
        for b in inputs:
            f.write(json.dumps({"b": list(b)}) + "\n")
    cfg = os.path.join(d, "JsonBatch.cfg")
    consts = dict(DEV0)
    consts.update({"InFile": '"%s"' % inp, "OutFile": '"%s"' % out})
    vf.write_cfg(cfg, constants=consts, invariants=["Out"])
    with TLC_SLOTS:
        r = tlc_twice(lambda: vf.run_tlc(os.path.join(SPECDIR, "JsonBatch.tla"), cfg, tag="C13_batch", workers=4, timeout=1500, env=jvm("4g")))
    if r.error or r.violated:
        raise vf.Infra("JsonBatch.tla failed: %s %s" % (r.violated, r.error))
    res = [None] * len(inputs)
    for ln in open(out):
        p = ln.rstrip("\n").split("|")
        c = Case()
        k = int(p[0]) - 1
        c.lex, c.bytes, c.cls, c.val = "(mutation)", inputs[k], p[1].strip('"'), p[2][1:-1]
        c.exact, c.finite = p[3] == "TRUE", p[4] == "TRUE"
        c.m = tuple(int(x) for x in p[5:12])
        c.nstr = int(p[12])
        c.cfg = "mutation"
        res[k] = c
    if any(x is None for x in res):
        raise vf.Infra("JsonBatch.tla evaluated %d of %d inputs" % (sum(x is not None for x in res), len(inputs)))
    ck.states += r.distinct
    ck.transitions += r.generated
    return res


# ------------------------------------------------------------------------------------------------ driver + oracle
def case_line(cid, flags, lim, bs):
    return "P %d %s %d %d %d %d %s" % (cid, flags or "-", lim[0], lim[1], lim[2], lim[3], bs.hex() or "-")


def run_driver(ck, tag, lines):
    cpath = os.path.join(ck.work, tag + ".cases")
    opath = os.path.join(ck.work, tag + ".ndjson")
    with open(cpath, "w") as f:
        f.write("\n".join(lines) + "\n")
    rc, out = vf.run_driver("drv_json.asan", ["run", cpath, opath, 3000, 12], timeout=1500,
                            env={"ASAN_OPTIONS": "detect_leaks=0:abort_on_error=0", "UBSAN_OPTIONS": "print_stacktrace=1"})
    if rc != 0 or not re.search(r"cases=\d+ crashed=\d+ hung=\d+", out):
        raise vf.Infra("drv_json failed: " + out[-2000:])
    return opath


def merge_and_validate(ck, tag, opath, lines, meta, chunk=30000, cap=40, consts=None):
    """attach the model's fields to the driver's events (by id), validate with TLC in chunks.
    returns (list of (event, why), n_events, crashes) ; crashes = list of (case line, kind)"""
    chunks, cur, crashes, n = [], [], [], 0
    with open(opath) as f:
        for ln in f:
            e = json.loads(ln)
            if e["e"] in ("Crashed", "Hung"):
                crashes.append((lines[e["k"]], e["e"]))
                continue
            if e["e"] == "Parse":
                m = meta.get(e["id"])
                if m is not None:
                    e.update(m)
            cur.append(e)
            n += 1
            if len(cur) >= chunk:
                chunks.append(cur)
                cur = []
    if cur:
        chunks.append(cur)
    os.remove(opath)
    shutil.rmtree(opath + ".d", ignore_errors=True)
    cfg = os.path.join(ck.work, "JsonTrace_%s.cfg" % tag)
    cc = dict(DEV0)
    cc.update(consts or {})
    cc["Cap"] = cap
    vf.write_cfg(cfg, constants=cc, invariants=["BadOut", "TraceChk"], postcondition="Post")

    def one(job):
        i, evs = job
        bad = []
        start = 0
        for rnd in range(4):            # after a blocking event continue behind it (bounded)
            if start >= len(evs):
                break
            tp = os.path.join(ck.work, "%s_%d_%d.trace" % (tag, i, rnd))
            with open(tp, "w") as f:
                for e in evs[start:]:
                    f.write(json.dumps(e) + "\n")
            with TLC_SLOTS:
                v = tlc_twice(lambda: vf.validate_trace(os.path.join(SPECDIR, "JsonTrace.tla"), cfg, tp, tag="C13_val_%s_%d" % (tag, i),
                                                        xmx="3g", timeout=1500, env=jvm("3g")))
            if v.error:
                errs = [x for x in v.out.splitlines() if x.startswith("Error") or "evaluat" in x or "Attempted" in x]
                raise vf.Infra("trace validation error (%s, trace kept: %s): %s\n%s" % (tag, tp, "\n".join(errs[:12]), v.error[-600:]))
            os.remove(tp)
            for m in re.finditer(r'<<(\d+), \\"([^"\\]+)\\">>', "\n".join(x for x in v.out.splitlines() if "BADLINES" in x)):
                pair = (evs[start + int(m.group(1)) - 1], m.group(2))
                if pair not in bad:
                    bad.append(pair)
            if v.accepted:
                break
            blocked = evs[start + v.maxl - 1]
            bad.append((blocked, "more than %d events break a clause in one chunk (first of the rest)" % cap))
            start = start + v.maxl
        return bad, len(evs)
    bad = []
    with cf.ThreadPoolExecutor(max_workers=8) as ex:
        for b, k in ex.map(one, list(enumerate(chunks))):
            bad += b
    return bad, n, crashes


def interesting(c):
    return c.cls != "yes" or any(x not in PLAIN for x in c.lex.split()) or c.m[1] >= 2 or c.m[4] < c.m[3]


def report(ck, tag, bad, crashes, meta_text):
    """collect; final_report() groups by the clause that failed and reports each group once"""
    acc = ck.__dict__.setdefault("_c13", {"bad": [], "crash": []})
    for e, why in bad:
        acc["bad"].append((tag, meta_text(e), e, why))
    for line, kind in crashes:
        acc["crash"].append((tag, line, kind))


def final_report(ck):
    acc = ck.__dict__.get("_c13", {"bad": [], "crash": []})
    groups = {}
    for tag, text, e, why in acc["bad"]:
        groups.setdefault(why, []).append((tag, text, e))
    for why, items in sorted(groups.items()):
        if why.startswith("more than") and len(groups) > 1:
            ck.note("%s: %d" % (why, len(items)))      # the recorded events of the same chunks are reported below/above
            continue
        tags = sorted({t for t, _, _ in items})
        name = re.sub(r"\W+", "_", why)[:70]
        rp = ck.save_replay(name, {"events.json": [e for _, _, e in items[:300]],
                                   "why.txt": "%s (%d events; stages: %s)\n" % (why, len(items), ", ".join(tags)),
                                   "cases.txt": "\n".join(t for _, t, _ in items[:300]) + "\n"})
        ck.classify({"spec": "JsonTrace", "clause": why},
                    "%s — %d event(s) in %s, e.g. %s" % (why, len(items), ", ".join(tags), "; ".join(t for _, t, _ in items[:3])), rp)
    crashes = acc["crash"]
    if crashes:
        # re-run the first few alone to confirm and to capture the sanitizer report
        confirmed = []
        for tag, line, kind in crashes[:5]:
            cp = os.path.join(ck.work, "crash1.cases")
            op = os.path.join(ck.work, "crash1.ndjson")
            w = line.split("|")[0].split()
            w[1] = "0"
            open(cp, "w").write(" ".join(w) + "\n")
            vf.run_driver("drv_json.asan", ["run", cp, op, 1, 1], timeout=120, env={"ASAN_OPTIONS": "detect_leaks=0"})
            again = any(json.loads(x)["e"] in ("Crashed", "Hung") for x in open(op))
            err = ""
            ep = op + ".d/w0.err"
            if os.path.exists(ep):
                err = open(ep, errors="replace").read()[:6000]
            if again:
                confirmed.append((line, kind, err))
        if not confirmed:
            raise vf.Infra("%d crash(es)/hang(s) of the driver did not repeat when re-run alone: %s" % (len(crashes), crashes[0][1]))
        line, kind, err = confirmed[0]
        m = re.search(r"SUMMARY: (.*)", err)
        rp = ck.save_replay("sanitizer_or_hang", {"cases.txt": "\n".join(l for _, l, _ in crashes[:300]) + "\n", "sanitizer.txt": err})
        ck.classify({"spec": "JsonTrace", "clause": "undefined behaviour" if kind == "Crashed" else "termination"},
                    "%s on %d input(s) in %s, e.g. input hex %s: %s" % (
                        "sanitizer abort / crash" if kind == "Crashed" else "parser does not return", len(crashes),
                        ", ".join(sorted({t for t, _, _ in crashes})), line.split("|")[0].split()[-1],
                        m.group(1) if m else "see sanitizer.txt"), rp)


def mutate(rng, bs):
    pool = b'[]{},:"\\0123456789-+.eEtfnu \t\n\x00\x01\x1f\x7f\x80\xc3\xff'
    b = bytearray(bs)
    for _ in range(rng.choice((1, 1, 2))):
        op = rng.randrange(6)
        i = rng.randrange(len(b) + 1)
        if op == 0 and b:
            del b[min(i, len(b) - 1)]
        elif op == 1:
            b.insert(i, rng.choice(pool))
        elif op == 2 and b:
            b[min(i, len(b) - 1)] = rng.choice(pool)
        elif op == 3 and b:
            j = min(i, len(b) - 1)
            b.insert(j, b[j])
        elif op == 4:
            b = b[:i]
        elif op == 5 and len(b) >= 2:
            j = min(i, len(b) - 2)
            b[j], b[j + 1] = b[j + 1], b[j]
    return bytes(b)


BUILDABLE_NUM = re.compile(r"#(0|-?\d{1,15}e-?\d{1,3})(?![\de])")


def buildable(val):
    """values the harness can construct exactly through the C++ API from the canonical form"""
    nums = re.findall(r"#[^,\]\}:]*", val)
    return all(BUILDABLE_NUM.fullmatch(x) for x in nums)


# ------------------------------------------------------------------------------------------------ the check
def run(ck):
    thorough = ck.tier == "thorough"
    ck.make("drv_json.asan")
    ck.rule = ("cases = ALL states of JsonGrammar.tla per lexeme alphabet (every lexeme string up to MaxLen, at most MaxDead "
               "lexemes after the first syntax error); expected verdict/value by JsonEval.tla (RFC 8259 over bytes). Plus "
               "limit settings at/around each valid text's measures, seeded byte mutations judged by Eval(bytes), values "
               "built through the API, four serialisations of every value judged by Eval(output bytes). A case is "
               "non-trivial when its text is invalid, unspecified, or contains a lexeme beyond plain structure / digits "
               "(escape, number form, white space variant, raw non-ASCII or control byte), nesting >= 2 or a duplicate key")
    valid_pool = []
    stats = {"cases": 0, "yes": 0, "no": 0, "either": 0}
    nontrivial = set()
    allbad = []
    lock = threading.Lock()

    def pipeline(conf):
        name, alphabet, q, t, want_either = conf
        maxlen, maxdead = t if thorough else q
        cases, r = generate(ck, name, alphabet, maxlen, maxdead)
        ncls = {"yes": 0, "no": 0, "either": 0}
        for c in cases:
            ncls[c.cls] += 1
        if ncls["yes"] == 0 or ncls["no"] == 0 or (want_either and ncls["either"] == 0):
            raise vf.Infra("generator %s is vacuous: %s" % (name, ncls))
        used = set()
        for c in cases:
            used.update(c.lex.split())
        if used != set(alphabet) or r.distinct < 2:
            raise vf.Infra("self-test: Emit never taken for lexemes %s in %s" % (sorted(set(alphabet) - used), name))
        cross_check(name, cases)
        lines, meta = [], {}
        for i, c in enumerate(cases):
            lines.append(case_line(i, "d" if c.cls != "no" else "", DEFAULT_LIMITS, c.bytes))
            meta[i] = c.model()
        opath = run_driver(ck, "gen_" + name, lines)
        bad, n, crashes = merge_and_validate(ck, "gen_" + name, opath, lines, meta)
        with lock:
            ck.states += r.distinct
            ck.transitions += r.generated
            ck.cov["Emit[%s]" % name] = r.generated - 1
            ck.evaluations += n
            ck.traces += len(cases)
            for k in ncls:
                stats[k] += ncls[k]
            stats["cases"] += len(cases)
            for c in cases:
                if interesting(c):
                    nontrivial.add(c.bytes)
            valid_pool.extend(c for c in cases if c.cls == "yes")
            ck.note("alphabet %s (%d lexemes, MaxLen %d, MaxDead %d): %d texts %s, %d events, %d rejected, %d crashed/hung; TLC %.0fs" % (
                name, len(alphabet), maxlen, maxdead, len(cases), ncls, n, len(bad), len(crashes), r.wall))
            if cases:
                ex = [c for c in cases if c.cls == "yes" and interesting(c)][:1] + [c for c in cases if c.cls == "no" and len(c.bytes) > 3][:1]
                for c in ex:
                    ck.sample({"alphabet": name, "lexemes": c.lex, "text_hex": c.bytes.hex(), "expected": c.cls, "value": c.val})
        lex_of = {i: c for i, c in enumerate(cases)}
        return name, bad, crashes, lines, lex_of

    with cf.ThreadPoolExecutor(max_workers=5) as ex:
        results = list(ex.map(pipeline, CONFIGS))
    for name, bad, crashes, lines, lex_of in results:
        def mt(e, lex_of=lex_of, lines=lines):
            c = lex_of.get(e.get("id"))
            return "%s | %s" % (lines[e["id"]], c.lex) if c is not None and e.get("id") is not None else json.dumps(e)[:200]
        report(ck, "gen_" + name, bad, crashes, mt)
        allbad += bad
    ck.exhaustive = True
    ck.assumptions.append("bounds: lexeme strings up to MaxLen per alphabet (quick 2-6, thorough 3-7 lexemes); numeric accuracy is decided "
                          "for decimal forms of <= 15 significant digits, 64-bit integer literals and the LongForms table only")

    # ---------------------------------------------------------------- derived cases: limits, mutations, API-built values, store
    rng = ck.rng
    # de-duplicate the valid texts, keep the shortest-first order stable
    seen, pool = set(), []
    for c in sorted(valid_pool, key=lambda c: (len(c.bytes), c.bytes)):
        if c.bytes not in seen:
            seen.add(c.bytes)
            pool.append(c)
    lines, meta, kinds = [], {}, {}
    def add(flags, lim, bs, m, kind):
        i = len(lines)
        lines.append(case_line(i, flags, lim, bs))
        if m is not None:
            meta[i] = m
        kinds[i] = kind
    # (a) limits at limit-1 / limit / limit+1 of every measure of the text
    lim_src = [c for c in pool if c.m[1] >= 1 or c.nstr >= 1]
    if not thorough and len(lim_src) > 2500:
        lim_src = rng.sample(lim_src, 2500)
    nlim = 0
    for c in lim_src:
        vd, cd, am, mm, dm, sh, sl = c.m
        D = DEFAULT_LIMITS
        variants = set()
        for x in {vd - 1, vd, cd, cd + 1}:
            if x >= 0:
                variants.add((x, D[1], D[2], D[3]))
        if am >= 1:
            for x in (am - 1, am, am + 1):
                variants.add((D[0], x, D[2], D[3]))
        if mm >= 1:
            for x in {dm - 1, dm, mm, mm + 1}:
                variants.add((D[0], D[1], x, D[3]))
        if c.nstr >= 1:
            for x in {sl - 1, sl, sh, sh + 1}:
                if x >= 0:
                    variants.add((D[0], D[1], D[2], x))
        for lim in sorted(variants):
            add("", lim, c.bytes, c.model(), "limit")
            nlim += 1
    # (b) seeded byte-level mutations, judged by Eval(bytes)
    nmut = 40000 if thorough else 6000
    muts = set()
    src = [c for c in pool if 2 <= len(c.bytes) <= 40]
    if not src:
        raise vf.Infra("no valid texts to mutate")
    while len(muts) < nmut:
        m = mutate(rng, rng.choice(src).bytes)
        if len(m) <= 48:
            muts.add(m)
    mcases = batch_eval(ck, sorted(muts))
    cross_check("mutations", mcases)
    mcls = {"yes": 0, "no": 0, "either": 0}
    for c in mcases:
        add("d", DEFAULT_LIMITS, c.bytes, c.model(), "mutation")
        nontrivial.add(c.bytes)
        mcls[c.cls] += 1
    if mcls["yes"] == 0 or mcls["no"] == 0:
        raise vf.Infra("mutations are vacuous: %s" % mcls)
    # (c) values built through the API
    vals = sorted({c.val for c in pool if c.exact and c.finite and buildable(c.val)}, key=lambda v: (len(v), v))
    if not thorough and len(vals) > 3000:
        vals = rng.sample(vals, 3000)
    if len(vals) < 50:
        raise vf.Infra("too few buildable values: %d" % len(vals))
    first_build = len(lines)
    for v in vals:
        lines.append("B %d %s" % (len(lines), v))
        kinds[len(lines) - 1] = "build"
    opath = run_driver(ck, "derived", lines)
    bad, n, crashes = merge_and_validate(ck, "derived", opath, lines, meta)
    ck.evaluations += n
    ck.traces += len(lines)
    ck.note("derived: %d limit settings on %d valid texts, %d mutated inputs %s, %d values built through the API: %d events, %d rejected, %d crashed/hung" % (
        nlim, len(lim_src), len(muts), mcls, len(vals), n, len(bad), len(crashes)))
    report(ck, "derived", bad, crashes, lambda e: lines[e["id"]] if e.get("id") is not None and e["id"] < len(lines) else json.dumps(e)[:200])
    allbad += bad
    ck.sample({"kind": "limit case", "line": lines[0], "model": meta.get(0)})
    ck.sample({"kind": "mutated input", "line": lines[nlim] if nlim < len(lines) else ""})
    # (d) JsonFileStore
    svals = [v for v in vals if v[0] in "#'"]
    svals = svals[:400 if thorough else 60]
    spath = os.path.join(ck.work, "store.cases")
    open(spath, "w").write("\n".join("B %d %s" % (i, v) for i, v in enumerate(svals)) + "\n")
    sout = os.path.join(ck.work, "store.ndjson")
    rc, out = vf.run_driver("drv_json.asan", ["store", spath, sout, os.path.join(ck.work, "storedir")], timeout=600,
                            env={"ASAN_OPTIONS": "detect_leaks=0"})
    if rc != 0 or not os.path.exists(sout):
        rp = ck.save_replay("store_crash", {"cases.txt": spath, "out.txt": out[-8000:]})
        ck.violation("JsonFileStore round trip crashed (rc=%d): %s" % (rc, out[-300:]), rp)
    else:
        slines = open(spath).read().splitlines()
        bad, n, _ = merge_and_validate(ck, "store", sout, slines, {})
        if n != len(svals):
            raise vf.Infra("store mode produced %d events for %d values" % (n, len(svals)))
        ck.evaluations += n
        ck.note("JsonFileStore: %d scalar values set/flush/reopen/get, %d rejected" % (n, len(bad)))
        report(ck, "store", bad, [], lambda e: slines[e["id"]])
        allbad += bad
    ck.nontrivial = len(nontrivial)
    ck.note("total: %d generated texts (%d valid, %d invalid, %d unspecified), %d distinct non-trivial inputs" % (
        stats["cases"], stats["yes"], stats["no"], stats["either"], len(nontrivial)))
    final_report(ck)
    selftest(ck, pool)


def selftest(ck, pool):
    """the oracle must reject corrupted observations, and the oracle of the unrepaired design (Dev_* = TRUE) must reject the
    observations that are right for RFC 8259 — both independent of the code under test (observations are synthesised from
    the model)"""
    def obs(c, lim=DEFAULT_LIMITS, **over):
        ok = c.cls == "yes"
        e = dict(e="Parse", id=0, n=len(c.bytes), ld=lim[0], la=lim[1], lm=lim[2], ls=lim[3], ok=ok, oval=c.val if ok else "",
                 off=0 if ok else len(c.bytes), thr=not ok, tsame=ok)
        e.update(over)
        return e
    yes = [c for c in pool if c.exact][:40]
    good, corrupt = [], []
    for c in yes[:10]:
        e = obs(c); e.update(c.model()); good.append(e)
    for c in yes[:8]:
        e = obs(c, ok=False, thr=True, tsame=False, oval="", off=0); e.update(c.model()); corrupt.append(e)        # valid rejected
        e = obs(c, oval=c.val + "x"); e.update(c.model()); corrupt.append(e)                                         # wrong value
        e = obs(c, thr=True); e.update(c.model()); corrupt.append(e)                                                 # throw mismatch
        e = obs(c); e["bytes"] = list(c.bytes + b"]"); corrupt.append(e)                                             # invalid accepted (by Eval)
        e = obs(c, ok=False, thr=True, tsame=False, oval="", off=len(c.bytes) + 1); e["bytes"] = list(c.bytes + b"\x01")
        corrupt.append(e)                                                                                            # offset outside
        corrupt.append(dict(e="Dump", id=0, opt="c", of=c.val, fin=True, u8=True, bytes=list(c.bytes + b","), rok=True, rval=c.val))
        corrupt.append(dict(e="Dump", id=0, opt="c", of=c.val, fin=True, u8=True, bytes=list(c.bytes), rok=True, rval=c.val + "0"))
        good.append(dict(e="Dump", id=0, opt="c", of=c.val, fin=True, u8=True, bytes=list(c.bytes), rok=True, rval=c.val))
    def val(name, evs, consts=None, cap=1000):
        tp = os.path.join(ck.work, name + ".trace")
        with open(tp, "w") as f:
            for e in evs:
                f.write(json.dumps(e) + "\n")
        cfg = os.path.join(ck.work, name + ".cfg")
        cc = dict(DEV0); cc.update(consts or {}); cc["Cap"] = cap
        vf.write_cfg(cfg, constants=cc, invariants=["BadOut", "TraceChk"], postcondition="Post")
        with TLC_SLOTS:
            v = vf.validate_trace(os.path.join(SPECDIR, "JsonTrace.tla"), cfg, tp, tag="C13_self_" + name, xmx="2g", env=jvm("2g"))
        if v.error:
            raise vf.Infra("self-test validation error: " + v.error)
        nbad = len(set(re.findall(r'<<(\d+), \\"', "\n".join(x for x in v.out.splitlines() if "BADLINES" in x))))
        return v.accepted, nbad
    acc, nbad = val("self_good", good)
    if not acc or nbad:
        raise vf.Infra("self-test: synthesised correct observations are not accepted (%s, %d bad)" % (acc, nbad))
    acc, nbad = val("self_corrupt", corrupt)
    if nbad != len(corrupt):
        raise vf.Infra("self-test: %d of %d corrupted events were NOT rejected by JsonTrace.tla" % (len(corrupt) - nbad, len(corrupt)))
    # deviation flags: inputs whose RFC-correct observation the unrepaired design contradicts
    import binascii
    probes = {"Dev_UPlaceholder": (b'"\\u0041"', True, "'41'"), "Dev_CtlAccepted": (b'"\x01"', False, ""), "Dev_VtFfSpace": (b"1\x0b", False, "")}
    for flag, (bs, ok, oval) in probes.items():
        e = dict(e="Parse", id=0, n=len(bs), ld=100, la=10000, lm=10000, ls=1000000, ok=ok, oval=oval, off=0 if ok else 1,
                 thr=not ok, tsame=ok, bytes=list(bs))
        acc0, nbad0 = val("self_dev0_" + flag, [e])
        acc1, nbad1 = val("self_dev1_" + flag, [e], consts={flag: True})
        if not acc0 or nbad0 or nbad1 != 1:
            raise vf.Infra("self-test: oracle with %s=TRUE does not tell the deviation (strict: accepted=%s bad=%d; deviant: bad=%d)" % (
                flag, acc0, nbad0, nbad1))
    ck.note("self-tests: %d corrupted events rejected, %d correct ones accepted, 3 deviation flags distinguished" % (len(corrupt), len(good)))


def replay(ck, path):
    """re-run the saved case lines against the current tree and judge them again (Eval(bytes) is the oracle)"""
    ck.make("drv_json.asan")
    lines = []
    for ln in open(os.path.join(path, "cases.txt")):
        ln = ln.split("|")[0].strip()
        if not ln:
            continue
        w = ln.split()
        if w[0] == "P":
            w[2] = "bd"
        w[1] = str(len(lines))
        lines.append(" ".join(w))
    opath = run_driver(ck, "replay", lines)
    print(open(opath).read()[:4000])
    bad, n, crashes = merge_and_validate(ck, "replay", opath, lines, {})
    ck.evaluations += n
    report(ck, "replay", bad, crashes, lambda e: lines[e["id"]] if e.get("id") is not None else json.dumps(e)[:200])
    final_report(ck)
