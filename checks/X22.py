"""X22 (extra, beyond the listed properties; not registered in MANIFEST.json) — iora::ServiceRegistry
(include/iora/core/service_registry.hpp): get<T>() returns the implementation registered at that instant or nothing (never a
removed one), set never replaces and at most one of two racing registrations succeeds, validation changes nothing,
unregister tells the truth, unregisterModule removes all and only the module's entries in one step, and the implementation
lives exactly as long as the registry entry or any handle does (destroyed exactly once, never early, never leaked).

  1. spec/extra/ServiceRegistry.tla (Impl, one action per critical section; 2 threads x 2 handles, 2 interfaces, modules
     m1 m2 + core) is model-checked exhaustively; every Dev_* flag must make TLC report a violation (self-test) and its
     counterexample becomes a directed probe.
  2. The state graph (MaxOps = 4) is dumped; behaviours sampled from it (transition cover sample + random walks) are
     replayed on the real registry at critical-section grain under the deterministic scheduler (plan entries t*rwunlock),
     the same thread programs and concatenations of two of them also run under seeded random schedules, and a
     preemption-bounded DFS explores fixed programs.
  3. Every recorded execution is judged by spec/extra/RegistryTrace.tla (Abs: interface -> implementation map, handle
     counts, destroyed set; linearization search).
Observation (reported as a note, the check stays green): the implementation's destructor runs under the registry write lock
when unregister<T>() / unregisterModule() drop the last reference, although the header says no user callback is invoked
while that mutex is held (named deviation Obs_DtorUnderLock, accepted by the oracle); a destructor that touches the
registry then terminates the process (probe)."""
import os, json
import vf
from checks import xcore_common as xc

SPECDIR = xc.SPECDIR
TRACE = os.path.join(SPECDIR, "RegistryTrace.tla")
TRACE_CFG = os.path.join(SPECDIR, "RegistryTrace.cfg")
ACTIONS = ["SetCS", "SetNull", "SetEmpty", "GetCS", "Drop", "UnregCS", "UnmodCS"]
DEVS = {"Dev_SetReplaces": "NoReplace", "Dev_CheckThenInsert": "SetOkRegistered", "Dev_ModuleFirstOnly": "ModuleExact",
        "Dev_ModuleAlsoCore": "ModuleExact", "Dev_WeakEntry": "Live", "Dev_NoEmptyCheck": "NoOrphan",
        "Dev_UnregAlwaysTrue": "UnregTruth"}
INVS = ["GetAgrees", "NoReplace", "SetOkRegistered", "NoOrphan", "Validation", "UnregTruth", "ModuleExact",
        "OneEntryPerImpl", "Live", "NoLeak"]
MODCODE = {"m1": 1, "m2": 2, "m3": 3, "core": 9, "": 0}
DRV = "drv_s_registry"


def consts(max_ops, devs=(), handles=(1, 2), max_objs=3):
    c = {"Procs": {"a", "b"}, "Types": {1, 2}, "Mods": {"m1", "m2"}, "Handles": set(handles), "MaxObjs": max_objs,
         "MaxOps": max_ops, "Obs_DtorUnderLock": True}
    for d in DEVS:
        c[d] = d in devs
    return c


def to_case(labels, probe=False, hshift=0):
    """(action, args) list of a ServiceRegistry.tla behaviour -> (thread programs, critical-section-grain replay plan, [(t, op)])"""
    prog = {"a": [], "b": []}
    plan = ["main*"]
    order = []
    cs = (lambda t: [t + "*rwunlock", t]) if probe else (lambda t: [t + "*rwunlock", t + "*point:call"])
    free = lambda t: [t + "*point:call", t, t + "*point:call"]
    H = lambda h: 0 if int(h) == 0 else int(h) + hshift
    for act, a in labels:
        t = a[0]
        if act == "SetCS":
            prog[t].append("set:%d:%d:%d" % (a[1], MODCODE[a[2]], H(a[3]))); plan += cs(t); order.append((t, "set"))
        elif act == "SetInsert":
            plan += [t + "*point:call"]   # exists only in the deviating design: on the real code the set is already complete
        elif act == "SetNull":
            prog[t].append("setnull:%d" % a[1]); plan += free(t); order.append((t, "setnull"))
        elif act == "SetEmpty":
            prog[t].append("set:%d:0:0" % a[1]); plan += free(t); order.append((t, "set"))
        elif act == "GetCS":
            prog[t].append("get:%d:%d" % (a[1], H(a[2]))); plan += cs(t); order.append((t, "get"))
        elif act == "Drop":
            prog[t].append("drop:%d" % H(a[1])); plan += free(t); order.append((t, "drop"))
        elif act == "UnregCS":
            prog[t].append("unreg:%d" % a[1]); plan += cs(t); order.append((t, "unreg"))
        elif act == "UnmodCS":
            prog[t].append("unmod:%d" % MODCODE[a[1]]); plan += cs(t); order.append((t, "unmod"))
        else:
            raise vf.Infra("unknown action label " + act)
    return prog, plan, order


def prog_text(prog):
    return ";".join("%s=%s" % (t, ",".join(o)) for t, o in prog.items() if o)


def concat(p1, p2):
    """two behaviours' programs one after the other (second one on the third interface / handle 3 where it can)"""
    return {t: p1.get(t, []) + p2.get(t, []) for t in ("a", "b")}


SELFTESTS = {
    "get returns an unregistered implementation": [
        {"e": "Call", "t": "a", "op": "set", "ty": 1, "m": "m1", "o": 1, "keep": 0}, {"e": "Ret", "t": "a", "op": "set", "r": "ok"},
        {"e": "Call", "t": "a", "op": "unreg", "ty": 1}, {"e": "Dtor", "o": 1, "t": "a", "lk": 1}, {"e": "Ret", "t": "a", "op": "unreg", "r": "true"},
        {"e": "Call", "t": "b", "op": "get", "ty": 1}, {"e": "Ret", "t": "b", "op": "get", "o": 1},
        {"e": "End", "outcome": "done"}],
    "duplicate set reports success": [
        {"e": "Call", "t": "a", "op": "set", "ty": 1, "m": "m1", "o": 1, "keep": 0}, {"e": "Ret", "t": "a", "op": "set", "r": "ok"},
        {"e": "Call", "t": "b", "op": "set", "ty": 1, "m": "m2", "o": 2, "keep": 1}, {"e": "Ret", "t": "b", "op": "set", "r": "ok"}],
    "implementation destroyed while registered": [
        {"e": "Call", "t": "a", "op": "set", "ty": 1, "m": "m1", "o": 1, "keep": 0}, {"e": "Dtor", "o": 1, "t": "a", "lk": 0},
        {"e": "Ret", "t": "a", "op": "set", "r": "ok"}],
    "implementation destroyed while a handle exists": [
        {"e": "Call", "t": "a", "op": "set", "ty": 1, "m": "m1", "o": 1, "keep": 0}, {"e": "Ret", "t": "a", "op": "set", "r": "ok"},
        {"e": "Call", "t": "b", "op": "get", "ty": 1}, {"e": "Ret", "t": "b", "op": "get", "o": 1},
        {"e": "Call", "t": "a", "op": "unreg", "ty": 1}, {"e": "Dtor", "o": 1, "t": "a", "lk": 1}, {"e": "Ret", "t": "a", "op": "unreg", "r": "true"}],
    "leaked implementation": [
        {"e": "Call", "t": "a", "op": "set", "ty": 1, "m": "m1", "o": 1, "keep": 0}, {"e": "Ret", "t": "a", "op": "set", "r": "ok"},
        {"e": "Call", "t": "a", "op": "unreg", "ty": 1}, {"e": "Ret", "t": "a", "op": "unreg", "r": "true"},
        {"e": "End", "outcome": "done"}],
    "unregisterModule leaves an entry of the module": [
        {"e": "Call", "t": "a", "op": "set", "ty": 1, "m": "m1", "o": 1, "keep": 0}, {"e": "Ret", "t": "a", "op": "set", "r": "ok"},
        {"e": "Call", "t": "a", "op": "set", "ty": 2, "m": "m1", "o": 2, "keep": 0}, {"e": "Ret", "t": "a", "op": "set", "r": "ok"},
        {"e": "Call", "t": "a", "op": "unmod", "m": "m1"}, {"e": "Dtor", "o": 1, "t": "a", "lk": 1}, {"e": "Ret", "t": "a", "op": "unmod"},
        {"e": "Call", "t": "b", "op": "get", "ty": 2}, {"e": "Ret", "t": "b", "op": "get", "o": 2}],
    "unregisterModule removes a core entry": [
        {"e": "Call", "t": "a", "op": "set", "ty": 1, "m": "core", "o": 1, "keep": 0}, {"e": "Ret", "t": "a", "op": "set", "r": "ok"},
        {"e": "Call", "t": "a", "op": "unmod", "m": "m1"}, {"e": "Dtor", "o": 1, "t": "a", "lk": 1}, {"e": "Ret", "t": "a", "op": "unmod"}],
    "empty moduleId accepted": [
        {"e": "Call", "t": "a", "op": "set", "ty": 1, "m": "", "o": 1, "keep": 0}, {"e": "Ret", "t": "a", "op": "set", "r": "ok"}],
}


def run(ck):
    thorough = ck.tier == "thorough"
    ck.make(DRV)
    ck.rule = ("ServiceRegistry: behaviours of the TLC state graph of ServiceRegistry.tla replayed at critical-section grain on the "
               "real registry + the same programs (and concatenations) under random schedules + preemption-bounded DFS; "
               "non-trivial = distinct event sequences with two threads inside the registry at once")
    # ---------------------------------------------------------------- 1. model checking + self-tests
    jobs = {}
    t, c = xc.write_mc(ck, "MCReg", "ServiceRegistry", consts(6 if thorough else 5), INVS)
    jobs["mc"] = dict(module_path=t, cfg_path=c, workers=4, coverage=True, timeout=1500)
    dot = os.path.join(ck.work, "g.dot")
    t, c = xc.write_mc(ck, "GenReg", "ServiceRegistry", consts(4, handles=(1,)), INVS)
    jobs["gen"] = dict(module_path=t, cfg_path=c, workers=2, dump_dot=dot)
    for d in DEVS:
        t, c = xc.write_mc(ck, "MC_" + d, "ServiceRegistry", consts(4, devs=[d]), INVS)
        jobs[d] = dict(module_path=t, cfg_path=c, workers=1, dump_trace=os.path.join(ck.work, d + ".json"))
    t, c = xc.write_mc(ck, "MC_Obs", "ServiceRegistry", consts(4), ["NoUserCodeUnderLock"])
    jobs["obs"] = dict(module_path=t, cfg_path=c, workers=1, dump_trace=os.path.join(ck.work, "obs.json"))
    res = xc.tlc_many(jobs, max_parallel=4)
    for k in ("mc", "gen"):
        r = res[k]
        if r.error:
            raise vf.Infra("TLC %s: %s" % (k, r.error))
        xc.account(ck, r, "" if k == "mc" else k + ".")
        ck.note("ServiceRegistry.tla %s: %s" % (k, r.summary()))
        if r.violated:
            ck.violation("ServiceRegistry.tla (%s) violates %s" % (k, r.violated), ck.save_replay("impl_" + k, {"tlc.out": r.out[-20000:]}))
            return
    xc.require_actions(ck, res["mc"], ACTIONS, "ServiceRegistry.tla")
    ck.exhaustive = True
    probes = []
    for d, inv in DEVS.items():
        r = res[d]
        if r.violated != inv:
            raise vf.Infra("self-test: ServiceRegistry.tla with %s should violate %s, got %r %s" % (d, inv, r.violated, (r.error or "")[-500:]))
        probes.append((d, xc.cex_labels(r)))
    r = res["obs"]
    if r.violated != "NoUserCodeUnderLock":
        raise vf.Infra("self-test: NoUserCodeUnderLock should fail in the model of the code as it is (Obs_DtorUnderLock), got %r" % r.violated)
    probes.append(("Obs_DtorUnderLock", xc.cex_labels(r)))
    ck.note("self-test: %d deviation flags each violate their invariant; NoUserCodeUnderLock fails with Obs_DtorUnderLock" % len(DEVS))
    # ---------------------------------------------------------------- 2. behaviours -> the real registry
    g = vf.Graph.load(dot)
    os.remove(dot)
    npaths = 1500 if thorough else 320
    paths, covered, total = g.transition_cover(ck.rng, maxlen=40, limit=npaths)
    walks = g.random_walks(ck.rng, 600 if thorough else 120, maxlen=40)
    ck.note("state graph: %d nodes, %d edges; %d cover behaviours (%d edges) + %d random walks" % (len(g.nodes), total, len(paths), covered, len(walks)))
    lines, kinds, orders = [], [], []

    def add(line, kind, order=None):
        lines.append(line); kinds.append(kind); orders.append(order)
    for name, labs in probes:
        prog, plan, order = to_case(labs, probe=True)
        add(" | %s | replay %s" % (prog_text(prog), " ".join(plan)), "probe:" + name)
    prev = None
    for i, p in enumerate(paths + walks):
        labs = xc.graph_labels(p)
        prog, plan, order = to_case(labs)
        if not any(prog.values()):
            continue
        add(" | %s | replay %s" % (prog_text(prog), " ".join(plan)), "replay", order)
        if i % 2 == 0:
            add(" | %s | random %d" % (prog_text(prog), ck.seed * 31 + i), "random")
        if prev is not None and i % 2 == 1:   # two behaviours one after the other (the second with other handles), random schedule
            prog2, _, _ = to_case(labs, hshift=1)
            add(" | %s | random %d" % (prog_text(concat(prev, prog2)), ck.seed * 37 + i), "long")
        prev = prog
    outp = xc.run_driver_cases(ck, DRV, lines, "reg")
    dfs_progs = ["a=set:1:1:0,get:2:1,unmod:1;b=set:2:1:1,get:1:2,unreg:1,drop:1",
                 "a=set:1:1:0,unreg:1,set:1:2:1;b=set:1:2:0,get:1:1,unmod:2"]
    dfs_outs = []
    for k, dp in enumerate(dfs_progs):
        dfs_out = os.path.join(ck.work, "dfs%d.ndjson" % k)
        rc, out = vf.run_driver(DRV, ["dfs", " | " + dp, 2, 2500 if thorough else 400, dfs_out, 12], timeout=900)
        if rc != 0:
            raise vf.Infra(DRV + " dfs failed: " + out[-1000:])
        ck.note("dfs (preemption bound 2) '%s': %s" % (dp, out.strip().splitlines()[-1]))
        dfs_outs.append(dfs_out)
    allp = os.path.join(ck.work, "all.ndjson")
    with open(allp, "w") as f:
        f.write(open(outp).read())
        for d in dfs_outs:
            f.write(open(d).read())
    raw = open(allp).read().splitlines()
    execs = xc.exec_texts(allp)
    ck.evaluations += len(execs)
    case_of = lambda x: lines[x] if x < len(lines) else "dfs"
    if any('"e":"Crashed"' in x or '"e":"HarnessTimeout"' in x for x in raw):
        x = next(i for i, e in enumerate(execs) if any('"Crashed"' in y or '"HarnessTimeout"' in y for y in e))
        ck.violation("registry execution crashed or hung (%s)" % case_of(x),
                     ck.save_replay("crash", {"trace.ndjson": "\n".join(execs[x]) + "\n", "case.txt": case_of(x) + "\n"}))
        return
    # replay fidelity: the operations of the two threads start in the order of the TLC behaviour, one at a time
    nrep = drift = 0
    for i, k in enumerate(kinds):
        if k != "replay":
            continue
        nrep += 1
        ev = [json.loads(y) for y in execs[i]]
        got = [(e["t"], e["op"]) for e in ev if e["e"] == "Call" and e["t"] != "main"]
        seq = all(ev[j + 1]["e"] in ("Ret", "Dtor") for j, e in enumerate(ev[:-1]) if e["e"] == "Call")
        if got != orders[i] or not seq:
            drift += 1
    ck.note("replayed %d TLC behaviours at critical-section grain, %d drifted" % (nrep, drift))

    def concurrent(e):
        depth = 0
        for y in e:
            if '"e":"Call"' in y: depth += 1
            elif '"e":"Ret"' in y: depth -= 1
            if depth >= 2: return True
        return False
    ck.nontrivial = len({"\n".join(e) for e in execs if concurrent(e)})
    first = len(probes)
    ck.sample({"kind": "registry behaviour (TLC) replayed", "case": lines[first], "events": [json.loads(x) for x in execs[first][:10]]})
    # ---------------------------------------------------------------- 3. the oracle
    ok, bad, obs = xc.validate_sharded(ck, TRACE, TRACE_CFG, allp, nshards=6 if thorough else 4)
    if not ok:
        x = bad["exec"]
        rp = ck.save_replay("reject_%d" % x, {"trace.ndjson": "\n".join(execs[x]) + "\n", "case.txt": case_of(x) + "\n"})
        ck.violation("registry execution rejected by RegistryTrace.tla at %s (%s)" % (json.dumps(bad["event"]), case_of(x)), rp)
        return
    if drift > nrep // 10:
        raise vf.Infra("too many replays drifted (%d of %d): the plan mapping no longer matches the code's synchronisation" % (drift, nrep))
    if ck.nontrivial < 50:
        raise vf.Infra("only %d executions with two threads inside the registry" % ck.nontrivial)
    # observation: the named deviation, on the probe derived from TLC's counterexample to NoUserCodeUnderLock
    pi = [i for i, k in enumerate(kinds) if k == "probe:Obs_DtorUnderLock"][0]
    hit = sorted({xc.exec_of_line(raw, ln) for ln in obs.get("DtorUnderLock", [])})
    re_out = os.path.join(ck.work, "reentrant.ndjson")
    rc, out = vf.run_driver(DRV, ["reentrant", re_out], timeout=120)
    rex = xc.exec_texts(re_out)
    v0 = len(rex) > 0 and any("ProbeSurvived" in y for y in rex[0])
    v1dead = len(rex) > 1 and any('"Crashed"' in y or '"HarnessTimeout"' in y for y in rex[1])
    if pi in hit:
        ck.note("OBSERVATION O-22a (Obs_DtorUnderLock): the implementation's destructor runs while unregister<T>() / unregisterModule() "
                "hold the registry write lock (the header calls the mutex a LEAF: 'no user callback is invoked while it is held'): "
                "case '%s' -> Dtor with lk=1 (%d of %d executions show it)" % (lines[pi].split(" | ")[1], len(hit), len(execs)))
        if v1dead and v0:
            ck.note("OBSERVATION O-22a probe: an implementation whose destructor calls ServiceRegistry::get<Other>() is fine when a handle "
                    "drops the last reference, but when unregister<T>() drops it the process terminates (shared_mutex: 'Resource "
                    "deadlock avoided' thrown inside the noexcept destructor): " + " ".join(out.strip().splitlines()[-1:]))
        else:
            ck.note("observation O-22a probe (destructor looks up another interface): handle-drop variant survived=%s, unregister variant died=%s" % (v0, v1dead))
    else:
        ck.note("observation O-22a (destructor under the registry write lock) NOT reproduced on this tree")
    # oracle self-tests: corrupted executions must be rejected
    for what, evs in SELFTESTS.items():
        xc.must_reject(ck, TRACE, TRACE_CFG, "\n".join(json.dumps(e, separators=(",", ":")) for e in evs) + "\n", what)
    ck.note("oracle self-test: %d corrupted executions are rejected (%s)" % (len(SELFTESTS), "; ".join(SELFTESTS)))


def replay(ck, path):
    run(ck)
