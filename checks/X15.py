"""X15 (extra, not registered in MANIFEST.json) - iora::network::requireBasicAuth (include/iora/network/http_auth.hpp;
tests/web/test_http_auth.cpp).

  1. spec/extra/HttpAuth.tla is generator + Impl specification: Init enumerates every Authorization header value of the
     family  scheme spelling x separator x token x trailer  (tokens computed in TLA+ with Base64Ops!Enc from credential octet
     strings, plus malformed variants) x verify behaviour (true / false / throws std / throws int / true + protected handler
     throws), header absent, and every realm up to 3 octets over boundary octets; the actions are steps 1-8 of the closure.
     Invariants Guarded ("only after verify returned true", "at most once") and Refines (outcome = HttpAuthOps!Outcome of
     the Abs credential grammar, verify arguments = split at the FIRST colon); every Dev_* flag must be caught by TLC.
  2. every terminal state is a case: harness/drv_httpauth.cpp (ASan+UBSan) builds the real decorated handler with a
     recording verify / protected handler and calls it with the header stored under three spellings of the key.
  3. TLC validates the events against spec/extra/HttpAuthTrace.tla (the oracle evaluates the grammar on the logged header).
"""
import os, json
from collections import Counter
import vf
from checks import xtext_common as xc

SPECDIR = xc.SPECDIR
DEVS = ["Dev_TabSeparator", "Dev_PrefixScheme", "Dev_CaseSensitiveScheme", "Dev_NoTrim", "Dev_LastColon", "Dev_InnerOnThrow",
        "Dev_InnerOnFalse", "Dev_RealmSignedCompare", "Dev_RealmAllowsDel"]
ACTIONS = ["RealmReject", "RealmAccept", "TooShort", "SchemeMismatch", "SchemeMatch", "NoSeparator", "Tokenize", "DecodeFail", "DecodeOk",
           "NoColon", "Split", "VerifyTrue", "VerifyFalse", "VerifyThrows", "Inner"]
INVS = ["Guarded", "Refines", "Progress"]


def cfg_for(ck, name, hdr, realm, dev=None, emit=True):
    p = os.path.join(ck.work, name + ".cfg")
    c = {"HdrInputs": "<- " + hdr, "RealmInputs": "<- " + realm, "TheRealm": "<- MCTheRealm"}
    for d in DEVS:
        c[d] = (d == dev)
    vf.write_cfg(p, constants=c, invariants=INVS + (["Emit"] if emit else []))
    return p


def to_line(c):
    if c["kind"] == "realm":
        return "R %s" % xc.hexs(c["realm"])
    return "A %d %d %s %s %s" % (1 if c["present"] else 0, c["kc"], xc.hexs(c["hdr"]), c["vb"], xc.hexs(c["realm"]))


def drive_and_judge(ck, tag, lines_in):
    cp = os.path.join(ck.work, tag + ".cases")
    op = os.path.join(ck.work, tag + ".ndjson")
    open(cp, "w").write("\n".join(lines_in) + "\n")
    n, crashed, hung = xc.run_drv("drv_httpauth.asan", cp, op, batch=300, parallel=8)
    lines, bad, obs = xc.validate_sharded(ck, "HttpAuthTrace", op, nshards=4)
    if len(lines) != len(lines_in):
        raise vf.Infra("drv_httpauth: %d events for %d cases" % (len(lines), len(lines_in)))
    ck.evaluations += len(lines)
    ck.traces += len(lines) - len({ln for ln, _ in bad})
    if crashed or hung:
        ck.note("driver: %d crashed, %d hung; sanitizer output: %s" % (crashed, hung, xc.worker_stderr(op, 1500)))
    xc.report_bad(ck, "HttpAuthTrace", lines, bad, lambda ln: lines_in[ln - 1])
    return lines, bad


def run(ck):
    thorough = ck.tier == "thorough"
    ck.make("drv_httpauth.asan")
    ck.rule = ("cases = ALL terminal states of HttpAuth.tla: header = scheme spelling {Basic basic bAsIC BasicX Bearer Basi} x separator "
               "{none SP SPSP HTAB SP.HTAB HTAB.SP} x token {base64 of 10 credentials incl. empty halves, several colons, NUL, >=0x80; "
               "5 malformed tokens} x trailer {none SP HTAB SP.HTAB.SP CRLF = SP.x} x verify behaviour, header absent, realms up to 3 "
               "octets over 12 boundary octets; expected outcome by HttpAuthOps.tla. Non-trivial = header with a matching scheme")
    if thorough:
        mod = xc.write_mc(ck, "MCHttpAuthT", "MCHttpAuth", [
            "TSchemes == MCSchemes \\cup {<<66, 65, 83, 73, 67>>, <<66, 97, 115, 105, 99, 58>>, <<32, 66, 97, 115, 105, 99>>, <<68, 105, 103, 101, 115, 116>>}",
            "TSeps == MCSeps \\cup {<<32, 32, 32>>, <<11>>, <<160>>}",
            "TTrails == MCTrails \\cup {<<10>>, <<0>>, <<32, 32>>}",
            "THdrInputs == {s \\o p \\o k \\o r : s \\in TSchemes, p \\in TSeps, k \\in MCTokens, r \\in TTrails}",
            "TRealmInputs == SeqsUpTo(MCRealmChars \\cup {126, 33, 35, 91, 93}, 3)"])
        cfg = cfg_for(ck, "MCHttpAuthT", "THdrInputs", "TRealmInputs")
    else:
        mod, cfg = os.path.join(SPECDIR, "MCHttpAuth.tla"), os.path.join(SPECDIR, "MCHttpAuth.cfg")
    r, cases = xc.run_gen(ck, mod, cfg, "gen", "HttpAuth.", ACTIONS, what="Impl of requireBasicAuth")
    if r.violated:
        return
    # deviation flags on a reduced family that contains a witness for each
    dmod = xc.write_mc(ck, "MCHttpAuthDev", "MCHttpAuth", [
        "DHdr == {s \\o p \\o k \\o r : s \\in {<<66, 97, 115, 105, 99>>, <<98, 97, 115, 105, 99>>, <<66, 97, 115, 105, 99, 88>>}, "
        "p \\in {<<>>, <<32>>, <<9>>}, k \\in {Enc(<<117, 58, 112, 58, 113>>, FALSE), Enc(<<117>>, FALSE)}, r \\in {<<>>, <<32>>}}",
        "DRealm == SeqsUpTo({97, 127, 128, 34}, 2)"])
    xc.dev_selftests(ck, [(d, dmod, cfg_for(ck, "dev_" + d, "DHdr", "DRealm", dev=d, emit=False), ("Guarded", "Refines")) for d in DEVS])

    cases.sort(key=lambda c: (c["kind"], c["hdr"], c["vb"], c["realm"]))
    nwf = sum(1 for c in cases if c["wf"])
    kinds = Counter((c["kind"], c["status"], c["exc"], c["threw"]) for c in cases)
    ck.note("HttpAuth.tla: %d cases (%d with a well-formed credential); predicted outcomes %s" % (
        len(cases), nwf, {"%s/%s/%s%s" % (k[0], k[1], k[2], "/threw" if k[3] else ""): v for k, v in sorted(kinds.items())}))
    need = [("auth", 401, "none", False), ("auth", 299, "none", False), ("auth", 500, "none", False), ("auth", 0, "std", False),
            ("realm", 401, "none", False), ("realm", 200, "none", True)]
    for k in need:
        if kinds.get(k, 0) == 0:
            raise vf.Infra("generator produced no case with outcome %s" % (k,))
    lines_in = [to_line(c) for c in cases]
    lines, bad = drive_and_judge(ck, "auth", lines_in)
    badset = {ln for ln, _ in bad}
    drift = 0
    for k, (c, ln) in enumerate(zip(cases, lines), 1):
        e = json.loads(ln)
        if k in badset:
            continue
        if e["e"] == "Auth" and (e["status"], e["vcalls"], e["icalls"], e["exc"]) != (c["status"], c["vcalls"], c["icalls"], c["exc"]):
            drift += 1
        if e["e"] == "Realm" and e["threw"] != c["threw"]:
            drift += 1
    if drift:
        ck.note("model drift: %d events accepted by the Abs oracle differ from the Impl model's prediction" % drift)
    ck.nontrivial = sum(1 for c in cases if c["kind"] == "realm" or bytes(c["hdr"][:5]).lower() == b"basic")
    ck.exhaustive = True
    ck.assumptions.append("bounds: the stated header family; realms up to 3 octets; one request per handler instance")
    for c in [x for x in cases if x["wf"] and x["vb"] == "true" and len(x["pass"]) > 2][:1] + [x for x in cases if x["wf"] and x["vb"] == "throw2"][:1] + \
            [x for x in cases if not x["wf"] and x["kind"] == "auth" and bytes(x["hdr"][:6]) == b"Basic\t"][:1]:
        ck.sample({"header": bytes(c["hdr"]).decode("latin-1"), "verify": c["vb"], "wf": c["wf"], "status": c["status"],
                   "user": bytes(c["user"]).decode("latin-1"), "pass": bytes(c["pass"]).decode("latin-1")})

    # oracle self-test on synthesised events
    def ev(hdr, vb, status, vcalls, icalls, user=b"", pw=b"", exc="none", present=True, www=True, body=b"Unauthorized", realm=b"r"):
        return dict(e="Auth", present=present, kc=0, hdr=list(hdr), vb=vb, realm=list(realm), status=status, vcalls=vcalls, user=list(user),
                    **{"pass": list(pw)}, icalls=icalls, exc=exc, haswww=www, www=list(b'Basic realm="' + realm + b'"') if www else [],
                    body=list(body))

    def rv(realm, threw, www=True):
        return dict(e="Realm", realm=list(realm), threw=threw, exc="none", status=200 if threw else 401, haswww=(not threw) and www, vcalls=0, icalls=0,
                    www=list(b'Basic realm="' + realm + b'"') if (not threw) and www else [])
    good = [ev(b"Basic dTpwOnE=", "true", 299, 1, 1, b"u", b"p:q", www=False, body=b"inner"), ev(b"basic  dTpw \t", "false", 401, 1, 0, b"u", b"p"),
            ev(b"Basic dTpw", "throw", 500, 1, 0, b"u", b"p", www=False, body=b"Internal Server Error"), ev(b"Basic\tdTpw", "true", 401, 0, 0),
            ev(b"BasicX dTpw", "true", 401, 0, 0), ev(b"", "true", 401, 0, 0, present=False), ev(b"Basic dQ==", "true", 401, 0, 0),
            ev(b"Basic dTpw", "true_ithrow", 0, 1, 1, b"u", b"p", exc="std", www=False, body=b""), rv(b"a\x80", False), rv(b'a"', True), rv(b"\x7f", True)]
    corrupt = [ev(b"Basic dTpwOnE=", "true", 299, 1, 1, b"u:p", b"q", www=False, body=b"inner"),      # split at the last colon
               ev(b"Basic\tdTpw", "true", 299, 1, 1, b"u", b"p", www=False, body=b"inner"),           # HTAB separator accepted
               ev(b"BasicX dTpw", "true", 299, 1, 1, b"u", b"p", www=False, body=b"inner"),           # prefix scheme accepted
               ev(b"Basic dTpw", "throw", 500, 1, 1, b"u", b"p", www=False, body=b"inner"),           # inner after a throwing verify
               ev(b"Basic dTpw", "false", 401, 1, 1, b"u", b"p"),                                    # inner after verify = false
               ev(b"Basic dTpw", "true", 299, 2, 1, b"u", b"p", www=False, body=b"inner"),            # verify twice
               ev(b"Basic dQ==", "true", 400, 0, 0, www=False),                                      # 400 instead of a challenge
               ev(b"Basic dQ==", "true", 401, 0, 0, www=False),                                      # 401 without the challenge header
               ev(b"Basic dQ==", "true", 401, 0, 0, body=b"nope"),
               ev(b"Basic dTpw", "throw2", 0, 1, 0, b"u", b"p", exc="other", www=False, body=b""),    # verify's exception escapes
               ev(b"basic dTpw", "true", 401, 0, 0),                                                 # lower-case scheme refused
               rv(b"a\x80", True), rv(b"\x7f", False), rv(b"a\r\n", False), dict(e="Crashed", k=1)]
    xc.selftest_oracle(ck, "HttpAuthTrace", good, corrupt)


def replay(ck, path):
    ck.make("drv_httpauth.asan")
    lines_in = [ln.strip() for ln in open(os.path.join(path, "cases.txt")) if ln.strip()]
    lines, bad = drive_and_judge(ck, "replay", lines_in)
    print("\n".join(lines[:50]))
