"""X11 (extra, not in MANIFEST.json) — iora::network::EventBatchProcessor (network/event_batch_processor.hpp).

BatchProc.tla (Impl: one processBatch = epoll_wait with limit/timeout, special-then-general dispatch, statistics, adaptive
batch-size rule throttled to once per 100 ms; the epoll ENVIRONMENT is scripted by the specification) is model-checked
exhaustively (bounded number of operations, all invariants P1..P10), every Dev_* slip must be reported by TLC (self-test),
and the TLC state graph is the test plan: transition cover + random walks + the Dev_* counterexamples are replayed on the
REAL class with an interposed, scripted epoll_wait under the virtual clock; BatchProcTrace.tla decides every recorded
operation (epoll_wait arguments, handler call sequences, callback, throw, elapsed time, all statistics, config read-back).
Two deviations of the code from its documentation are accepted by name and reported as OBSERVATION (the check stays green);
anything else that differs is a VIOLATION."""
import os, re, json, bisect
from concurrent.futures import ThreadPoolExecutor
import vf

SPECDIR = os.path.join(vf.SPEC, "extra")
MC = os.path.join(SPECDIR, "MCBatchProc.tla")
TRACE = os.path.join(SPECDIR, "BatchProcTrace.tla")
DEVS = {  # slip -> invariant TLC must report
    "Dev_FixedIgnored": "Inv_FixedHonoured", "Dev_UpdateZero": "Inv_CurRange",
    "Dev_LimitIgnoresAdaptive": "Inv_LimitAdaptive", "Dev_SpecialAlsoGeneral": "Inv_DispatchOnce",
    "Dev_NoThrottle": "Inv_Throttle", "Dev_StatsOnEmpty": "Inv_Stats", "Dev_MinNeverSet": "Inv_Stats",
    "Dev_CallbackOnEmpty": "Inv_Callback", "Dev_EintrThrows": "Inv_Errors", "Dev_DecreaseHalf": "Inv_AdjStep"}
AS_BUILT = ("Dev_FixedIgnored", "Dev_UpdateZero")          # what the code does today (observations)
INVS = ["Inv_Env", "Inv_CurRange", "Inv_Bound", "Inv_LimitAdaptive", "Inv_FixedHonoured", "Inv_Timeout", "Inv_DispatchOnce",
        "Inv_Callback", "Inv_Errors", "Inv_Stats", "Inv_Throttle", "Inv_AdjStep", "Inv_NoBatchNoChange"]
AS_BUILT_BROKEN = ("Inv_CurRange", "Inv_FixedHonoured", "Inv_Bound")
ACTIONS = ["Construct", "Submit", "Batch", "BatchIntr", "BatchFail", "Idle", "UpdateConfig", "SetFixed", "ResetStats"]
PARAMS = {"Construct": ("ci", "si"), "Submit": ("f",), "Batch": ("w", "c"), "Idle": ("d",), "UpdateConfig": ("ci",), "SetFixed": ("k",)}
OBS_TEXT = {
    "FixedIgnored": "setFixedBatchSize(k) has no effect on the batch limit: with adaptive sizing off getCurrentBatchSize() returns "
                    "config_.maxBatchSize, so epoll_wait is asked for maxBatchSize events, not min(k, maxBatchSize)",
    "UpdateZero": "updateConfig({maxBatchSize=1, enableAdaptiveSizing=true}) leaves currentBatchSize_ = 0 (the constructor's 0 -> 1 "
                  "guard is missing): epoll_wait(maxevents=0) fails with EINVAL and processBatch throws std::system_error on every call",
    "UpdateZeroStuck": "... and the events that are ready are never delivered (drain ends with tokens left)"}


def tables():
    """configuration table and special-handler sets of MCBatchProc.tla (the specification owns them)"""
    s = open(MC).read()
    cfgs = [(int(a), 1 if b == "TRUE" else 0, int(c), int(d), int(e), int(f)) for a, b, c, d, e, f in re.findall(
        r"\[max \|-> (\d+), adaptive \|-> (TRUE|FALSE),\s*delay \|-> (\d+),\s*thr \|-> (\d+),\s*lfn \|-> (\d+), lfd \|-> (\d+)\]", s)]
    m = re.search(r"MCSpecialSets == <<(.*?)>>", s, re.S)
    sets = [[int(x) for x in re.findall(r"\d+", t)] for t in re.findall(r"\{([^}]*)\}", m.group(1))]
    if len(cfgs) < 2 or not sets:
        raise vf.Infra("cannot read the tables of MCBatchProc.tla")
    return cfgs, sets


def mk_cfg(ck, name, maxops, devs=(), invariants=INVS, view=None, track=True, maxpend=2, constraints=()):
    c = {"Fds": "{1, 2, 3}", "Cfgs": "<- MCCfgs", "SpecialSets": "<- MCSpecialSets", "Waits": "{0, 50}", "Costs": "{0, 25}",
         "IdleDurs": "{99950, 100000}", "Fixes": "{1, 3}", "MaxPend": maxpend, "MaxOps": maxops, "TrackHist": track}
    for d in DEVS:
        c[d] = d in devs
    p = os.path.join(ck.work, name + ".cfg")
    vf.write_cfg(p, spec="Spec", constants=c, invariants=invariants, view=view, constraints=constraints)
    return p


def op_of(name, args, cfgs, sets):
    if name == "Construct":
        return "N,%s,%d" % (",".join(map(str, cfgs[int(args[0]) - 1])), sum(1 << f for f in sets[int(args[1]) - 1]))
    if name == "UpdateConfig":
        return "U," + ",".join(map(str, cfgs[int(args[0]) - 1]))
    return {"Submit": "S,%s", "Batch": "B,%s,%s", "BatchIntr": "I", "BatchFail": "F", "Idle": "W,%s", "SetFixed": "X,%s",
            "ResetStats": "R"}[name] % tuple(args)


def run_cases(ck, lines, tag, strict=False, chunk=100):
    cp = os.path.join(ck.work, tag + ".cases.txt")
    open(cp, "w").write("\n".join(lines) + "\n")
    outp = os.path.join(ck.work, tag + ".ndjson")
    rc, out = vf.run_driver("drv_s_batchproc", ["run", cp, outp, chunk], timeout=900)
    if rc != 0:
        raise vf.Infra("drv_s_batchproc failed: " + out[-1000:])
    events = vf.read_ndjson(outp)
    execs = vf.split_executions(events)
    bad = [e for e in events if e["e"] in ("Crashed", "HarnessTimeout")]
    if bad:
        x = bad[0].get("x", 0)
        sub = lines[x * chunk:(x + 1) * chunk]
        if chunk > 1:                                   # isolate the case: one fork per case
            return run_cases(ck, sub, tag + "_iso", strict, chunk=1)
        rp = ck.save_replay("crash_%s_%d" % (tag, x), {"case.txt": "\n".join(sub) + "\n"})
        ck.violation("EventBatchProcessor: the process %s while replaying the model-generated case `%s`" % (
            "crashed (signal / abort)" if bad[0]["e"] == "Crashed" else "hung", sub[0]), rp)
        return None
    if len(execs) != len(lines) or any(not e[1] or e[1][0].get("x") != i for i, e in enumerate(execs)):
        raise vf.Infra("driver output does not line up with the cases (%d executions for %d cases)" % (len(execs), len(lines)))
    cfgp = os.path.join(SPECDIR, "BatchProcTraceStrict.cfg" if strict else "BatchProcTrace.cfg")
    v = ck.validate(TRACE, cfgp, outp, n_exec=len(execs))
    return events, execs, v


def run(ck, only_cases=None):
    thorough = ck.tier == "thorough"
    ck.make("drv_s_batchproc")
    ck.rule = ("cases = operation sequences read off the TLC state graph of BatchProc.tla (transition cover of the plan graph, random "
               "walks, counterexamples of the Dev_* slips), each ended by a drain and replayed on the real EventBatchProcessor with a "
               "scripted epoll_wait under virtual time; non-trivial = distinct executions with at least one non-empty batch")
    cfgs, sets = tables()
    if only_cases is not None:
        lines = only_cases
    else:
        lines = generate(ck, thorough, cfgs, sets)
        if lines is None:
            return
    res = run_cases(ck, lines, "x11")
    if res is None:
        return
    events, execs, v = res
    resets = [i for i, e in enumerate(events, 1) if e["e"] == "Reset"]

    def xof(line):                                      # = vf.exec_index_of_line, O(log n)
        return bisect.bisect_left(resets, line)
    ck.evaluations += len(execs)
    nonempty = {lines[i] for i, e in enumerate(execs) if any(x["e"] == "Batch" and x["res"] == "ok" for x in e[1])}
    ck.nontrivial = len(nonempty)
    ups = downs = throttled = special = einval = 0
    for _, evs in execs:
        prev = None
        for x in evs:
            if x["e"] != "Batch":
                if x["e"] in ("UpdateConfig", "SetFixed", "Begin"):
                    prev = None
                continue
            if x["res"] == "einval":
                einval += 1
            if x["res"] == "ok":
                special += 1 if len(x["gen"]) < len(x["sp"]) else 0
            if x["cad"] and prev is not None and x["maxev"] != prev:
                ups += x["maxev"] > prev
                downs += x["maxev"] < prev
            prev = x["maxev"] if x["cad"] else None
    nb = sum(1 for e in events if e["e"] == "Batch")
    ck.note("replayed %d cases, %d processBatch calls on the real class: batch limit seen going up %d times, down %d times; "
            "%d batches with events taken by the special handler; %d calls with maxevents=0" % (len(execs), nb, ups, downs, special, einval))
    ck.sample({"kind": "operation sequence from the TLC graph", "case": lines[0], "events": execs[0][1][:6]})
    if v.violated or not v.accepted:
        line = max(1, v.maxl if not v.violated else v.maxl - 1)
        x = xof(line)
        rp = ck.save_replay("reject_%d" % x, {"trace.ndjson": "\n".join(json.dumps(e) for e in execs[x][1]) + "\n", "case.txt": lines[x] + "\n",
                                             "tlc.out": v.out[-6000:]})
        ev = events[min(line, len(events)) - 1]
        ck.violation("EventBatchProcessor: the real object differs from BatchProc.tla%s at event %s (case: %s)" % (
            " (invariant %s)" % v.violated if v.violated else "", json.dumps(ev), lines[x]), rp)
        return
    if only_cases is None and (ups == 0 or downs == 0 or special == 0):
        raise vf.Infra("vacuous plan: the adaptive rule / special dispatch was never exercised on the code")
    # ---- observations: named deviations the trace specification accepted ------------------------------------------------
    seen = {}
    for name, ln in re.findall(r'<<"OBS", "(\w+)", (\d+)>>', v.out):
        seen.setdefault(name, set()).add(int(ln))
    probe = []
    for name in ("FixedIgnored", "UpdateZero", "UpdateZeroStuck"):
        if name not in seen:
            ck.note("observation %s not seen in this run (repaired upstream?)" % name)
            continue
        byx = {}
        for k in sorted(seen[name]):
            byx.setdefault(xof(k), k)
        x = min(byx, key=lambda i: (len(lines[i].split()), i))      # the shortest case that shows it
        ln = byx[x]
        ev = events[ln - 1]
        ck.note("OBSERVATION %s (%d events in %d cases): %s. First seen: case `%s`, event %s" % (
            name, len(seen[name]), len(byx), OBS_TEXT[name], lines[x],
            json.dumps({k: ev[k] for k in ("e", "maxev", "res", "ret", "thrown", "errc", "cmax", "cad", "left") if k in ev})))
        if name != "UpdateZeroStuck":
            probe.append((name, lines[x]))
    # self-test: with AcceptObserved = FALSE (only the promised behaviour) an ordinary execution is accepted and exactly the
    # executions that show an observation are rejected
    if probe and only_cases is None:
        obs_execs = {xof(k) for s_ in seen.values() for k in s_}
        ok_line = next(l for i, l in enumerate(lines) if i not in obs_execs)
        with ThreadPoolExecutor(max_workers=2) as ex:
            futs = [(n, ex.submit(run_cases, ck, [ok_line, ln], "x11strict_" + n, True)) for n, ln in probe]
        for n, f in futs:
            r2 = f.result()
            if r2 is None:
                return
            ev2, ex2, v2 = r2
            if v2.accepted or vf.exec_index_of_line(ev2, max(1, v2.maxl)) != 1:
                raise vf.Infra("self-test: the strict trace specification (AcceptObserved = FALSE) should accept an ordinary execution and "
                               "reject the one showing %s (accepted=%s maxl=%d)" % (n, v2.accepted, v2.maxl))
        ck.note("self-test: with AcceptObserved = FALSE the trace specification rejects the executions showing %s" % ", ".join(p[0] for p in probe))


def generate(ck, thorough, cfgs, sets):
    """model checking + self-tests + the test plan; returns the case lines (None after a violation)"""
    maxops = 7 if thorough else 4
    jobs = {}
    dot = os.path.join(ck.work, "plan.dot")
    with ThreadPoolExecutor(max_workers=3) as ex:        # <= 3 TLC workers in total
        jobs["promised"] = ex.submit(vf.run_tlc, MC, mk_cfg(ck, "promised", maxops), tag="X11_mc", workers=1, coverage=True, timeout=1500,
                                     lib_dirs=[SPECDIR])
        jobs["asbuilt"] = ex.submit(vf.run_tlc, MC, mk_cfg(ck, "asbuilt", maxops, devs=AS_BUILT, invariants=[i for i in INVS if i not in AS_BUILT_BROKEN]),
                                    tag="X11_ab", workers=1, timeout=1500, lib_dirs=[SPECDIR])
        jobs["plan"] = ex.submit(vf.run_tlc, MC, mk_cfg(ck, "plan", 1000000, devs=AS_BUILT, invariants=[i for i in INVS if i not in AS_BUILT_BROKEN],
                                                         view="PlanView" if thorough else "PlanViewQ"),
                                 tag="X11_plan", workers=1, dump_dot=dot, timeout=1500, lib_dirs=[SPECDIR])
        for d in DEVS:
            jobs[d] = ex.submit(vf.run_tlc, MC, mk_cfg(ck, d, 6, devs=(d,)), tag="X11_" + d, workers=1, timeout=900, lib_dirs=[SPECDIR],
                                dump_trace=os.path.join(ck.work, d + ".cex.json"))
        if thorough:
            jobs["deep"] = ex.submit(vf.run_tlc, MC, mk_cfg(ck, "deep", 1000000, track=False, constraints=("SinceSmall",)), tag="X11_deep",
                                     workers=1, timeout=1500, lib_dirs=[SPECDIR])
    R = {k: f.result() for k, f in jobs.items()}
    for k in ("promised", "asbuilt", "plan", "deep"):
        if k not in R:
            continue
        r = R[k]
        if r.error:
            raise vf.Infra("TLC failed (%s): %s" % (k, r.error))
        ck.states += r.distinct; ck.transitions += r.generated
        ck.note("BatchProc.tla [%s]: %s" % (k, r.summary()))
        if r.violated:
            ck.violation("BatchProc.tla (%s configuration) violates %s" % (k, r.violated), ck.save_replay("impl_" + k, {"tlc.out": r.out[-20000:]}))
            return None
    for a in ACTIONS:
        if R["promised"].coverage.get(a, (0, 0))[1] == 0:
            raise vf.Infra("self-test: Impl action %s never taken" % a)
    for a, (tk, gn) in R["promised"].coverage.items():
        if a in ACTIONS:
            ck.cov[a] = gn
    ck.exhaustive = "BatchProc.tla, 3 descriptors x 2 tokens, %d configurations x %d handler sets, %d operations: all reachable states" % (len(cfgs), len(sets), maxops)
    # ---- self-test: every slip is reported, its counterexample becomes a directed probe -------------------------------------
    lines = []
    for d, inv in DEVS.items():
        r = R[d]
        if r.violated != inv or not r.trace_json:
            raise vf.Infra("self-test: BatchProc.tla with %s = TRUE should violate %s, got %r %s" % (d, inv, r.violated, (r.error or "")[-300:]))
        ck.states += r.distinct; ck.transitions += r.generated
        ops = []
        for a in r.trace_json["counterexample"]["action"]:
            name, ctx = a[1]["name"], a[1].get("context") or {}
            if name in ACTIONS:
                ops.append(op_of(name, [ctx[p] for p in PARAMS.get(name, ())], cfgs, sets))
        lines.append(" ".join(ops + ["D"]))
    ck.note("self-test: each of %d slips (%s) makes TLC report its invariant; the %d counterexamples are replayed as directed probes" % (
        len(DEVS), ", ".join(x[4:] for x in DEVS), len(DEVS)))
    ck.sample({"kind": "counterexample of Dev_UpdateZero (directed probe)", "case": lines[1]})
    # ---- the plan graph -------------------------------------------------------------------------------------------------------
    g = vf.Graph.load(dot)
    os.remove(dot)

    def to_line(path, real=False):
        ops = []
        for lab in path:
            name, args = vf.label_thread(lab)
            if real and name in ("BatchIntr", "BatchFail"):
                continue
            if real and name == "Batch":
                args = ["0", args[1]]
            ops.append(op_of(name, args, cfgs, sets))
        return ("real " if real else "") + " ".join(ops + ["D"])
    paths, covered, total = g.transition_cover(ck.rng, maxlen=30, limit=20000 if thorough else 350)
    walks = [g.walk_to_end(ck.rng.choice(g.init), ck.rng, ck.rng.randrange(6, 40)) for _ in range(4000 if thorough else 250)]
    ck.note("plan graph (%s, as-built flags): %d states, %d edges; %d cover paths take %d edges, %d random walks" % (
        "PlanView" if thorough else "PlanViewQ", len(g.nodes), total, len(paths), covered, len(walks)))
    lines += [to_line(p) for p in paths + walks]
    # the same environment played by the kernel: real epoll instance + eventfd semaphores (smoke)
    lines += [to_line(p, real=True) for p in (paths[:40] + walks[:40] if thorough else paths[:8] + walks[:8])]
    return lines


def replay(ck, path):
    cp = os.path.join(path, "case.txt")
    if not os.path.exists(cp):
        return run(ck)
    run(ck, only_cases=[l for l in open(cp).read().splitlines() if l.strip()])
