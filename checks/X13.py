"""X13 (extra, beyond the listed properties; not registered in MANIFEST.json) - iora::util::Base64 / Base64Url
(include/iora/util/base64.hpp; tests/web/test_base64_decode.cpp).

  1. spec/extra/Base64.tla is generator + Impl specification: Init enumerates every input of the configured families
     (octet strings over boundary octets for the two encoders; character strings over values 0/1/16/32/62/63, '=', a
     URL-alphabet character, white space and a byte >= 0x80 for the decoder, plus two-quantum strings whose first quantum is
     full / padded), the actions are the decision steps of the code (encoder loop + tail forms, decoder quantum with each of
     its exits).  Invariants Refines / RoundTrip / NoOob compare the Impl result with the Abs definition of Base64Ops.tla:
     RFC 4648 on BITS for encoding, decoding DEFINED as the inverse of encoding (strict / canonical).  Every Dev_* flag
     must make TLC report a violation (self-test).
  2. every terminal state is a case: harness/drv_b64.cpp (ASan+UBSan, exact-size heap blocks) calls Base64::encode (both
     overloads), Base64Url::encode, Base64::decode and decodeToString.
  3. TLC validates the recorded events against spec/extra/Base64Trace.tla (the Abs oracle evaluates Enc / AbsDecode on the
     logged input itself, so the verdict does not depend on the generator's prediction; a differing prediction that the
     oracle accepts would be reported as model drift).
"""
import os, json
from collections import Counter
import vf
from checks import xtext_common as xc

SPECDIR = xc.SPECDIR
DEVS = {"Dev_NoLenCheck": ("NoOob", "Refines"), "Dev_NoPadBits": ("Refines",), "Dev_PadAnyQuantum": ("Refines",),
        "Dev_Pad2NoC3": ("Refines",), "Dev_UrlAlphabet": ("Refines",), "Dev_EncNoPad": ("Refines", "RoundTrip"),
        "Dev_EncTail2Short": ("Refines", "RoundTrip")}
ACTIONS = ["EncTriple", "EncTail1", "EncTail2", "EncEnd", "DecEmpty", "DecBadLen", "DecBadHead", "DecPad2Misplaced", "DecPad2Bits",
           "DecPad2", "DecBadThird", "DecPad1Misplaced", "DecPad1Bits", "DecPad1", "DecBadFourth", "DecFull", "DecDone"]
INVS = ["Refines", "RoundTrip", "NoOob", "Progress"]


def cfg_for(ck, name, enc, dec, dev=None, emit=True):
    p = os.path.join(ck.work, name + ".cfg")
    c = {"EncInputs": "<- " + enc, "DecInputs": "<- " + dec}
    for d in DEVS:
        c[d] = (d == dev)
    vf.write_cfg(p, constants=c, invariants=INVS + (["Emit"] if emit else []))
    return p


def to_line(c):
    return "%s %s" % ({"enc": "E", "url": "U", "dec": "D"}[c["mode"]], xc.hexs(c["inp"]))


def drive_and_judge(ck, tag, lines_in):
    cp = os.path.join(ck.work, tag + ".cases")
    op = os.path.join(ck.work, tag + ".ndjson")
    open(cp, "w").write("\n".join(lines_in) + "\n")
    n, crashed, hung = xc.run_drv("drv_b64.asan", cp, op, batch=500, parallel=8)
    lines, bad, obs = xc.validate_sharded(ck, "Base64Trace", op, nshards=4)
    if len(lines) != len(lines_in):
        raise vf.Infra("drv_b64: %d events for %d cases" % (len(lines), len(lines_in)))
    ck.evaluations += len(lines)
    ck.traces += len(lines) - len(bad)
    if crashed or hung:
        ck.note("driver: %d crashed, %d hung; sanitizer output: %s" % (crashed, hung, xc.worker_stderr(op, 1500)))
    xc.report_bad(ck, "Base64Trace", lines, bad, lambda ln: lines_in[ln - 1])
    return lines, bad


def run(ck):
    thorough = ck.tier == "thorough"
    ck.make("drv_b64.asan")
    ck.rule = ("cases = ALL terminal states of Base64.tla: every octet string up to length 4 (thorough 5) over boundary octets for both "
               "encoders; every character string up to one quantum over {values 0 1 16 32 62 63, '=', '-', SP, 0xC1} and every "
               "<full | padded first quantum>.<tail up to 4> for the decoder; expected result by Base64Ops.tla (RFC 4648 on bits, "
               "decode = inverse of encode). Non-trivial = decoder input of length >= 2 or encoder input with a 1- or 2-octet tail")
    if thorough:
        mod = xc.write_mc(ck, "MCBase64T", "Base64", [
            "MCEncInputs == SeqsUpTo({0, 1, 63, 64, 128, 251, 255}, 5)",
            "MCDecChars == {65, 66, 81, 103, 122, 57, 47, 43, 61, 45, 95, 32, 10, 193, 0}",
            "MCTailChars == {65, 66, 81, 47, 61, 32, 193, 45}",
            "MCPrefixes == {<<81, 85, 74, 68>>, <<81, 81, 61, 61>>, <<81, 85, 73, 61>>, <<47, 47, 47, 47>>, <<43, 43, 43, 43>>}",
            "MCDecInputs == SeqsUpTo(MCDecChars, 4) \\cup {p \\o t : p \\in MCPrefixes, t \\in SeqsUpTo(MCTailChars, 4)}"])
        cfg = cfg_for(ck, "MCBase64T", "MCEncInputs", "MCDecInputs")
    else:
        mod, cfg = os.path.join(SPECDIR, "MCBase64.tla"), os.path.join(SPECDIR, "MCBase64.cfg")
    r, cases = xc.run_gen(ck, mod, cfg, "gen", "Base64.", ACTIONS, what="Impl of base64.hpp")
    if r.violated:
        return
    if len(cases) == 0 or abs(len(cases) - sum(1 for _ in cases)) != 0:
        raise vf.Infra("no cases")
    # each deviation flag must be caught by the model checker (small family that contains a witness for each)
    dmod = xc.write_mc(ck, "MCBase64Dev", "Base64", [
        "MCEncInputs == SeqsUpTo({0, 255}, 3)",
        "MCDecInputs == SeqsUpTo({65, 66, 61, 45}, 4) \\cup {<<81, 81, 61, 61>> \\o t : t \\in SeqsUpTo({81, 61}, 4)}"])
    xc.dev_selftests(ck, [(d, dmod, cfg_for(ck, "dev_" + d, "MCEncInputs", "MCDecInputs", dev=d, emit=False), exp) for d, exp in DEVS.items()])

    cases.sort(key=lambda c: (c["mode"], len(c["inp"]), c["inp"]))
    classes = Counter(c["cls"] for c in cases)
    ck.note("Base64.tla: %d cases, classes %s" % (len(cases), dict(classes)))
    for k in ("enc", "canon", "len", "alpha", "pad", "bits"):
        if classes.get(k, 0) == 0:
            raise vf.Infra("generator produced no case of class " + k)
    lines_in = [to_line(c) for c in cases]
    lines, bad = drive_and_judge(ck, "b64", lines_in)
    badset = {ln for ln, _ in bad}
    drift = 0
    for k, (c, ln) in enumerate(zip(cases, lines), 1):
        e = json.loads(ln)
        if k in badset or e["e"] not in ("Enc", "Dec"):
            continue
        pred_ok = c["res"] == "ok"
        if (e["e"] == "Dec" and (e["ok"] != pred_ok or (pred_ok and e["out"] != c["out"]))) or (e["e"] == "Enc" and e["out"] != c["out"]):
            drift += 1
    if drift:
        ck.note("model drift: %d events accepted by the Abs oracle differ from the Impl model's prediction" % drift)
    ck.nontrivial = sum(1 for c in cases if (c["mode"] == "dec" and len(c["inp"]) >= 2) or (c["mode"] != "dec" and len(c["inp"]) % 3))
    ck.exhaustive = True
    ck.assumptions.append("bounds: encoder inputs up to %d octets over 7 boundary octets; decoder inputs up to 8 characters over "
                          "the stated alphabets" % (5 if thorough else 4))
    for c in [x for x in cases if x["cls"] == "bits"][:1] + [x for x in cases if x["cls"] == "canon" and len(x["inp"]) == 8][:1] + \
            [x for x in cases if x["mode"] == "url" and len(x["inp"]) == 2][:1]:
        ck.sample({"mode": c["mode"], "input": bytes(c["inp"]).decode("latin-1"), "class": c["cls"], "model": c["res"],
                   "out": bytes(c["out"]).decode("latin-1")})

    # oracle self-test on synthesised events (independent of the code under test)
    def enc_ev(b, out, url=False):
        return dict(e="Enc", url=url, out=list(out), vout=list(out), **{"in": list(b)})

    def dec_ev(s, ok, out):
        return dict(e="Dec", ok=ok, out=list(out), sok=ok, sout=list(out), **{"in": list(s)})
    good = [enc_ev(b"foobar", b"Zm9vYmFy"), enc_ev(b"fo", b"Zm8="), enc_ev(b"f", b"Zg=="), enc_ev(b"\xfb\xff", b"-_8", True),
            enc_ev(b"", b""), dec_ev(b"Zm8=", True, b"fo"), dec_ev(b"", True, b""), dec_ev(b"Zm9=", False, b""),
            dec_ev(b"Zm8", False, b""), dec_ev(b"Zg==Zg==", False, b""), dec_ev(b"-_8=", False, b""), dec_ev(b"AAA\xc1", False, b"")]
    corrupt = [enc_ev(b"fo", b"Zm8"), enc_ev(b"fo", b"Zm9="), enc_ev(b"\xfb\xff", b"+/8", True), enc_ev(b"\xfb\xff", b"-_8=", False),
               dec_ev(b"Zm9=", True, b"fo"), dec_ev(b"Zm8=", False, b""), dec_ev(b"Zm8=", True, b"fp"), dec_ev(b"Zg==Zg==", True, b"ff"),
               dec_ev(b"Zm8 ", True, b"fo"), dec_ev(b"-_8=", True, b"\xfb\xff"),
               dict(e="Dec", ok=True, out=[102, 111], sok=False, sout=[], **{"in": list(b"Zm8=")}),
               dict(e="Crashed", k=3)]
    xc.selftest_oracle(ck, "Base64Trace", good, corrupt)


def replay(ck, path):
    ck.make("drv_b64.asan")
    lines_in = [ln.strip() for ln in open(os.path.join(path, "cases.txt")) if ln.strip()]
    lines, bad = drive_and_judge(ck, "replay", lines_in)
    print("\n".join(lines[:50]))
