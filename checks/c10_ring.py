"""C10, ring-buffer half: memory-model specification with orders extracted from the source, linearizability traces of the
real rings against the Abs FIFO, and the TLC-shaped producer/consumer programs under ThreadSanitizer."""
import os, re, json, concurrent.futures as cf
import vf
sys_path_mo = os.path.join(vf.ROOT, "tools")
import importlib.util
_spec = importlib.util.spec_from_file_location("mo_extract", os.path.join(sys_path_mo, "mo_extract.py"))
mo_extract = importlib.util.module_from_spec(_spec)
_spec.loader.exec_module(mo_extract)

SPECDIR = os.path.join(vf.SPEC, "queue")
FLAGS = ["PushTailAcq", "PushHeadRel", "PopHeadAcq", "PopTailRel", "PushPublishLast", "PopPublishLast"]
INVS = ["NoDataRace", "FifoExactlyOnce", "CapOk", "IndexOk"]


def ring_cfg(ck, name, consts):
    p = os.path.join(ck.work, name + ".cfg")
    vf.write_cfg(p, constants=consts, invariants=INVS)
    return p


def run(ck):
    thorough = ck.tier == "thorough"
    ck.make("drv_ring", "drv_ring.tsan")
    src = os.path.join(vf.REPO, "include/iora/core/ring_buffer.hpp")
    try:
        consts, table = mo_extract.extract(src)
    except Exception as e:
        raise vf.Infra("mo_extract: " + str(e))
    ck.note("ring memory orders extracted from source: %s" % consts)
    tla_path = os.path.join(SPECDIR, "SpscRing.tla")
    bounds = [dict(Cap=2, NPush=3, NPop=3, Batch=1), dict(Cap=2, NPush=2, NPop=2, Batch=2)]
    if thorough:
        bounds += [dict(Cap=2, NPush=4, NPop=4, Batch=1), dict(Cap=3, NPush=4, NPop=4, Batch=1),
                   dict(Cap=2, NPush=3, NPop=3, Batch=2), dict(Cap=1, NPush=4, NPop=4, Batch=1)]
    jobs = []
    for i, b in enumerate(bounds):
        c = dict(b); c.update(consts)
        jobs.append(("code%d" % i, c, True))
    # self-test: weakening any single order must be seen by the specification
    for f in FLAGS:
        c = dict(bounds[0]); c.update({k: True for k in FLAGS}); c[f] = False
        jobs.append(("weak_" + f, c, False))

    def go(job):
        name, c, expect_ok = job
        return job, vf.run_tlc(tla_path, ring_cfg(ck, name, c), tag="C10_ring_" + name, workers=2, lib_dirs=[SPECDIR],
                               coverage=expect_ok)
    with cf.ThreadPoolExecutor(max_workers=6) as ex:
        res = list(ex.map(go, jobs))
    for (name, c, expect_ok), r in res:
        if r.error:
            raise vf.Infra("TLC failed on SpscRing %s: %s" % (name, r.error))
        ck.states += r.distinct
        ck.transitions += r.generated
        if expect_ok:
            for a, (tk, gn) in r.coverage.items():
                ck.cov["Ring." + a] = ck.cov.get("Ring." + a, 0) + gn
            ck.note("SpscRing %s: %s" % (c, r.summary()))
            if r.violated:
                weak = [t for t in table if (t["fn"] in mo_extract.PUSH and (t["load"] not in mo_extract.ACQ or t["store"] not in mo_extract.REL))
                        or (t["fn"] in mo_extract.POP and (t["load"] not in mo_extract.ACQ or (t["store"] and t["store"] not in mo_extract.REL)))]
                rp = ck.save_replay("ring_model_" + name, {"tlc.out": r.out, "orders.json": dict(constants=consts, table=table, weak=weak)})
                ck.violation("SpscRing.tla with the memory orders of ring_buffer.hpp violates %s (weak accesses: %s)" % (
                    r.violated, ["%s::%s line %d load=%s store=%s" % (t["cls"], t["fn"], t["line"], t["load"], t["store"]) for t in weak]), rp)
        else:
            if r.violated not in ("NoDataRace", "FifoExactlyOnce", "CapOk", "IndexOk"):
                raise vf.Infra("self-test: SpscRing with %s should violate NoDataRace, got %r" % (name, r.violated))
    for a in ["PBegin", "PLoad", "PDecide", "PWrite", "PPublish", "CBegin", "CLoad", "CDecide", "CRead", "CPublish"]:
        if ck.cov.get("Ring." + a, 0) == 0:
            raise vf.Infra("self-test: SpscRing action %s never taken" % a)
    # ---- linearizability traces of the real rings
    rounds = 3000 if thorough else 400
    outp = os.path.join(ck.work, "ring.ndjson")
    rc, out = vf.run_driver("drv_ring", ["lin", rounds, ck.seed, outp], timeout=900)
    if rc != 0:
        raise vf.Infra("drv_ring lin failed: " + out[-1500:])
    events = vf.read_ndjson(outp)
    execs = vf.split_executions(events)
    ck.evaluations += len(execs)
    keys = getattr(ck, "nontrivial_keys", set())
    for start, evs in execs:
        # non-trivial: some push failed (full) or some pop failed/was short while the other side was active, or a resize dropped
        if any(e["e"] == "Ret" and ((e["op"] in ("tryQueue", "tryDequeue") and not e["ok"]) or e["op"] in ("pushBatch", "popBatch", "resize")) for e in evs):
            keys.add(json.dumps(evs, sort_keys=True))
    ck.nontrivial_keys = keys
    ck.nontrivial = len(keys)
    torn = [e for e in events if e["e"] == "Torn"]
    v = ck.validate(os.path.join(SPECDIR, "QueueTrace.tla"), os.path.join(SPECDIR, "QueueTrace.cfg"), outp, n_exec=len(execs))
    if execs:
        ck.sample({"kind": "ring linearizability round", "events": execs[3][1][:14] if len(execs) > 3 else execs[0][1][:14]})
    if torn or not v.accepted:
        x = vf.exec_index_of_line(events, v.maxl) if not v.accepted else 0
        start, evs = execs[min(x, len(execs) - 1)]
        rp = ck.save_replay("ring_reject_%d" % x, {"trace.ndjson": "\n".join(json.dumps(e) for e in evs) + "\n",
                                                  "why.txt": "first unmatched line %d: %s; torn=%d\nre-run: build/bin/drv_ring lin %d %d out.ndjson" % (
                                                      v.maxl - start + 1, json.dumps(events[v.maxl - 1]) if v.maxl <= len(events) else "-", len(torn), rounds, ck.seed)})
        ck.violation("ring buffer execution not explainable by the Abs FIFO (or torn item): %s" % (
            json.dumps(events[v.maxl - 1]) if (not v.accepted and v.maxl <= len(events)) else "torn item"), rp)
    # ---- ThreadSanitizer on the producer/consumer programs (race clause on the real code)
    rrounds = 200 if thorough else 40
    rc, out = vf.run_driver("drv_ring.tsan", ["race", rrounds, ck.seed], timeout=900,
                            env={"TSAN_OPTIONS": "halt_on_error=0 report_signal_unsafe=0 exitcode=0"})
    m = re.search(r"race-mode: rounds=(\d+) ok=(\d+) fifo_errors=(\d+)", out)
    if not m:
        raise vf.Infra("drv_ring.tsan produced no summary: " + out[-1500:])
    ck.evaluations += int(m.group(1))
    races = out.count("WARNING: ThreadSanitizer: data race")
    ck.note("ring under TSan: %s, data-race reports=%d" % (m.group(0), races))
    if races or int(m.group(3)):
        rp = ck.save_replay("ring_tsan", {"tsan.out": out[-20000:], "cmd.txt": "TSAN_OPTIONS=halt_on_error=0 build/bin/drv_ring.tsan race %d %d" % (rrounds, ck.seed)})
        ck.violation("ThreadSanitizer reports %d data race(s) / %s FIFO errors on the SPSC ring under its stated contract" % (races, m.group(3)), rp)
