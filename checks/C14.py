"""C14 — the XML parser accepts only balanced documents and reports them faithfully.

  1. spec/parsers/XmlBalance.tla (the element stack of xml.hpp driven by arbitrary token sequences; property stated with
     balance-by-reduction, an independent definition) is model-checked exhaustively; each Dev_* way of getting it wrong
     must violate an invariant (self-test).
  2. spec/parsers/XmlDoc.tla is a generator: TLC enumerates ALL token-lexeme sequences up to MaxLen over several alphabets
     (balance, names and tag spellings, attributes, text pieces with predefined entities / numeric references at the UTF-8
     boundaries / undefined, declared and external entities, CDATA / comments / PIs, prolog placements, truncated
     constructs, white space) and draws random trees in simulation mode.  Every state is a case with its class (wf /
     unbal / other), the tokens and DOM it must yield, and its measures.  Set-up cross-check (infrastructure only):
     every "wf" document is accepted by Python's expat with the same content, every "unbal" one is rejected.
  3. harness/drv_xml.cpp (ASan+UBSan, exact-size heap buffers) runs the pull, SAX and DOM interfaces and
     Parser::decodeEntities on every document: under the default limits, under limits at/around each well-formed
     document's measures, and on seeded byte-level mutations.
  4. The events are validated by TLC against spec/parsers/XmlBalanceTrace.tla: the stateful balance clause on the reported
     token stream (whatever the input), slice containment, limits, error offset, entity decoding judged by XmlText!Decode,
     agreement of the three interfaces, and for generated documents verdict / tokens / DOM against the model.
"""
import os, re, json, concurrent.futures as cf, threading, shutil
import xml.parsers.expat as expat
import vf

SPECDIR = os.path.join(vf.SPEC, "parsers")
DEFAULT_LIMITS = (256, 256, 1024, 1 << 20, 0)        # maxDepth maxAttrsPerElement maxNameLength maxTextSpan maxTotalTokens
TLC_SLOTS = threading.Semaphore(7)
DEVS = ["Dev_EndNoCompare", "Dev_EofNoCheck", "Dev_EndOnEmpty", "Dev_DepthAfter"]

STARTS = ["Sa", "Sb", "Sn", "Sl", "SaW", "Sa1", "Sa2", "Sa3", "Sa4", "Sa5", "Sa6", "Sa7", "SaNl"]
U = ["U%d" % i for i in range(1, 21)]
# name, alphabet, First (None = whole alphabet), (MaxLen, MaxDead) quick, thorough
CONFIGS = [
    ("balance", ["Sa", "Sb", "Ea", "Eb", "Ma", "Tx"], None, (5, 1), (7, 1)),
    ("names", ["Sa", "Sn", "Sl", "Ea", "En", "El", "EaW", "SaW", "MaW", "EaN", "SaNl"], None, (4, 1), (5, 1)),
    ("attrs", ["Sa1", "Sa2", "Sa3", "Sa4", "Sa5", "Ma1", "Mb2", "SaU", "SaD", "SaLt", "Sa6", "Ma6", "Sa7", "Ea", "Tx"], None, (3, 1), (4, 1)),
    ("textA", ["Sa", "Ea", "Tx", "Tsp", "Tnl", "Tlt", "Tgt", "Tamp", "Tq", "Tap", "TA", "Thx", "TE", "Temo"], ["Sa"], (4, 1), (5, 1)),
    ("textB", ["Sa", "Ea", "Tx", "Ty", "Ttab", "T9", "T7f", "T80", "T7ff", "T800", "Tfffd", "T10000", "T10ffff", "Traw", "Tgtraw", "Tquot"], ["Sa"], (4, 1), (5, 1)),
    ("textC", ["Sa", "Ea", "Tx", "Tund", "Tent", "Text", "Tbad", "Tsur", "T0", "T110000", "Tbig", "TX", "Tempty", "Tcdend", "D2", "D3"], ["Sa", "D2", "D3"], (4, 1), (4, 2)),
    # (the random trees get only the short padded forms: up to 12 adjacent text pieces merge into ONE token and XmlText!Decode /
    # HexOf recurse once per byte - a TLC simulation worker that overflows its stack dies silently and TLC waits for ever)
    # character references in non-shortest forms: leading zeros (up to 32 and 64 digits), hex digits of either case, the largest code
    # point in its longest spellings, next to other text and to a stray ';' (attribute values: Sa6 Ma6 Sa7 in "attrs")
    ("textD", ["Sa", "Ea", "Tx", "Tsp", "Tz4", "Tz8", "Tz8l", "Tzd8", "Tz41", "Tzmax", "Tzmaxl", "Tzdmax", "Tz32", "Tzd32", "Tz64", "Tzmix", "Tz0", "Tz110"],
     ["Sa"], (4, 1), (5, 1)),
    ("misc", ["Sa", "Ea", "Ma", "C1", "C0", "C2", "C3", "K1", "K0", "K2", "K3", "P1", "P0", "P2", "P3", "Tx", "Tsp"], None, (3, 1), (4, 1)),
    # terminator look-alikes directly before the real terminator (runs of "]" of either parity, "?" before "?>")
    ("terms", ["Sa", "Ea", "C2", "C4", "C5", "C6", "C7", "C8", "P4", "P5", "Tx"], None, (3, 1), (4, 1)),
    ("prolog", ["X1", "X2", "D1", "D2", "D3", "D4", "D5", "D6", "Sa", "Ea", "Tent", "Text", "Tsp", "K1", "P1"], None, (3, 1), (4, 1)),
    ("broken", ["Sa", "Ea", "Tx", "Sa1"] + U, None, (2, 2), (3, 3)),
    ("space", ["Sa", "Ea", "Sb", "Eb", "Tsp", "Tnl", "Tx", "Ttab"], None, (4, 1), (6, 1)),
]
TREE_ALPHABET = ["Sa", "Sb", "Sn", "Sl", "Ea", "Eb", "En", "El", "Ma", "Mb", "SaW", "EaW", "MaW", "Sa1", "Sa2", "Sa3", "Sa4", "Sa5",
                 "Ma1", "Mb2", "SaNl", "Tx", "Ty", "Tsp", "Tnl", "Tlt", "Tgt", "Tamp", "Tq", "Tap", "TA", "Thx", "TE", "Temo", "T9",
                 "T7ff", "T800", "T10000", "Tz8", "Tz8l", "Tzd8", "Tzmax", "Sa6", "Ma6", "Sa7", "Traw", "Tgtraw", "Tquot", "C1", "C0", "C2", "C3", "C4", "C5", "C7", "K1", "K0", "K2", "K3", "P1", "P0",
                 "P2", "P3", "P5", "X1", "X2", "D1", "D2", "D4", "Tent", "Tund"]
PLAIN = {"Sa", "Sb", "Ea", "Eb", "Ma", "Mb", "Tx", "Ty"}
FIELDS = ("cls", "xptoks", "xdtoks", "domcls", "dmax", "amax", "nameHi", "nameLo", "textHi", "textLo", "cntHi", "cntLo", "feat")


def tlc_twice(fn):
    """run a TLC job; if the JVM was killed from outside (rc 137/143: another job's clean-up, the OOM killer) run it once more"""
    r = fn()
    err = getattr(r, "error", None)
    if err and re.search(r"rc=(-9|-15|137|143)\b", err):
        r = fn()
    return r


def jvm(xmx):
    return {"JAVA_TOOL_OPTIONS": "-Xss256m -Xmx%s -DTLA-Library=%s -Dtlc2.tool.queue.IStateQueue=StateDeque" % (
        xmx, os.pathsep.join([os.path.join(vf.SPEC, "common"), SPECDIR]))}


class Case:
    __slots__ = ("lex", "bytes", "f", "cfg")

    def model(self):
        return dict(zip(FIELDS, self.f))

    @property
    def cls(self):
        return self.f[0]


# ------------------------------------------------------------------------------------------------ 1. XmlBalance
def check_balance_spec(ck, thorough):
    mod = os.path.join(SPECDIR, "XmlBalance.tla")
    invs = ["AcceptedIsBalanced", "AcceptedWithinDepth", "ReportedIsInput", "RejectedIsHopeless"]

    def cfg(name, maxlen, depth, dev=None):
        p = os.path.join(ck.work, "XmlBalance_%s.cfg" % name)
        c = {"Names": '{"a", "b"}', "MaxLen": maxlen, "MaxDepth": depth}
        for d in DEVS:
            c[d] = (d == dev)
        vf.write_cfg(p, constants=c, invariants=invs)
        return p
    r = ck.model_check(mod, cfg("mc", 8 if thorough else 6, 2), workers=4, coverage=True, lib_dirs=[SPECDIR])
    if r.violated:
        rp = ck.save_replay("XmlBalance_spec", {"tlc.out": r.out})
        ck.violation("XmlBalance.tla (the design of the element stack) violates %s" % r.violated, rp)
    for a in ("Start", "Empty", "End", "Other", "Eof"):
        if r.coverage.get(a, (0, 0))[0] == 0:
            raise vf.Infra("self-test: action %s of XmlBalance.tla never taken" % a)
    for d in DEVS:
        with TLC_SLOTS:
            rr = vf.run_tlc(mod, cfg(d, 5, 2, dev=d), tag="C14_" + d, workers=2, lib_dirs=[SPECDIR])
        if rr.error or not rr.violated:
            raise vf.Infra("self-test: XmlBalance.tla with %s = TRUE should violate an invariant (got %r %s)" % (d, rr.violated, rr.error))
        ck.states += rr.distinct
        ck.transitions += rr.generated


# ------------------------------------------------------------------------------------------------ 2. generator
def generate(ck, name, alphabet, first, maxlen, maxdead, only_matching=False, simulate=None, depth=None):
    d = os.path.join(ck.work, "gen_" + name)
    os.makedirs(d, exist_ok=True)
    out = os.path.join(d, "cases.csv")
    if os.path.exists(out):
        os.remove(out)
    with open(os.path.join(d, "MCXml.tla"), "w") as f:
        f.write("---- MODULE MCXml ----\nEXTENDS XmlDoc\nMCAlphabet == %s\nMCFirst == %s\n====\n" % (
            vf.tla(set(alphabet)), vf.tla(set(first or alphabet))))
    cfg = os.path.join(d, "MCXml.cfg")
    vf.write_cfg(cfg, constants={"Alphabet": "<- MCAlphabet", "First": "<- MCFirst", "MaxLen": maxlen, "MaxDead": maxdead,
                                 "OnlyMatchingEnds": only_matching, "OutFile": '"%s"' % out},
                 invariants=["TypeOK", "BalanceAgrees", "WfIsTree", "MeasuresOK", "CaseOut"])
    with TLC_SLOTS:
        r = tlc_twice(lambda: vf.run_tlc(os.path.join(d, "MCXml.tla"), cfg, tag="C14_gen_" + name, workers=2, lib_dirs=[SPECDIR],
                                         timeout=1500, xmx="4g", simulate=simulate, depth=depth, seed=ck.seed if simulate else None))
    if r.error:
        raise vf.Infra("TLC failed on XmlDoc (%s): %s" % (name, r.error))
    if r.violated:
        raise vf.Infra("XmlDoc.tla (%s) violates its own invariant %s:\n%s" % (name, r.violated, r.out[-3000:]))
    cases, seen = [], set()
    with open(out) as f:
        for ln in f:
            p = ln.rstrip("\n").split("|")
            if len(p) != 15:
                raise vf.Infra("malformed case line from TLC: " + ln[:200])
            c = Case()
            c.lex = " ".join(re.findall(r'"(\w+)"', p[0]))
            c.bytes = bytes(int(x) for x in re.findall(r"\d+", p[1]))
            if simulate:
                if c.bytes in seen:
                    continue
                seen.add(c.bytes)
            c.f = (p[2].strip('"'), p[3].strip('"'), p[4].strip('"'), p[5].strip('"')) + tuple(int(x) for x in p[6:14]) + (p[14].strip('"'),)
            c.cfg = name
            cases.append(c)
    os.remove(out)
    if not simulate and len(cases) != r.distinct:
        raise vf.Infra("generator %s: %d case lines for %d states" % (name, len(cases), r.distinct))
    return cases, r


HUGE = 1 << 30
# The documents are tiny (<= a few hundred bytes): a single allocation beyond 256 MB can only come from a limit VALUE used as
# a size.  ASan then stops the case at once (allocation-size-too-big, reported as abnormal termination) instead of mapping and
# poisoning tens of GB per worker.  On code that does not size allocations by the limits the cap is never reached; on code that
# does, the settings >= 2^57 of XmlLimits.tla fail on any machine (std::length_error / std::bad_alloc), cap or no cap.
ASAN = "detect_leaks=0:max_allocation_size_mb=256"


def generate_limits(ck):
    """the extreme settings of the five limits: all states of spec/parsers/XmlLimits.tla -> [(kind, (5 decimal strings), (5 ints the
    oracle compares with: exact below 2^30, 2^30 above))]"""
    d = os.path.join(ck.work, "gen_limits")
    os.makedirs(d, exist_ok=True)
    out = os.path.join(d, "limits.csv")
    if os.path.exists(out):
        os.remove(out)
    cfg = os.path.join(d, "XmlLimits.cfg")
    vf.write_cfg(cfg, constants={"OutFile": '"%s"' % out}, invariants=["TypeOK", "CaseOut"])
    with TLC_SLOTS:
        r = tlc_twice(lambda: vf.run_tlc(os.path.join(SPECDIR, "XmlLimits.tla"), cfg, tag="C14_gen_limits", workers=1, lib_dirs=[SPECDIR],
                                         timeout=600, coverage=True))
    if r.error or r.violated:
        raise vf.Infra("TLC failed on XmlLimits.tla: %s %s" % (r.violated, r.error))
    settings, nlines = {}, 0
    with open(out) as f:
        for ln in f:
            nlines += 1
            p = [x.strip('"') for x in ln.rstrip("\n").split("|")]
            if len(p) != 11:
                raise vf.Infra("malformed limit line from TLC: " + ln[:200])
            dec, ab = tuple(p[1:6]), tuple(int(x) for x in p[6:11])
            for a, b in zip(dec, ab):       # infrastructure: the clamp of the specification is the clamp of the driver
                if min(int(a), HUGE) != b:
                    raise vf.Infra("XmlLimits.tla: abs of %s is %d" % (a, b))
            settings.setdefault(dec, (p[0], dec, ab))
    os.remove(out)
    kinds = {k for k, _, _ in settings.values()}
    if nlines != r.distinct or len(settings) < 200 or not kinds >= {"one", "all", "allbutone"}:
        raise vf.Infra("XmlLimits.tla: %d settings for %d states, kinds %s" % (len(settings), r.distinct, sorted(kinds)))
    for a in ("One", "All", "AllButOne"):
        if r.coverage.get(a, (0, 0))[0] == 0:
            raise vf.Infra("self-test: action %s of XmlLimits.tla never taken" % a)
    ck.states += r.distinct
    ck.transitions += r.generated
    return sorted(settings.values())


# ------------------------------------------------------------------------------------------------ set-up cross-check
def expat_ref(bs):
    toks, cd, st = [], [], {"cdata": False}

    def flush():
        if cd:
            t = "".join(cd).encode("utf-8")
            del cd[:]
            if st["cdata"] or t.strip(b" \t\r\n"):
                toks.append(("C:" if st["cdata"] else "T:") + t.hex())

    def start(name, attrs):
        flush()
        toks.append("S:%s(%s)" % (name, ",".join("%s=%s" % (attrs[i], attrs[i + 1].encode("utf-8").hex()) for i in range(0, len(attrs), 2))))

    def end(name):
        flush()
        toks.append("E:" + name)

    def scd():
        flush()
        st["cdata"] = True

    def ecd():
        if not cd:
            toks.append("C:")
        flush()
        st["cdata"] = False
    p = expat.ParserCreate()
    p.ordered_attributes = True
    p.buffer_text = True
    p.StartElementHandler = start
    p.EndElementHandler = end
    p.CharacterDataHandler = lambda d: cd.append(d)
    p.StartCdataSectionHandler = scd
    p.EndCdataSectionHandler = ecd
    p.CommentHandler = lambda d: (flush(), toks.append("K:" + d.encode("utf-8").hex()))
    p.ProcessingInstructionHandler = lambda t, d: (flush(), toks.append("P:%s=%s" % (t, d.encode("utf-8").hex())))
    try:
        p.Parse(bs, True)
    except expat.ExpatError:
        return False, None
    flush()
    return True, ";".join(toks)


def cross_check(name, cases):
    for c in cases:
        cls, xp, xd, domcls = c.f[:4]
        if cls == "other":
            continue
        ok, toks = expat_ref(c.bytes)
        if cls == "unbal":
            good = not ok
        else:
            good = ok and (domcls != "yes" or toks == xd)
        if not good:
            raise vf.Infra("XmlDoc.tla disagrees with expat on %r (%s): spec %s %s, expat %s %s" % (c.bytes, c.lex, cls, xd, ok, toks))


# ------------------------------------------------------------------------------------------------ driver + oracle
def case_line(cid, flags, lim, bs):
    """lim: five limits, ints or decimal strings (size_t up to SIZE_MAX, see XmlLimits.tla)"""
    return "D %d %s %s %s %s %s %s %s" % (cid, flags or "-", lim[0], lim[1], lim[2], lim[3], lim[4], bs.hex() or "-")


def run_driver(ck, tag, lines):
    cpath = os.path.join(ck.work, tag + ".cases")
    opath = os.path.join(ck.work, tag + ".ndjson")
    with open(cpath, "w") as f:
        f.write("\n".join(lines) + "\n")
    rc, out = vf.run_driver("drv_xml.asan", ["run", cpath, opath, 2000, 12], timeout=1500,
                            env={"ASAN_OPTIONS": ASAN, "UBSAN_OPTIONS": "print_stacktrace=1"})
    if rc != 0 or not re.search(r"cases=\d+ crashed=\d+ hung=\d+", out):
        raise vf.Infra("drv_xml failed: " + out[-2000:])
    return opath


def merge_and_validate(ck, tag, opath, lines, meta, chunk=40000, cap=40):
    """attach the model's fields (and the limits) to the Api events, validate in chunks that end at document boundaries.
    returns (list of (doc id, event, why)), n_events, crashes"""
    chunks, cur, crashes, n, curid = [], [], [], 0, None
    with open(opath) as f:
        for ln in f:
            e = json.loads(ln)
            if e["e"] in ("Crashed", "Hung"):
                crashes.append((lines[e["k"]], e["e"]))
                # drop the partial document of the crashed case, if any
                while cur and cur[-1][1]["e"] != "Api":
                    cur.pop()
                continue
            if e["e"] == "Doc":
                if len(cur) >= chunk:
                    chunks.append(cur)
                    cur = []
                curid = e["id"]
            if e["e"] == "Api":
                m = meta.get(e["id"])
                if m is not None:
                    e.update(m)
            cur.append((curid, e))
            n += 1
    if cur:
        chunks.append(cur)
    os.remove(opath)
    shutil.rmtree(opath + ".d", ignore_errors=True)
    cfg = os.path.join(ck.work, "XmlBalanceTrace_%s.cfg" % tag)
    vf.write_cfg(cfg, constants={"Cap": cap}, invariants=["BadOut", "StackIsReduction", "TraceChk"], postcondition="Post")

    def one(job):
        i, evs = job
        bad, start = [], 0
        for rnd in range(4):
            if start >= len(evs):
                break
            tp = os.path.join(ck.work, "%s_%d_%d.trace" % (tag, i, rnd))
            with open(tp, "w") as f:
                for _, e in evs[start:]:
                    f.write(json.dumps(e) + "\n")
            with TLC_SLOTS:
                v = tlc_twice(lambda: vf.validate_trace(os.path.join(SPECDIR, "XmlBalanceTrace.tla"), cfg, tp, tag="C14_val_%s_%d" % (tag, i),
                                                        xmx="3g", timeout=1500, env=jvm("3g")))
            if v.error or v.violated:
                errs = [x for x in v.out.splitlines() if x.startswith("Error") or "Attempted" in x]
                raise vf.Infra("trace validation error (%s, trace kept: %s): %s %s\n%s" % (tag, tp, v.violated, "\n".join(errs[:12]), (v.error or "")[-600:]))
            os.remove(tp)
            for m in re.finditer(r'<<(\d+), \\"([^"\\]+)\\">>', "\n".join(x for x in v.out.splitlines() if "BADLINES" in x)):
                did, e = evs[start + int(m.group(1)) - 1]
                t = (did, e, m.group(2))
                if t not in bad:
                    bad.append(t)
            if v.accepted:
                break
            did, e = evs[start + v.maxl - 1]
            bad.append((did, e, "more than %d events break a clause in one chunk (first of the rest)" % cap))
            # continue with the next document
            j = start + v.maxl
            while j < len(evs) and evs[j][1]["e"] != "Doc":
                j += 1
            start = j
        return bad, len(evs)
    bad = []
    with cf.ThreadPoolExecutor(max_workers=8) as ex:
        for b, k in ex.map(one, list(enumerate(chunks))):
            bad += b
    return bad, n, crashes


def report(ck, tag, bad, crashes, lines, cases_by_id):
    acc = ck.__dict__.setdefault("_c14", {"bad": [], "crash": []})
    for did, e, why in bad:
        c = cases_by_id.get(did) if cases_by_id else None
        text = lines[did] if did is not None and did < len(lines) else "?"
        if c is not None:
            text += " | " + c.lex
        # the input class of the document says nothing about an exception caused by a limit value
        acc["bad"].append((tag, text, e, why, c.f[12] if c is not None and not why.startswith("an exception escaped") else ""))
    for line, kind in crashes:
        acc["crash"].append((tag, line, kind))


def final_report(ck):
    acc = ck.__dict__.get("_c14", {"bad": [], "crash": []})
    groups = {}
    for tag, text, e, why, feat in acc["bad"]:
        groups.setdefault((why, feat), []).append((tag, text, e))
    for (why, feat), items in sorted(groups.items()):
        if why.startswith("more than") and len(groups) > 1:
            ck.note("%s: %d" % (why, len(items)))      # the recorded events of the same chunks are reported below/above
            continue
        tags = sorted({t for t, _, _ in items})
        name = re.sub(r"\W+", "_", why + ("_" + feat if feat else ""))[:70]
        rp = ck.save_replay(name, {"events.json": [e for _, _, e in items[:300]],
                                   "why.txt": "%s (%d events; stages: %s; feature: %s)\n" % (why, len(items), ", ".join(tags), feat or "-"),
                                   "cases.txt": "\n".join(t for _, t, _ in items[:300]) + "\n"})
        sig = {"spec": "XmlBalanceTrace", "clause": why}
        if feat:
            sig["feature"] = feat       # input class computed by XmlDoc.tla (field feat of the lexeme table)
        ck.classify(sig, "%s%s — %d event(s) in %s, e.g. %s" % (why, " [input class: %s]" % feat if feat else "", len(items),
                                                               ", ".join(tags), "; ".join(t for _, t, _ in items[:3])), rp)
    crashes = acc["crash"]
    if crashes:
        confirmed = []
        for tag, line, kind in crashes[:5]:
            cp = os.path.join(ck.work, "crash1.cases")
            op = os.path.join(ck.work, "crash1.ndjson")
            w = line.split("|")[0].split()
            w[1] = "0"
            open(cp, "w").write(" ".join(w) + "\n")
            vf.run_driver("drv_xml.asan", ["run", cp, op, 1, 1], timeout=120, env={"ASAN_OPTIONS": ASAN})
            again = any(json.loads(x)["e"] in ("Crashed", "Hung") for x in open(op))
            ep = op + ".d/w0.err"
            err = open(ep, errors="replace").read()[:6000] if os.path.exists(ep) else ""
            if again:
                confirmed.append((line, kind, err))
        if not confirmed:
            raise vf.Infra("%d crash(es)/hang(s) of the driver did not repeat when re-run alone: %s" % (len(crashes), crashes[0][1]))
        line, kind, err = confirmed[0]
        m = re.search(r"SUMMARY: (.*)", err)
        rp = ck.save_replay("sanitizer_or_hang", {"cases.txt": "\n".join(l for _, l, _ in crashes[:300]) + "\n", "sanitizer.txt": err})
        abnormal = kind == "Crashed" and re.search(r"allocation-size-too-big|out-of-memory|terminate called|requested allocation size", err)
        ck.classify({"spec": "XmlBalanceTrace", "clause": "abnormal termination (allocation failure / uncaught exception)" if abnormal
                     else "undefined behaviour" if kind == "Crashed" else "termination"},
                    "%s on %d document(s) in %s, e.g. hex %s: %s" % (
                        "sanitizer abort / crash" if kind == "Crashed" else "parser does not return", len(crashes),
                        ", ".join(sorted({t for t, _, _ in crashes})), line.split("|")[0].split()[-1], m.group(1) if m else "see sanitizer.txt"), rp)


def mutate(rng, bs):
    pool = b"<>/=\"'&;#x!-[]? \n\tabn:1AX\x00\xff\xc3"
    b = bytearray(bs)
    for _ in range(rng.choice((1, 1, 2, 3))):
        op = rng.randrange(7)
        i = rng.randrange(len(b) + 1)
        if op == 0 and b:
            del b[min(i, len(b) - 1)]
        elif op == 1:
            b.insert(i, rng.choice(pool))
        elif op == 2 and b:
            b[min(i, len(b) - 1)] = rng.choice(pool)
        elif op == 3 and b:
            j = min(i, len(b) - 1)
            b.insert(j, b[j])
        elif op == 4:
            b = b[:i]
        elif op == 5 and len(b) >= 2:
            j = min(i, len(b) - 2)
            b[j], b[j + 1] = b[j + 1], b[j]
        elif op == 6 and len(b) >= 4:       # move a slice (e.g. an end tag) elsewhere
            j = rng.randrange(len(b) - 2)
            k = min(len(b), j + rng.randrange(2, 6))
            seg = b[j:k]
            del b[j:k]
            p = rng.randrange(len(b) + 1)
            b[p:p] = seg
    return bytes(b)


def interesting(c):
    return c.cls != "wf" or any(x not in PLAIN for x in c.lex.split()) or c.f[4] >= 2


# ------------------------------------------------------------------------------------------------ the check
def run(ck):
    thorough = ck.tier == "thorough"
    ck.make("drv_xml.asan")
    ck.rule = ("cases = ALL states of XmlDoc.tla per token-lexeme alphabet (every lexeme sequence up to MaxLen, at most MaxDead after "
               "the first mismatching end tag) + random trees drawn by TLC in simulation mode; expected class / tokens / DOM / "
               "measures by XmlDoc.tla (values decoded by XmlText!Decode). Plus limit settings at/around each well-formed document's "
               "measures and seeded byte-level mutations, whose reported token streams are validated by the stateful "
               "XmlBalanceTrace.tla. A case is non-trivial when it is not well-formed, nests >= 2 deep, or contains a lexeme beyond "
               "plain <a> <b> x (attributes, references, CDATA, comments, PIs, prolog, white space, truncated constructs)")
    check_balance_spec(ck, thorough)
    pool, stats, nontrivial = [], {"cases": 0, "wf": 0, "unbal": 0, "other": 0}, set()
    lock = threading.Lock()

    def pipeline(conf):
        name, alphabet, first, q, t = conf[:5]
        extra = conf[5] if len(conf) > 5 else {}
        maxlen, maxdead = t if thorough else q
        cases, r = generate(ck, name, alphabet, first, maxlen, maxdead, **extra)
        ncls = {"wf": 0, "unbal": 0, "other": 0}
        used = set()
        for c in cases:
            ncls[c.cls] += 1
            used.update(c.lex.split())
        if ncls["wf"] == 0 or (ncls["unbal"] == 0 and not extra) or ncls["other"] == 0:
            raise vf.Infra("generator %s is vacuous: %s" % (name, ncls))
        if not extra and used != set(alphabet):
            raise vf.Infra("self-test: Emit never taken for lexemes %s in %s" % (sorted(set(alphabet) - used), name))
        cross_check(name, cases)
        lines, meta = [], {}
        for i, c in enumerate(cases):
            lines.append(case_line(i, "", DEFAULT_LIMITS, c.bytes))
            m = c.model()
            m.update(ld=DEFAULT_LIMITS[0], la=DEFAULT_LIMITS[1], ln=DEFAULT_LIMITS[2], lt=DEFAULT_LIMITS[3], lk=DEFAULT_LIMITS[4])
            meta[i] = m
        opath = run_driver(ck, "gen_" + name, lines)
        bad, n, crashes = merge_and_validate(ck, "gen_" + name, opath, lines, meta)
        with lock:
            ck.states += r.distinct
            ck.transitions += r.generated
            ck.cov["Emit[%s]" % name] = max(r.generated - 1, len(cases))
            ck.evaluations += n
            ck.traces += len(cases)
            for k in ncls:
                stats[k] += ncls[k]
            stats["cases"] += len(cases)
            for c in cases:
                if interesting(c):
                    nontrivial.add(c.bytes)
            pool.extend(c for c in cases if c.cls != "other" or len(c.bytes) < 24)
            ck.note("alphabet %s (%d lexemes, MaxLen %d, MaxDead %d%s): %d documents %s, %d events, %d rejected, %d crashed/hung; TLC %.0fs" % (
                name, len(alphabet), maxlen, maxdead, ", simulation" if extra else "", len(cases), ncls, n, len(bad), len(crashes), r.wall))
            ex = [c for c in cases if c.cls == "wf" and interesting(c)][-1:] + [c for c in cases if c.cls == "unbal"][-1:]
            for c in ex[:1 if len(ck.samples) > 3 else 2]:
                ck.sample({"alphabet": name, "lexemes": c.lex, "document": c.bytes.decode("utf-8", "replace"), "class": c.cls,
                           "tokens": c.f[1], "dom": c.f[2]})
        report(ck, "gen_" + name, bad, crashes, lines, dict(enumerate(cases)))
        return name

    trees = ("randomtrees", TREE_ALPHABET, STARTS + ["X1", "X2", "D1", "D2", "K1", "P1", "Tsp"], (14, 1), (18, 1),
             dict(only_matching=True, simulate="num=%d" % (3000 if thorough else 500), depth=19 if thorough else 15))
    with cf.ThreadPoolExecutor(max_workers=5) as ex:
        list(ex.map(pipeline, CONFIGS + [trees]))
    ck.exhaustive = True
    ck.assumptions.append("bounds: token sequences up to MaxLen per alphabet (quick 2-5, thorough 3-7 lexemes) exhaustively, random trees up "
                          "to 14/18 lexemes; names are ASCII (the parser's supported subset); attribute-value and line-end normalisation "
                          "are not exercised (no TAB/LF in attribute values, no CR)")

    # ---------------------------------------------------------------- derived: limits and byte mutations
    rng = ck.rng
    seen, docs = set(), []
    for c in sorted(pool, key=lambda c: (len(c.bytes), c.bytes)):
        if c.bytes not in seen:
            seen.add(c.bytes)
            docs.append(c)
    lines, meta, by_id = [], {}, {}

    def add(flags, lim, c, with_model, seen_as=None):
        """lim: what the parser is given; seen_as: the same limits as the oracle compares them (XmlLimits.tla: abs)"""
        i = len(lines)
        lines.append(case_line(i, flags, lim, c.bytes if isinstance(c, Case) else c))
        if with_model:
            m = c.model()
            lim = seen_as or lim
            m.update(ld=lim[0], la=lim[1], ln=lim[2], lt=lim[3], lk=lim[4])
            meta[i] = m
            by_id[i] = c
    wf = [c for c in docs if c.cls == "wf"]
    lim_src = wf if thorough and len(wf) <= 12000 else rng.sample(wf, min(len(wf), 12000 if thorough else 1500))
    nlim = 0
    D = DEFAULT_LIMITS
    for c in lim_src:
        _, _, _, _, dmax, amax, nhi, nlo, thi, tlo, chi, clo, _ = c.f
        variants = set()
        for x in (dmax - 1, dmax, dmax + 1):
            variants.add((x, D[1], D[2], D[3], D[4]))
        if amax >= 1:
            for x in (amax - 1, amax, amax + 1):
                variants.add((D[0], x, D[2], D[3], D[4]))
        for x in {nlo - 1, nlo, nhi, nhi + 1}:
            variants.add((D[0], D[1], x, D[3], D[4]))
        if thi >= 1:
            for x in {tlo - 1, tlo, thi, thi + 1}:
                if x >= 0:
                    variants.add((D[0], D[1], D[2], x, D[4]))
        for x in {clo - 1, clo, chi - 1, chi, chi + 1}:
            if x >= 1:
                variants.add((D[0], D[1], D[2], D[3], x))
        for lim in sorted(variants):
            if min(lim) >= 0:
                add("", lim, c, True)
                nlim += 1
    # extreme settings of every limit (all states of XmlLimits.tla: 0, 1, 2^31, 2^32, 2^57..2^63, SIZE_MAX ...; one limit at a time,
    # all five, all but one) on one document of every shape - incl. documents that do not use the limited feature at all
    settings = generate_limits(ck)
    shapes = {}
    for c in rng.sample(wf, len(wf)):
        dmax, amax, thi = c.f[4], c.f[5], c.f[8]
        kinds = frozenset(t[0] for t in c.f[1].split(";") if t)
        prolog = any(x[0] in "XD" for x in c.lex.split())
        shapes.setdefault((min(dmax, 3), min(amax, 3), thi > 0, kinds, prolog, c.f[12]), c)
    shape_docs = sorted(shapes.values(), key=lambda c: (c.cfg, len(c.bytes), c.bytes))
    keep = 160 if thorough else 36
    if len(shape_docs) > keep:
        # the plainest shapes always (no attribute / no text / no nesting: the limited feature is not used), the rest at random
        plain = [c for c in shape_docs if c.f[5] == 0 or c.f[8] == 0][:keep // 3]
        rest = [c for c in shape_docs if c not in plain]
        shape_docs = plain + rng.sample(rest, keep - len(plain))
    if not any(c.f[5] == 0 for c in shape_docs) or not any(c.f[5] >= 2 for c in shape_docs) or not any(c.f[8] == 0 for c in shape_docs) \
            or not any(c.f[8] > 0 for c in shape_docs) or not any(c.f[4] >= 2 for c in shape_docs):
        raise vf.Infra("extreme limits: the documents do not cover the shapes (with/without attributes, text, nesting)")
    next_ = 0
    for c in shape_docs:
        for kind, dec, ab in settings:
            add("", dec, c, True, seen_as=ab)
            next_ += 1
    nlim += next_
    ck.cov["XmlLimits"] = len(settings)
    ck.note("extreme limits: %d settings of XmlLimits.tla (%d with a value >= 2^30) x %d documents of distinct shapes" % (
        len(settings), sum(1 for _, _, ab in settings if max(ab) >= HUGE), len(shape_docs)))
    nmut = 60000 if thorough else 8000
    src = [c for c in docs if c.cls in ("wf", "unbal") and 3 <= len(c.bytes) <= 120]
    if not src:
        raise vf.Infra("no documents to mutate")
    muts = set()
    while len(muts) < nmut:
        m = mutate(rng, rng.choice(src).bytes)
        if len(m) <= 160:
            muts.add(m)
    for m in sorted(muts):
        add("m", DEFAULT_LIMITS, m, False)
        nontrivial.add(m)
    # a few mutants under tight limits as well
    for m in rng.sample(sorted(muts), min(len(muts), 4000 if thorough else 800)):
        add("m", (rng.randrange(0, 4), rng.randrange(0, 3), rng.randrange(0, 5), rng.randrange(0, 8), rng.randrange(0, 6)), m, False)
    opath = run_driver(ck, "derived", lines)
    bad, n, crashes = merge_and_validate(ck, "derived", opath, lines, meta)
    ck.evaluations += n
    ck.traces += len(lines)
    ck.note("derived: %d limit settings on %d well-formed documents, %d mutated documents (+%d under tight limits): %d events, %d rejected, %d crashed/hung" % (
        nlim, len(lim_src), len(muts), len(lines) - nlim - len(muts), n, len(bad), len(crashes)))
    report(ck, "derived", bad, crashes, lines, by_id)
    ck.sample({"kind": "limit case", "line": lines[0], "model": meta.get(0)})
    ck.sample({"kind": "mutated document", "line": lines[nlim] if nlim < len(lines) else ""})
    ck.nontrivial = len(nontrivial)
    ck.note("total: %d generated documents (%d well-formed, %d unbalanced, %d other), %d distinct non-trivial inputs" % (
        stats["cases"], stats["wf"], stats["unbal"], stats["other"], len(nontrivial)))
    final_report(ck)
    selftest(ck, docs)


def selftest(ck, docs):
    """corrupted observations must be rejected; observations synthesised from the model must be accepted (independent of
    the code under test)"""
    L = dict(ld=256, la=256, ln=1024, lt=1 << 20, lk=0)
    wf = [c for c in docs if c.cls == "wf" and c.f[3] == "yes" and c.f[1]][:12]
    unb = [c for c in docs if c.cls == "unbal"][:4]
    if len(wf) < 6 or not unb:
        raise vf.Infra("self-test: not enough documents")

    def api(c, **over):
        m = c.model()
        e = dict(e="Api", id=0, n=len(c.bytes), off=0, pok=True, ptoks=m["xptoks"], sok=True, stoks=m["xptoks"], dok=True, dtoks=m["xdtoks"],
                 pdtoks=m["xdtoks"], decok=True, expanded=False, exc="")
        e.update(m); e.update(L); e.update(over)
        return e

    def doc(toks, ok=True, off=0, n=20, **lim):
        d = dict(e="Doc", id=0, n=n); d.update(L); d.update(lim)
        evs = [d]
        for k, name in toks:
            evs.append(dict(e="Tok", k=k, name=name, na=0, nl=len(name), tl=0))
            evs[-1]["in"] = True
        evs.append(dict(e="End", ok=ok, off=off))
        return evs
    good, corrupt = [], []
    for c in wf[:6]:
        good.append([api(c)])
        corrupt.append([api(c, pok=False, sok=False, dok=False, ptoks="", stoks="", dtoks="", pdtoks="")])   # wf rejected
        corrupt.append([api(c, ptoks=c.f[1] + ";T:78", stoks=c.f[1] + ";T:78")])                             # other tokens
        corrupt.append([api(c, stoks="")])                                                                   # SAX differs
        corrupt.append([api(c, dtoks=c.f[2] + ";T:78", pdtoks=c.f[2] + ";T:78")])                            # DOM differs from model
        corrupt.append([api(c, expanded=True)])
        corrupt.append([api(c, ld=c.f[4] - 1)])                                                              # accepted beyond depth
        corrupt.append([api(c, dok=False, dtoks="", exc="dom:std::length_error")])                           # an exception escaped
        good.append([api(c, ld=HUGE, la=HUGE, ln=HUGE, lt=HUGE, lk=HUGE)])                                   # "no limit" everywhere
        corrupt.append([api(c, ld=HUGE, la=HUGE, ln=HUGE, lt=HUGE, lk=HUGE, pok=False, sok=False, dok=False,
                            ptoks="", stoks="", dtoks="", pdtoks="")])                                       # rejected under huge limits
    for c in unb:
        good.append([api(c, pok=False, sok=False, dok=False, ptoks="", stoks="", dtoks="", pdtoks="", off=1)])
        corrupt.append([api(c, ptoks="", stoks="", dtoks="", pdtoks="")])                                    # unbalanced accepted
    good.append(doc([("S", "a"), ("S", "b"), ("E", "b"), ("M", "c"), ("E", "a")]))
    good.append(doc([("S", "a"), ("E", "b")], ok=False, off=7))
    corrupt.append(doc([("S", "a"), ("E", "b")]))                       # mismatch accepted
    corrupt.append(doc([("S", "a")]))                                   # unclosed accepted
    corrupt.append(doc([("E", "a")]))                                   # end without start accepted
    corrupt.append(doc([("S", "a"), ("S", "b"), ("E", "b"), ("E", "a")], ld=1))   # beyond depth accepted
    corrupt.append(doc([("S", "a"), ("E", "a")], lk=1))                 # beyond token limit accepted
    corrupt.append(doc([("S", "a")], ok=False, off=21))                 # offset outside
    thrown = doc([("S", "a")], ok=False, off=0, la=HUGE); thrown[-1]["exc"] = "pull:std::bad_alloc"
    corrupt.append(thrown)                                              # next() threw
    quiet = doc([("S", "a"), ("E", "a")], la=HUGE, ld=HUGE); quiet[-1]["exc"] = ""
    good.append(quiet)
    bad_in = doc([("S", "a"), ("E", "a")]); bad_in[1]["in"] = False
    corrupt.append(bad_in)
    good.append([dict(e="Dec", raw=list(b"a&lt;&#x20AC;"), ok=True, out=list("a<€".encode()))])
    good.append([dict(e="Dec", raw=list(b"&#x0001F4a9;&#00008364;;"), ok=True, out=list("\U0001F4A9\u20ac;".encode()))])
    corrupt.append([dict(e="Dec", raw=list(b"&#x0001F4A9;"), ok=False, out=[])])            # padded reference not decoded
    corrupt.append([dict(e="Dec", raw=list(b"&#0000000065;"), ok=True, out=list(b"B"))])
    good.append([dict(e="Dec", raw=list(b"&foo;"), ok=False, out=[])])
    corrupt.append([dict(e="Dec", raw=list(b"&gt;"), ok=True, out=list(b"<"))])
    corrupt.append([dict(e="Dec", raw=list(b"&#65;"), ok=False, out=[])])
    corrupt.append([dict(e="Dec", raw=list(b"&foo;"), ok=True, out=list(b"XPND"))])

    def val(name, groups):
        tp = os.path.join(ck.work, name + ".trace")
        with open(tp, "w") as f:
            for g in groups:
                for e in g:
                    f.write(json.dumps(e) + "\n")
        cfg = os.path.join(ck.work, name + ".cfg")
        vf.write_cfg(cfg, constants={"Cap": 1000}, invariants=["BadOut", "StackIsReduction", "TraceChk"], postcondition="Post")
        with TLC_SLOTS:
            v = vf.validate_trace(os.path.join(SPECDIR, "XmlBalanceTrace.tla"), cfg, tp, tag="C14_self_" + name, xmx="2g", env=jvm("2g"))
        if v.error or v.violated:
            raise vf.Infra("self-test validation error: %s %s" % (v.violated, v.error))
        return v.accepted, len(set(re.findall(r'<<(\d+), \\"', "\n".join(x for x in v.out.splitlines() if "BADLINES" in x))))
    acc, nbad = val("self_good", good)
    if not acc or nbad:
        raise vf.Infra("self-test: synthesised correct observations are not accepted (%s, %d bad)" % (acc, nbad))
    acc, nbad = val("self_corrupt", corrupt)
    if nbad != len(corrupt):
        raise vf.Infra("self-test: %d of %d corrupted executions were NOT rejected by XmlBalanceTrace.tla" % (len(corrupt) - nbad, len(corrupt)))
    ck.note("self-tests: %d corrupted executions rejected, %d correct ones accepted, %d Dev_* flags of XmlBalance.tla seen" % (
        len(corrupt), len(good), len(DEVS)))


def replay(ck, path):
    """re-run the saved case lines against the current tree and judge them again (the document-level expectation of a
    generated case is taken from the saved event)"""
    ck.make("drv_xml.asan")
    lines, meta = [], {}
    evp = os.path.join(path, "events.json")
    saved = json.load(open(evp)) if os.path.exists(evp) else []
    for k, ln in enumerate(open(os.path.join(path, "cases.txt"))):
        ln = ln.split("|")[0].strip()
        if not ln or ln == "?":
            continue
        w = ln.split()
        w[1] = str(len(lines))
        w[2] = "m"
        # the generator's expectation travels with the saved event (same order as cases.txt)
        if k < len(saved) and "cls" in saved[k]:
            meta[len(lines)] = {f: saved[k][f] for f in FIELDS + ("ld", "la", "ln", "lt", "lk") if f in saved[k]}
        lines.append(" ".join(w))
    opath = run_driver(ck, "replay", lines)
    print(open(opath).read()[:4000])
    bad, n, crashes = merge_and_validate(ck, "replay", opath, lines, meta)
    ck.evaluations += n
    report(ck, "replay", bad, crashes, lines, {})
    final_report(ck)
