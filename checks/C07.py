"""C07 — TLS sessions authenticate the peer as configured and never downgrade.

  1. TLC checks spec/transport/TlsPolicy.tla exhaustively: the state is one configuration tuple (role, via, TLS requested /
     configured, peer kind, verifyPeer / requireClientCert, trust anchor, server / client certificate, by-name, protocol
     ceilings, configured minimum, security level); one step decides the session the way tcp_engine.hpp does (one action per
     decision branch).  With every Dev_* flag FALSE the code's policy must stay within the property's policy
     (ImplWithinAbs) and every tuple must be decided by exactly one branch.  Each Dev_* flag set TRUE on its own must
     violate ImplWithinAbs (the specification can see each deviation).
  2. The enumeration is the test plan: TLC prints every tuple with the predicted outcome.  thorough: every tuple; quick:
     every tuple of the small families, every decision branch, an all-pairs cover of the dimensions and a seeded sample.
  3. harness/drv_tls.cpp realises each tuple in a forked child on the real engine (Transport connect / connectSync /
     Transport listener, HttpClient, HttpServer) against an OpenSSL (or plaintext / garbage) peer with certificates generated through
     libcrypto, a relay in the middle reading the wire; one ndjson event per tuple (configuration + observables).
  4. TLC validates the events against spec/transport/TlsPolicyTrace.tla (Abs = the property only).  A tuple consumed by a
     named deviation action is classified through its signature (KNOWN-FINDING only if listed as known); any other
     rejected tuple is a violation.  Both are re-run before they are reported.
     URL rows: HttpClient with the scheme in every letter case, with and without a port (default ports 443 / 80 on a
     private loopback address, both listened on), against a peer that answers TLS and clear text alike: an https URL in
     any letter case must end in TLS or be refused before a byte is sent.  Time rows: the peer's leaf is issued at run time
     around a validity boundary that is crossed on a virtual clock (the driver defines time(), which libcrypto's validity
     check resolves to; a per-tuple canary asks libcrypto itself); a NEW connection after the boundary through an engine
     object started before it is judged at its own time.
  5. Observed outcomes are compared with the Impl prediction (with the deviations observed in this run switched on):
     differences are model drift (noted, never an alarm); a decision branch predicted to admit that never admits on the
     code is an infrastructure error (the run would be vacuous).
"""
import os, json, re, concurrent.futures as cf
import vf

SPECDIR = os.path.join(vf.SPEC, "transport")
POLICY = os.path.join(SPECDIR, "TlsPolicy.tla")
TRACE = os.path.join(SPECDIR, "TlsPolicyTrace.tla")
TRACE_CFG = os.path.join(SPECDIR, "TlsPolicyTrace.cfg")
TRACE_COLLECT_CFG = os.path.join(SPECDIR, "TlsPolicyTraceCollect.cfg")

DEVS = ["Dev_NoHostnameCheck_Transport", "Dev_NoHostnameCheck_HttpClient", "Dev_PlaintextFallbackWhenTlsNotEnabled",
        "Dev_ClientCertRequestedNotRequired", "Dev_NoVersionFloor", "Dev_HttpSchemeCaseDowngrade",
        "Dev_VerifyClockFrozenAtStart"]
STR_F = ["role", "via", "peerKind", "anchor", "serverCert", "clientCert", "scheme", "port", "certLife", "when", "transport"]
BOOL_F = ["tlsRequested", "tlsEnabled", "verify", "requireClientCert", "byName", "lax"]
INT_F = ["clientMax", "serverMax", "engineMin"]
FIELDS = STR_F + BOOL_F + INT_F
ADMIT_BRANCHES = ["ConnectPlainByRequest", "ConnectHandshakeOk", "ListenPlainByRequest", "AcceptHandshakeOk"]


def special(g):
    """the URL-scheme / default-port rows and the time rows: few, always run"""
    return g["certLife"] != "Static" or g["port"] == "default" or g["scheme"] not in ("-", "https", "http")
QUICK_TUPLES = 1500


# ------------------------------------------------------------------------------------------------ TLC: the matrix
def policy_cfg(ck, name, flags, emit):
    p = os.path.join(ck.work, name + ".cfg")
    invs = ["ImplWithinAbs", "Decided"] + (["Emit"] if emit else [])
    vf.write_cfg(p, constants={d: (d in flags) for d in DEVS}, invariants=invs)
    return p


def parse_plan(r):
    cases = []
    for ln in r.prints:
        if not ln.startswith('"{'):
            continue
        try:
            cases.append(json.loads(json.loads(ln)))
        except Exception:
            raise vf.Infra("cannot parse plan line printed by TLC: " + ln[:200])
    return cases


def key_of(cfg):
    return tuple(cfg[f] for f in FIELDS)


def enumerate_matrix(ck, flags, tag, count=True):
    cfg = policy_cfg(ck, tag, flags, emit=True)
    r = vf.run_tlc(POLICY, cfg, tag="C07_" + tag, workers=1, coverage=True, lib_dirs=[SPECDIR])
    if r.error:
        raise vf.Infra("TLC error on TlsPolicy.tla (%s): %s" % (tag, r.error))
    if count:
        ck.states += r.distinct
        ck.transitions += r.generated
        for a, (tk, gn) in r.coverage.items():
            ck.cov[a] = ck.cov.get(a, 0) + gn
        ck.note("TLC TlsPolicy.tla [%s]: %s" % (tag, r.summary()))
    return r, parse_plan(r)


# ------------------------------------------------------------------------------------------------ selection (quick)
def select_quick(ck, plan):
    rng = ck.rng
    chosen = {}

    def take(i):
        chosen[i] = True
    by_branch = {}
    for i, c in enumerate(plan):
        by_branch.setdefault(c["pred"]["branch"], []).append(i)
    # every tuple of the small families (everything that is not the big handshake sub-matrix)
    for i, c in enumerate(plan):
        g = c["cfg"]
        big = g["tlsRequested"] and g["tlsEnabled"] and g["peerKind"] == "TLS" and g["serverCert"] not in ("Expired", "KeyMismatch") \
            if g["role"] == "Server" else g["tlsRequested"] and g["tlsEnabled"] and g["peerKind"] == "TLS"
        if not big or g["via"] == "HttpServer" or special(g):
            take(i)
    # the cells the clauses of the property single out, at the default version settings
    for i, c in enumerate(plan):
        g = c["cfg"]
        if g["engineMin"] == 0 and not g["lax"] and g["clientMax"] == 13 and g["serverMax"] in (12, 13):
            take(i)
    for b, idx in by_branch.items():
        for i in rng.sample(idx, min(12, len(idx))):
            take(i)
    # all pairs of (dimension = value) that occur in the matrix
    def pairs(g):
        vals = [(f, g[f]) for f in FIELDS]
        return [(vals[a], vals[b]) for a in range(len(vals)) for b in range(a + 1, len(vals))]
    need = set()
    for c in plan:
        need.update(pairs(c["cfg"]))
    for i in chosen:
        need.difference_update(pairs(plan[i]["cfg"]))
    total_pairs = len(need)
    idx_all = list(range(len(plan)))
    while need:
        best, best_gain = None, 0
        for i in rng.sample(idx_all, 250):
            if i in chosen:
                continue
            gain = sum(1 for p in pairs(plan[i]["cfg"]) if p in need)
            if gain > best_gain:
                best, best_gain = i, gain
        if best is None:
            # finish deterministically: take a tuple that holds some missing pair
            p = next(iter(need))
            best = next(i for i in idx_all if p in pairs(plan[i]["cfg"]))
        take(best)
        need.difference_update(pairs(plan[best]["cfg"]))
    rest = [i for i in idx_all if i not in chosen]
    rng.shuffle(rest)
    for i in rest[:max(0, QUICK_TUPLES - len(chosen))]:
        take(i)
    ck.note("quick selection: %d of %d tuples (all pairs of dimension values covered; %d pairs needed the greedy cover)" % (
        len(chosen), len(plan), total_pairs))
    return sorted(chosen)


# ------------------------------------------------------------------------------------------------ driver
def case_line(cid, g, variant):
    parts = [str(cid)]
    for f in STR_F:
        parts.append("%s=%s" % (f, g[f]))
    for f in BOOL_F:
        parts.append("%s=%d" % (f, 1 if g[f] else 0))
    for f in INT_F:
        parts.append("%s=%d" % (f, g[f]))
    parts.append("variant=%d" % variant)
    return " ".join(parts)


def run_driver(ck, lines, tag):
    """lines: case lines -> {id: event} ; children that crashed / were killed are returned in `bad`"""
    cp = os.path.join(ck.work, tag + ".cases")
    op = os.path.join(ck.work, tag + ".ndjson")
    with open(cp, "w") as f:
        f.write("\n".join(lines) + "\n")
    rc, out = vf.run_driver("drv_tls", ["run", cp, op, min(16, vf.NCPU), os.path.join(vf.BUILD, "certs")],
                            timeout=1500)
    if rc != 0:
        raise vf.Infra("drv_tls failed (rc=%d): %s" % (rc, out[-1500:]))
    events, bad = {}, []
    ids = [int(l.split()[0]) for l in lines]
    execs = vf.split_executions(vf.read_ndjson(op))
    if len(execs) < len(ids):
        execs += [(0, [])] * (len(ids) - len(execs))
    for cid, (start, evs) in zip(ids, execs):
        t = [e for e in evs if e.get("e") == "Tuple"]
        if t and not [e for e in evs if e.get("e") in ("Crashed", "HarnessTimeout")]:
            events[cid] = t[0]
        else:
            bad.append(cid)
    return events, bad


def write_trace(path, evs):
    with open(path, "w") as f:
        for e in evs:
            f.write(json.dumps(e) + "\n")
            f.write('{"e":"Reset"}\n')


def validate(ck, events, tag, strict=False):
    """events: list of Tuple events.  returns (devs {id: deviation}, rejected [id]).
    batch mode (Collect = TRUE): one pass names every offending line; strict: the trace is rejected at the first one"""
    devs, rejected = {}, []
    if not events:
        return devs, rejected
    tp = os.path.join(ck.work, "%s.ndjson" % tag)
    write_trace(tp, events)
    v = ck.validate(TRACE, TRACE_CFG if strict else TRACE_COLLECT_CFG, tp, n_exec=len(events))

    def ev_of(line):
        if line % 2 != 1 or (line - 1) // 2 >= len(events):
            raise vf.Infra("trace validation of %s names an unexpected line %d" % (tag, line))
        return events[(line - 1) // 2]
    for m in re.finditer(r'<<"DEV", (\d+), "(\w+)">>', v.out):
        devs[ev_of(int(m.group(1)))["id"]] = m.group(2)
    for m in re.finditer(r'<<"REJECT", (\d+)>>', v.out):
        i = ev_of(int(m.group(1)))["id"]
        if i not in rejected:
            rejected.append(i)
    if not v.accepted:
        if not strict:
            raise vf.Infra("batch validation of %s did not consume the trace (stopped at line %d)" % (tag, v.maxl))
        rejected.append(ev_of(v.maxl)["id"])
    return devs, rejected


def signature(dev, e):
    if dev == "Dev_NoHostnameCheck":
        return {"spec": "TlsPolicyTrace", "deviation": dev, "serverCert": e["serverCert"], "byName": e["byName"],
                "via": e["via"]}
    if dev == "Dev_PlaintextFallbackWhenTlsNotEnabled":
        return {"spec": "TlsPolicyTrace", "deviation": dev, "role": e["role"], "tlsRequested": e["tlsRequested"],
                "tlsEnabled": e["tlsEnabled"]}
    if dev == "Dev_ClientCertRequestedNotRequired":
        return {"spec": "TlsPolicyTrace", "deviation": dev, "requireClientCert": e["requireClientCert"],
                "clientCert": e["clientCert"]}
    return {"spec": "TlsPolicyTrace", "deviation": dev}


def observed(e):
    return dict(started=e["started"], admitted=bool(e["announced"] or e["appOut"] or e["appIn"]),
                clear=bool(e["clearOut"] or e["engineFirst"] == "clear"), ver=e["peerVer"])


def brief(e):
    return {k: e[k] for k in FIELDS + ["started", "announced", "appOut", "appIn", "clearOut", "engineFirst", "peerHs",
                                       "peerVer", "warm", "canary", "closeMsg", "peerErr", "startErr"] if k in e}


def nontrivial(e):
    peer_max = e["serverMax"] if e["role"] == "Client" else e["clientMax"]
    return e["tlsRequested"] and (e["verify"] or e["requireClientCert"] or e["peerKind"] != "TLS" or not e["tlsEnabled"]
                                  or peer_max < 12 or e["engineMin"] != 0 or e["lax"] or e["serverCert"] == "KeyMismatch"
                                  or special(e))


# ------------------------------------------------------------------------------------------------ the check
def run(ck):
    thorough = ck.tier == "thorough"
    ck.rule = ("cases = the reachable initial states of TlsPolicy.tla (the pruned configuration matrix: engine as client via "
               "Transport connect / connectSync / HttpClient and as server via a Transport listener / HttpServer x TLS requested / configured x peer kind x "
               "verifyPeer / requireClientCert x trust anchor x server certificate x client certificate x by-name x peer "
               "protocol ceiling TLS 1.0-1.3 x configured minimum x security level; HttpClient URL scheme in every letter case x "
               "explicit / default port; peer certificate expiring / becoming valid at a boundary x connection before / after it x "
               "fresh / long-lived engine object), enumerated by TLC; thorough runs every "
               "tuple on the real engine, quick runs the small families, the default-version cells, every decision branch, "
               "an all-pairs cover and a seeded sample; a tuple is non-trivial when TLS is requested and some clause of the "
               "property beyond that has a true antecedent (verification on, client certificates required, non-TLS peer, "
               "no TLS context, a version limit below the default, a peer without the private key)")
    ck.assumptions = ["OpenSSL's chain building, signature verification and version negotiation are trusted",
                      "this system's OpenSSL (3.0.x, default security level 2) negotiates TLS 1.0/1.1 only when the cipher "
                      "string lowers the security level to 0; the tuples with lax = TRUE configure exactly that on the engine",
                      "the validity boundary of the time rows is crossed on a virtual clock: time() is defined in the driver "
                      "executable and libcrypto's X509 validity check resolves to it (verified per tuple by a canary that "
                      "asks X509_verify_cert itself); real time plays no part in any verdict"]
    with cf.ThreadPoolExecutor(max_workers=8) as ex:
        build = ex.submit(ck.make, "drv_tls")
        # ---- 1. the matrix, all deviations off
        r, plan = enumerate_matrix(ck, [], "mc")
        if r.violated:
            rp = ck.save_replay("impl_spec", {"tlc.out": r.out})
            ck.violation("TlsPolicy.tla with every Dev_* flag FALSE violates %s" % r.violated, rp)
            build.result()
            return
        if not r.ok:
            raise vf.Infra("TLC did not finish on TlsPolicy.tla")
        if len(plan) * 2 != r.distinct or len({key_of(c["cfg"]) for c in plan}) != len(plan):
            raise vf.Infra("plan has %d tuples for %d states: a tuple is decided by no branch or by two" % (len(plan), r.distinct))
        for a, (tk, gn) in r.coverage.items():
            if a in ("Init",):
                continue
            if a.startswith("Dev_") and tk != 0:
                raise vf.Infra("self-test: deviation action %s taken although its flag is FALSE" % a)
            if not a.startswith("Dev_") and tk == 0:
                raise vf.Infra("self-test: Impl action %s never taken - the matrix has no tuple of that class" % a)
        # ---- self-test: every deviation flag on its own must break ImplWithinAbs
        def probe(d):
            cfg = policy_cfg(ck, "probe_" + d, [d], emit=False)
            return d, vf.run_tlc(POLICY, cfg, tag="C07_probe", workers=1, lib_dirs=[SPECDIR])
        for d, pr in ex.map(probe, DEVS):
            if pr.violated != "ImplWithinAbs":
                raise vf.Infra("self-test: TlsPolicy.tla with %s = TRUE should violate ImplWithinAbs, got %r %s" % (
                    d, pr.violated, pr.error))
            ck.states += pr.distinct
            ck.transitions += pr.generated
        ck.note("self-test: each of %d Dev_* flags set TRUE alone violates ImplWithinAbs" % len(DEVS))
        build.result()
    # ---- 2. selection
    sel = list(range(len(plan))) if thorough else select_quick(ck, plan)
    ck.exhaustive = thorough
    variants = {i: ck.rng.randrange(1000) for i in sel}
    # `variant` picks the garbage blob (5 kinds) and the way "no TLS context" is configured (2 ways): run those tuples once
    # per kind as well (copies of the plan entry with ids behind the matrix)
    for i in list(sel):
        g = plan[i]["cfg"]
        if g["peerKind"] == "Garbage" or (g["tlsRequested"] and not g["tlsEnabled"]):
            for v in range(5 if thorough else 2):
                plan.append(plan[i])
                variants[len(plan) - 1] = v
                sel.append(len(plan) - 1)
    lines = {i: case_line(i, plan[i]["cfg"], variants[i]) for i in sel}
    # ---- 3. run on the code
    events, bad = run_driver(ck, [lines[i] for i in sel], "run")
    ck.evaluations += len(sel)
    again = bad + [i for i, e in events.items() if e["timeout"]]
    if again:
        ev2, bad2 = run_driver(ck, [lines[i] for i in again], "rerun_inconclusive")
        events.update(ev2)
        if bad2:
            ck.note("%d tuple(s) crashed or hung the child twice (not judged): %s" % (
                len(bad2), [lines[i] for i in bad2[:3]]))
            if len(bad2) > max(3, len(sel) // 100):
                raise vf.Infra("too many tuples crash or hang the driver child: %d" % len(bad2))
    ck.note("tuples run on the code: %d (%d re-run after running into the driver's deadline or a child crash%s)" % (
        len(events), len(again), (", e.g. [%s]" % lines[again[0]]) if again else ""))
    void_tuples(ck, plan, lines, events)
    # ---- 4. the oracle
    judge(ck, plan, lines, events, "main")
    # ---- 5. oracle self-test, drift and vacuity (a violation already found is never hidden behind an infrastructure error)
    try:
        self_test_oracle(ck, plan, events)
        drift(ck, plan, lines, events)
    except vf.Infra as ex:
        if not ck.violations:
            raise
        ck.note("after the violation(s): %s" % ex)
    ck.nontrivial = len({key_of(e) for e in events.values() if nontrivial(e)})
    shown = set()
    for i in sorted(events):
        b = plan[i]["pred"]["branch"]
        if b not in shown and len(shown) < 6 and b not in ("ConnectVersionRefused", "ListenStartFails"):
            shown.add(b)
            ck.sample({"case": lines[i], "predicted": plan[i]["pred"], "observed": observed(events[i])})


def void_tuples(ck, plan, lines, events):
    """tuples the driver could not set up as intended are not judged: the virtual clock did not steer libcrypto (canary), or a
    listening socket could not be bound (default ports).  A void time row is an infrastructure error (the whole time
    dimension would be vacuous); unbindable default ports are an environment limit, noted and counted."""
    void = [i for i, e in events.items() if not e.get("canary", True) or not e.get("realised", True)]
    if void:
        ev2, _ = run_driver(ck, [lines[i] for i in void], "rerun_void")
        events.update(ev2)
    bad_canary = [i for i, e in events.items() if not e.get("canary", True)]
    if bad_canary:
        raise vf.Infra("the virtual clock (time() defined in the driver) does not steer libcrypto's certificate validity check "
                       "on this system: %d time row(s) void, e.g. [%s]" % (len(bad_canary), lines[bad_canary[0]]))
    unreal = [i for i, e in events.items() if not e.get("realised", True)]
    for i in unreal:
        del events[i]
    if unreal:
        ck.note("%d tuple(s) could not be set up in this environment and were not judged (default ports not bindable?), e.g. [%s]"
                % (len(unreal), lines[unreal[0]]))
        if len(unreal) > 40:
            raise vf.Infra("too many tuples cannot be set up: %d" % len(unreal))
    # the long-lived rows are only meaningful if the connection before the boundary really took place
    reused = [i for i, e in events.items() if e["transport"] == "Reused" and e["certLife"] == "ExpiresLater"
              and plan[i]["pred"]["started"]]
    cold = [i for i in reused if not events[i]["warm"]]
    if reused and len(cold) * 10 > len(reused):
        raise vf.Infra("vacuity: %d of %d long-lived rows had no admitted connection before the boundary, e.g. [%s]" % (
            len(cold), len(reused), lines[cold[0]]))
    ck.time_rows = len([i for i, e in events.items() if e["certLife"] != "Static"])
    ck.url_rows = len([i for i, e in events.items() if e["via"] == "HttpClient" and (e["port"] == "default" or e["scheme"] not in ("https", "http"))])
    if ck.time_rows == 0 or ck.url_rows == 0:
        raise vf.Infra("vacuity: no time row / URL row was run (%d / %d)" % (ck.time_rows, ck.url_rows))
    ck.note("time rows run: %d, URL scheme / default-port rows run: %d" % (ck.time_rows, ck.url_rows))


def judge(ck, plan, lines, events, tag):
    order = sorted(events)
    devs, rejected = validate(ck, [events[i] for i in order], tag)
    suspects = sorted(set(devs) | set(rejected))
    if not suspects:
        return
    # re-run before reporting anything
    ev2, bad2 = run_driver(ck, [lines[i] for i in suspects], tag + "_confirm")
    devs2, rejected2 = validate(ck, [ev2[i] for i in sorted(ev2)], tag + "_confirm")
    flaky = [i for i in suspects if i not in devs2 and i not in rejected2]
    if flaky:
        ck.note("%d tuple(s) were rejected once and accepted on the re-run (not reported): %s" % (
            len(flaky), [lines[i] for i in flaky[:3]]))
    groups = {}
    for i in sorted(devs2):
        if i in devs and devs[i] == devs2[i]:
            sig = signature(devs2[i], ev2[i])
            groups.setdefault(json.dumps(sig, sort_keys=True), []).append(i)
    ck.devs_seen = getattr(ck, "devs_seen", set())
    for sk, ids in groups.items():
        sig = json.loads(sk)
        ck.devs_seen.add((sig["deviation"], ev2[ids[0]]["via"]))
        i = ids[0]
        what = "%s: %d tuple(s) consumed by the deviation action, e.g. [%s] observed %s" % (
            sig["deviation"], len(ids), lines[i], json.dumps(observed(ev2[i])))
        rp = ck.save_replay("%s_%s_%d" % (tag, sig["deviation"], i), {
            "case.txt": lines[i] + "\n", "event.json": ev2[i], "signature.json": sig,
            "all_cases.txt": "\n".join(lines[j] for j in ids) + "\n"})
        ck.classify(sig, what, rp)
    n = 0
    for i in sorted(rejected2):
        if i not in rejected and i not in devs:
            continue
        n += 1
        if n > 5:
            continue
        _, strict_rej = validate(ck, [ev2[i]], "%s_strict_%d" % (tag, i), strict=True)
        if strict_rej != [i]:
            raise vf.Infra("the strict oracle accepts tuple %d which the batch mode named as rejected" % i)
        rp = ck.save_replay("%s_reject_%d" % (tag, i), {
            "case.txt": lines[i] + "\n", "event.json": ev2[i],
            "why.txt": "TlsPolicyTrace.tla (Abs) does not admit this outcome for this configuration:\n%s\npredicted by the Impl "
                       "specification: %s\n" % (json.dumps(brief(ev2[i]), indent=1), json.dumps(plan[i]["pred"]))})
        ck.violation("configuration [%s]: observed %s is outside the property's policy" % (
            lines[i], json.dumps(observed(ev2[i]))), rp)
    if n > 5:
        ck.note("%d further rejected tuples not listed" % (n - 5))


def self_test_oracle(ck, plan, events):
    """corrupted events must be rejected by the oracle (and not be swallowed by a deviation action)"""
    def pick(pred):
        for i in sorted(events):
            if pred(events[i]):
                return dict(events[i])
        return None
    muts = []
    e = pick(lambda e: e["tlsRequested"] and e["role"] == "Client" and e["verify"] and e["anchor"] == "WrongCA" and e["peerKind"] == "TLS")
    if e:
        e["announced"] = True
        muts.append(("admitted with the wrong trust anchor", e))
    e = pick(lambda e: e["tlsRequested"] and e["tlsEnabled"] and e["peerKind"] == "TLS" and e["peerVer"] >= 12)
    if e:
        e["peerVer"] = 11
        muts.append(("negotiated TLS 1.1", e))
    e = pick(lambda e: e["tlsRequested"] and e["tlsEnabled"] and e["peerKind"] == "TLS" and e["announced"])
    if e:
        e["clearOut"] = True
        muts.append(("application bytes in clear on a TLS session", e))
    e = pick(lambda e: e["role"] == "Server" and e["requireClientCert"] and e["clientCert"] == "Untrusted" and e["anchor"] == "RightCA"
             and e["tlsEnabled"] and e["peerKind"] == "TLS")
    if e:
        e["appIn"] = True
        muts.append(("server application received data from a client with an untrusted certificate", e))
    e = pick(lambda e: e["tlsRequested"] and e["tlsEnabled"] and e["peerKind"] != "TLS")
    if e:
        e["announced"] = True
        muts.append(("announced with a non-TLS peer", e))
    e = pick(lambda e: e["certLife"] == "ExpiresLater" and e["when"] == "After" and e["verify"] and e["role"] == "Client")
    if e:
        e["announced"] = True
        muts.append(("admitted after the certificate expired", e))
    e = pick(lambda e: e["via"] == "HttpClient" and e["scheme"] in ("HTTPS", "Https", "hTTps"))
    if e:
        e["engineFirst"] = "clear"
        muts.append(("an https URL in another letter case answered in clear text", e))
    if len(muts) < 6:
        raise vf.Infra("self-test: not enough tuple classes in this run to corrupt (%d)" % len(muts))
    for what, e in muts:
        tp = os.path.join(ck.work, "selftest.ndjson")
        write_trace(tp, [e])
        v = vf.validate_trace(TRACE, TRACE_CFG, tp, tag="C07_selftest")
        if v.error:
            raise vf.Infra("self-test validation error: " + v.error)
        if v.accepted:
            raise vf.Infra("self-test: the oracle accepted a corrupted event (%s)" % what)
    ck.note("self-test: %d corrupted events rejected by TlsPolicyTrace.tla" % len(muts))


def drift(ck, plan, lines, events):
    seen = getattr(ck, "devs_seen", set())
    flags = []
    for dev, via in seen:
        if dev == "Dev_NoHostnameCheck":
            flags.append("Dev_NoHostnameCheck_HttpClient" if via == "HttpClient" else "Dev_NoHostnameCheck_Transport")
        elif dev in DEVS:
            flags.append(dev)
    flags = sorted(set(flags))
    pred = {i: plan[i]["pred"] for i in events}
    if flags:
        cfgp = policy_cfg(ck, "probed", flags, emit=True)
        # the invariant ImplWithinAbs is expected to fail with deviations on: enumerate without it
        vf.write_cfg(cfgp, constants={d: (d in flags) for d in DEVS}, invariants=["Decided", "Emit"])
        r = vf.run_tlc(POLICY, cfgp, tag="C07_probed", workers=1, lib_dirs=[SPECDIR])
        if r.error or not r.ok:
            raise vf.Infra("TLC error on TlsPolicy.tla with the probed flags: %s" % r.error)
        bykey = {key_of(c["cfg"]): c["pred"] for c in parse_plan(r)}
        pred = {i: bykey[key_of(plan[i]["cfg"])] for i in events}
        ck.note("deviation flags observed on the code in this run: %s" % flags)

    def diffs(evs):
        d = []
        for i, e in evs.items():
            o, p = observed(e), pred[i]
            f = [k for k in ("started", "admitted", "clear", "ver") if o[k] != p[k]]
            if f:
                d.append((i, f))
        return d
    d = diffs(events)
    if d:
        ev2, _ = run_driver(ck, [lines[i] for i, _ in d], "rerun_drift")
        events.update(ev2)
        d = diffs({i: events[i] for i, _ in d if i in events})
    by = {}
    for i, f in d:
        by.setdefault((pred[i]["branch"], ",".join(f)), []).append(i)
    for (b, f), ids in sorted(by.items()):
        ck.note("model drift: %d tuple(s) predicted by %s differ in %s, e.g. [%s] observed %s" % (
            len(ids), b, f, lines[ids[0]], json.dumps(observed(events[ids[0]]))))
    ck.model_drift = len(d)
    ck.note("model drift: %d of %d tuples differ from the Impl prediction" % (len(d), len(events)))
    # vacuity: the admitting branches must really admit on the code
    for b in ADMIT_BRANCHES:
        ids = [i for i in events if pred[i]["branch"] == b]
        ok = [i for i in ids if observed(events[i])["admitted"]]
        if ids and len(ok) * 10 < len(ids) * 9:
            raise vf.Infra("vacuity: branch %s admits in the model but only %d of %d tuples were admitted by the code "
                           "(environment problem or the engine refuses everything)" % (b, len(ok), len(ids)))
        if not ids and b in ("ConnectHandshakeOk", "AcceptHandshakeOk"):
            raise vf.Infra("vacuity: no tuple of branch %s was run" % b)


def replay(ck, path):
    """re-run one saved tuple against the current tree and judge it again"""
    ck.make("drv_tls")
    line = open(os.path.join(path, "case.txt")).read().strip().splitlines()[0]
    cid = int(line.split()[0])
    events, bad = run_driver(ck, [line], "replay")
    if bad:
        raise vf.Infra("the child crashed or hung on the replayed tuple")
    e = events[cid]
    print(json.dumps(brief(e), indent=1))
    devs, rejected = validate(ck, [e], "replay", strict=True)
    ck.evaluations += 1
    if cid in devs:
        ck.classify(signature(devs[cid], e), "%s on [%s] observed %s" % (devs[cid], line, json.dumps(observed(e))), path)
    elif rejected:
        ck.violation("configuration [%s]: observed %s is outside the property's policy" % (line, json.dumps(observed(e))), path)
