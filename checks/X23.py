"""X23 (extra, beyond the listed properties; not registered in MANIFEST.json) — iora::core::MetricsRegistry / Counter / Gauge /
Histogram (include/iora/core/metrics.hpp): get-or-create yields ONE series per (name, label set) however registrations race
and whatever the label order; the exported totals equal what was recorded (no lost update) under any interleaving of
recorders and snapshots; histogram buckets follow 'le' (v == bound belongs to that bucket), boundaries are sorted, exported
counts are cumulative; a type conflict / the maxSeries limit throw and change nothing.

  1. spec/extra/Metrics.tla (Impl: fast path / slow path / atomic record / read as separate actions; 2 threads, 2 names) is
     model-checked exhaustively (maxSeries 2 and maxSeries 1); every Dev_* flag must make TLC report a violation (self-test)
     and its counterexample becomes a directed probe.
  2. The state graphs (2 registry operations) are dumped; behaviours sampled from them are replayed on the real registry at
     critical-section grain under the deterministic scheduler, the same programs and concatenations of three of them run
     under seeded random schedules, and a preemption-bounded DFS explores fixed programs (racing first registrations).
  3. Every recorded execution - including a final snapshotJson() after the recorders - is judged by
     spec/extra/MetricsTrace.tla (Abs: name -> series state; lookup / update / read instants searched by TLC)."""
import os, json
import vf
from checks import xcore_common as xc

SPECDIR = xc.SPECDIR
TRACE = os.path.join(SPECDIR, "MetricsTrace.tla")
TRACE_CFG = os.path.join(SPECDIR, "MetricsTrace.cfg")
ACTIONS = ["FastCS", "SlowCS", "Apply", "ReadCS"]
DEVS = {"Dev_NoRecheck": "OneSeriesPerKey", "Dev_BucketLT": "BucketLe", "Dev_NotCumulative": "Cumulative",
        "Dev_LimitOffByOne": "LimitRespected", "Dev_LabelOrder": "OneSeriesPerKey", "Dev_NoTypeCheck": "TypeStable",
        "Dev_CounterIntOnly": "Conservation"}
INVS = ["OneSeriesPerKey", "BucketLe", "Cumulative", "TypeStable", "LimitRespected", "Conservation"]
DRV = "drv_s_metrics"
DEFS = "MCBounds == <<1, 3>>"


def consts(max_ops, max_series=2, devs=()):
    c = {"Procs": {"a", "b"}, "Keys": {1, 2}, "MaxSeries": max_series, "Bounds": "<- MCBounds", "MaxOps": max_ops, "MaxObjs": 4}
    for d in DEVS:
        c[d] = d in devs
    return c


def to_case(labels):
    """(action, args) list of a Metrics.tla behaviour -> (thread programs, critical-section-grain replay plan, [(t, op)])"""
    prog = {"a": [], "b": []}
    plan = ["main*"]
    order = []
    for act, a in labels:
        t = a[0]
        if act == "FastCS":
            op, k, lo, v = a[1], a[2], a[3], a[4]
            prog[t].append("%s:%d:%d:%d" % (op, k, v, lo)); plan += [t + "*rwunlock", t]; order.append((t, op))
        elif act == "SlowCS":
            plan += [t + "*rwunlock", t]
        elif act == "Apply":
            plan += [t + "*point:call"]   # the atomic record follows the lookup without a synchronisation operation
        elif act == "ReadCS":
            prog[t].append("rd"); plan += [t + "*rwunlock", t + "*point:call"]; order.append((t, "rd"))
        else:
            raise vf.Infra("unknown action label " + act)
    return prog, plan, order


def prog_text(prog):
    return ";".join("%s=%s" % (t, ",".join(o)) for t, o in prog.items() if o)


def ev(**kw):
    return json.dumps(kw, separators=(",", ":"))


def selftests():
    B = ev(e="Begin", max=2)
    call = lambda t, op, k=0, v=0: ev(e="Call", t=t, op=op, k=k, v=v, lo=0)
    ret = lambda t, op, r: ev(e="Ret", t=t, op=op, r=r)
    rd = lambda t, series: [ev(e="Call", t=t, op="rd")] + series + [ev(e="Ret", t=t, op="rd", n=len(series))]
    hist = lambda t, k, b, s, n: ev(e="Series", t=t, k=k, ty="hist", le=[1, 3, 1000000], b=b, sum=s, n=n)
    cnt = lambda t, k, v: ev(e="Series", t=t, k=k, ty="counter", v=v)
    return {
        "lost update": [B, call("a", "c", 1, 2), ret("a", "c", "ok"), call("b", "c", 1, 1), ret("b", "c", "ok")] + rd("main", [cnt("main", 1, 2)]),
        "value equal to a bound counted one bucket up": [B, call("a", "h", 1, 1), ret("a", "h", "ok")] + rd("main", [hist("main", 1, [0, 1, 1], 1, 1)]),
        "bucket counts not cumulative": [B, call("a", "h", 1, 2), ret("a", "h", "ok")] + rd("main", [hist("main", 1, [0, 1, 0], 2, 1)]),
        "series beyond maxSeries": [ev(e="Begin", max=1), call("a", "c", 1, 1), ret("a", "c", "ok"), call("a", "g", 2, 1), ret("a", "g", "ok")],
        "type conflict ignored": [B, call("a", "c", 1, 1), ret("a", "c", "ok"), call("a", "g", 1, 4), ret("a", "g", "ok")],
        "series missing from the export": [B, call("a", "c", 1, 1), ret("a", "c", "ok"), call("a", "g", 2, 4), ret("a", "g", "ok")] + rd("main", [cnt("main", 1, 1)]),
        "boundaries not sorted": [B, call("a", "h", 1, 2), ret("a", "h", "ok")] + rd("main", [ev(e="Series", t="main", k=1, ty="hist", le=[3, 1, 1000000], b=[1, 1, 1], sum=2, n=1)]),
    }


def run(ck):
    thorough = ck.tier == "thorough"
    ck.make(DRV)
    ck.rule = ("MetricsRegistry: behaviours of the TLC state graphs of Metrics.tla replayed at critical-section grain on the real "
               "registry + the same programs and concatenations under random schedules + preemption-bounded DFS; every execution "
               "ends with snapshotJson() after the recorders; non-trivial = distinct event sequences with two threads inside "
               "registry operations at once")
    # ---------------------------------------------------------------- 1. model checking + self-tests
    jobs = {}
    t, c = xc.write_mc(ck, "MCMet", "Metrics", consts(4 if thorough else 3), INVS, defs=DEFS)
    jobs["mc"] = dict(module_path=t, cfg_path=c, workers=4, coverage=True, timeout=1500)
    t, c = xc.write_mc(ck, "MCMetLimit", "Metrics", consts(3, max_series=1), INVS, defs=DEFS)
    jobs["mc_limit"] = dict(module_path=t, cfg_path=c, workers=2, coverage=True, timeout=1500)
    dots = {}
    for ms in (2, 1):
        dots[ms] = os.path.join(ck.work, "g%d.dot" % ms)
        t, c = xc.write_mc(ck, "GenMet%d" % ms, "Metrics", consts(2, max_series=ms), INVS, defs=DEFS)
        jobs["gen%d" % ms] = dict(module_path=t, cfg_path=c, workers=2, dump_dot=dots[ms])
    for d in DEVS:
        t, c = xc.write_mc(ck, "MC_" + d, "Metrics", consts(3, max_series=1 if d == "Dev_LimitOffByOne" else 2, devs=[d]), INVS, defs=DEFS)
        jobs[d] = dict(module_path=t, cfg_path=c, workers=1, dump_trace=os.path.join(ck.work, d + ".json"))
    res = xc.tlc_many(jobs, max_parallel=4)
    for k in ("mc", "mc_limit", "gen2", "gen1"):
        r = res[k]
        if r.error:
            raise vf.Infra("TLC %s: %s" % (k, r.error))
        xc.account(ck, r, "" if k == "mc" else k + ".")
        ck.note("Metrics.tla %s: %s" % (k, r.summary()))
        if r.violated:
            ck.violation("Metrics.tla (%s) violates %s" % (k, r.violated), ck.save_replay("impl_" + k, {"tlc.out": r.out[-20000:]}))
            return
    xc.require_actions(ck, res["mc"], ACTIONS, "Metrics.tla")
    xc.require_actions(ck, res["mc_limit"], ACTIONS, "Metrics.tla (maxSeries 1)")
    ck.exhaustive = True
    probes = []
    for d, inv in DEVS.items():
        r = res[d]
        if r.violated != inv:
            raise vf.Infra("self-test: Metrics.tla with %s should violate %s, got %r %s" % (d, inv, r.violated, (r.error or "")[-500:]))
        probes.append((d, xc.cex_labels(r), 1 if d == "Dev_LimitOffByOne" else 2))
    ck.note("self-test: %d deviation flags each violate their invariant" % len(DEVS))
    # ---------------------------------------------------------------- 2. behaviours -> the real registry
    lines, kinds, orders = [], [], []

    def add(line, kind, order=None):
        lines.append(line); kinds.append(kind); orders.append(order)
    for name, labs, ms in probes:
        prog, plan, order = to_case(labs)
        add("%d | %s | replay %s" % (ms, prog_text(prog), " ".join(plan)), "probe:" + name)
        add("%d | %s;b=rd | replay %s" % (ms, prog_text(prog), " ".join(plan)) if not prog["b"] else
            "%d | %s | random %d" % (ms, prog_text(prog), ck.seed), "probe2:" + name)
    for ms in (2, 1):
        g = vf.Graph.load(dots[ms])
        os.remove(dots[ms])
        paths, covered, total = g.transition_cover(ck.rng, maxlen=40, limit=(900 if thorough else 220) // (3 - ms))
        walks = g.random_walks(ck.rng, (400 if thorough else 80) // (3 - ms), maxlen=40)
        ck.note("state graph (maxSeries %d): %d nodes, %d edges; %d cover behaviours (%d edges) + %d random walks" % (
            ms, len(g.nodes), total, len(paths), covered, len(walks)))
        hist = []
        for i, p in enumerate(paths + walks):
            prog, plan, order = to_case(xc.graph_labels(p))
            if not any(prog.values()):
                continue
            add("%d | %s | replay %s" % (ms, prog_text(prog), " ".join(plan)), "replay", order)
            hist.append(prog)
            if i % 2 == 0:
                add("%d | %s | random %d" % (ms, prog_text(prog), ck.seed * 31 + i), "random")
            if len(hist) >= 3 and i % 2 == 1:   # three behaviours one after the other, random schedule, limit 2 or 3
                cat = {t: hist[-3].get(t, []) + hist[-2].get(t, []) + hist[-1].get(t, []) for t in ("a", "b")}
                add("%d | %s | random %d" % (ck.rng.choice([ms, ms + 1]), prog_text(cat), ck.seed * 37 + i), "long")
    outp = xc.run_driver_cases(ck, DRV, lines, "met")
    dfs_progs = ["2 | a=c:1:2:0,h:2:1,rd;b=c:1:1:1,h:2:3,g:1:4",
                 "1 | a=h:1:3,cd:2:1,h:1:0;b=h:1:1,rd,gi:2:2"]
    dfs_outs = []
    for k, dp in enumerate(dfs_progs):
        dfs_out = os.path.join(ck.work, "dfs%d.ndjson" % k)
        rc, out = vf.run_driver(DRV, ["dfs", dp, 2, 2500 if thorough else 400, dfs_out, 12], timeout=900)
        if rc != 0:
            raise vf.Infra(DRV + " dfs failed: " + out[-1000:])
        ck.note("dfs (preemption bound 2) '%s': %s" % (dp, out.strip().splitlines()[-1]))
        dfs_outs.append(dfs_out)
    allp = os.path.join(ck.work, "all.ndjson")
    with open(allp, "w") as f:
        f.write(open(outp).read())
        for d in dfs_outs:
            f.write(open(d).read())
    raw = open(allp).read().splitlines()
    execs = xc.exec_texts(allp)
    ck.evaluations += len(execs)
    case_of = lambda x: lines[x] if x < len(lines) else "dfs"
    if any('"e":"Crashed"' in x or '"e":"HarnessTimeout"' in x for x in raw):
        x = next(i for i, e in enumerate(execs) if any('"Crashed"' in y or '"HarnessTimeout"' in y for y in e))
        ck.violation("metrics execution crashed or hung (%s)" % case_of(x),
                     ck.save_replay("crash", {"trace.ndjson": "\n".join(execs[x]) + "\n", "case.txt": case_of(x) + "\n"}))
        return
    nrep = drift = 0
    for i, k in enumerate(kinds):
        if k != "replay":
            continue
        nrep += 1
        got = [(e["t"], e["op"]) for e in (json.loads(y) for y in execs[i]) if e["e"] == "Call" and e["t"] != "main"]
        if got != orders[i]:
            drift += 1
    ck.note("replayed %d TLC behaviours at critical-section grain, %d drifted" % (nrep, drift))

    def concurrent(e):
        depth = 0
        for y in e:
            if '"e":"Call"' in y: depth += 1
            elif '"e":"Ret"' in y: depth -= 1
            if depth >= 2: return True
        return False
    ck.nontrivial = len({"\n".join(e) for e in execs if concurrent(e)})
    first = 2 * len(probes)
    ck.sample({"kind": "metrics behaviour (TLC) replayed", "case": lines[first], "events": [json.loads(x) for x in execs[first][:12]]})
    # ---------------------------------------------------------------- 3. the oracle
    ok, bad, obs = xc.validate_sharded(ck, TRACE, TRACE_CFG, allp, nshards=6 if thorough else 4)
    if not ok:
        x = bad["exec"]
        rp = ck.save_replay("reject_%d" % x, {"trace.ndjson": "\n".join(execs[x]) + "\n", "case.txt": case_of(x) + "\n"})
        ck.violation("metrics execution rejected by MetricsTrace.tla at %s (%s)" % (json.dumps(bad["event"]), case_of(x)), rp)
        return
    if drift > nrep // 10:
        raise vf.Infra("too many replays drifted (%d of %d): the plan mapping no longer matches the code's synchronisation" % (drift, nrep))
    if ck.nontrivial < 50:
        raise vf.Infra("only %d executions with two threads inside the registry" % ck.nontrivial)
    nlimit = sum(1 for y in raw if '"r":"limit"' in y)
    nconf = sum(1 for y in raw if '"r":"conflict"' in y)
    nhist = sum(1 for y in raw if '"ty":"hist"' in y)
    if min(nlimit, nconf, nhist) == 0:
        raise vf.Infra("vacuous: limit=%d conflict=%d histogram exports=%d" % (nlimit, nconf, nhist))
    ck.note("results seen on the code: %d 'limit', %d 'conflict', %d histogram exports" % (nlimit, nconf, nhist))
    st = selftests()
    for what, evs in st.items():
        xc.must_reject(ck, TRACE, TRACE_CFG, "\n".join(evs) + "\n", what)
    ck.note("oracle self-test: %d corrupted executions are rejected (%s)" % (len(st), "; ".join(st)))


def replay(ck, path):
    run(ck)
