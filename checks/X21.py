"""X21 (extra, beyond the listed properties; not registered in MANIFEST.json) - iora::util::ExpiringCache
(include/iora/util/expiring_cache.hpp): a TTL cache under one mutex with a purge thread and eviction notices.

  1. spec/extra/ExpiringCache.tla (Impl: callers that read the clock before / under the lock, purge thread = timed wait, scan
     under the lock, notices after the unlock; destructor = stop flag, notify, join) is model-checked exhaustively (2 threads,
     2 keys, ttl 1, time 0..2, 4 calls); every Dev_* flag must make TLC report its invariant (Dev_PurgeStrict: none - the two
     boundary comparisons are independent).
  2. Programs (2-3 threads: set / get / remove / size interleaved with sleeps around the expiry instants and the purge ticks,
     with and without an eviction callback, custom TTLs) run on the real class under the deterministic scheduler in VIRTUAL
     time (seeded random schedules; earliest-deadline-first, so a purge tick that is due runs before later sleeps end).
  3. TLC validates every recorded execution against spec/extra/CacheTrace.tla (linearizability w.r.t. the map with absolute
     expiry; the purge as a silent step; eviction notices owed exactly once, delivered before the call / the destructor returns;
     what expired more than a purge period before a quiet size() is gone).  Corrupted traces must be rejected.
"""
import os, json, random, concurrent.futures as cf
import vf

SPECDIR = os.path.join(vf.SPEC, "extra")
IMPL = os.path.join(SPECDIR, "ExpiringCache.tla")
INVS = ["NoStaleHit", "NoticeOnlyOwed", "NoLiveEvicted", "NoNoticeUnderLock", "NothingAfterDtor", "AllNoticed"]
DEVS = {"Dev_GetBoundary": ("NoStaleHit",), "Dev_PurgeStrict": (None,), "Dev_PurgeEvictsLive": ("NoLiveEvicted", "NoticeOnlyOwed"),
        "Dev_OverwriteNotifies": ("NoticeOnlyOwed",), "Dev_NoticeUnderLock": ("NoNoticeUnderLock",),
        "Dev_DtorNoJoin": ("NothingAfterDtor", "AllNoticed"), "Dev_RemoveSilent": ("AllNoticed",)}
ACTIONS = ["Tick", "Begin", "Acquire", "Crit", "Unlock", "CallNotify", "PWake", "PScan", "PNotify", "PExit", "DStop", "DJoin"]

DIRECTED = [
    # the boundary instant: ttl 1 s, a get exactly at 1000 ms is a miss, at 999 a hit; the notice comes from the caller
    "1 1 | a=set:k1:1,sleep:999,get:k1,sleep:1,get:k1,size ; main=sleep:3000",
    # overwrite: no notice for the old value, the new expiry counts (custom ttl 3 s), purge tick at 5 s takes it out
    "1 1 | a=set:k1:1,set:k1:2:3,sleep:2500,get:k1,sleep:4000,psize ; main=sleep:8000",
    # remove: notice on the caller; remove of an absent key: nothing
    "2 1 | a=set:k1:1,remove:k1,remove:k1,get:k1 ; b=set:k2:2,sleep:100,remove:k2 ; main=sleep:500",
    # no callback configured: same map behaviour, no notices at all
    "1 0 | a=set:k1:1,sleep:1500,get:k1,set:k2:2,remove:k2 ; b=sleep:6000,psize ; main=sleep:7000",
    # entries still present at destruction: no notice; destruction right after a purge tick with notices in flight
    "1 1 | a=set:k1:1,set:k2:2:20 ; main=sleep:5000",
    "1 1 | a=set:k1:1,set:k2:2,set:k3:3 ; b=sleep:4999,get:k1 ; main=sleep:5001",
    # racing get / set / remove on one key around its expiry
    "1 1 | a=set:k1:1,sleep:1000,get:k1,set:k1:3 ; b=sleep:1000,remove:k1,get:k1 ; c=sleep:999,get:k1,sleep:1,get:k1 ; main=sleep:2000",
    # purge tick racing callers at the same instant
    "2 1 | a=set:k1:1,set:k2:2,sleep:5000,get:k1,set:k1:3,size ; b=sleep:5000,get:k2,remove:k1 ; main=sleep:11000",
]


def rand_prog(rng):
    ttl = rng.choice([1, 1, 2])
    cb = 0 if rng.random() < 0.2 else 1
    vid = [0]

    def ops(n):
        out = []
        for _ in range(n):
            o = rng.choice(["set", "set", "get", "get", "get", "remove", "size", "sleep", "sleep"])
            k = rng.choice(["k1", "k2"])
            if o == "set":
                vid[0] += 1
                out.append("set:%s:%d%s" % (k, vid[0], ":%d" % rng.choice([1, 3, 6]) if rng.random() < 0.3 else ""))
            elif o in ("get", "remove"):
                out.append("%s:%s" % (o, k))
            elif o == "size":
                out.append("size")
            else:
                out.append("sleep:%d" % rng.choice([1, 500, 999, 1000, 1001, 1999, 2000, 3000, 4999, 5000]))
        return out
    thr = ["%s=%s" % (n, ",".join(ops(rng.randint(3, 6)))) for n in ("a", "b", "c")[:rng.randint(2, 3)]]
    # main sleeps past every expiry + a purge period, checks that the purge has emptied the cache (7 s is not a tick), destroys
    thr.append("main=sleep:%d,psize" % rng.choice([27000 + 7000, 41000 + 2000]))
    return "%d %d | %s" % (ttl, cb, " ; ".join(thr))


def split_text(path):
    """the ndjson log as a list of executions (lists of lines incl. the closing Reset)"""
    out, cur = [], []
    for ln in open(path):
        cur.append(ln)
        if '"e":"Reset"' in ln:
            out.append(cur)
            cur = []
    return out


def run(ck):
    thorough = ck.tier == "thorough"
    ck.make("drv_s_expcache")
    ck.rule = ("programs of 2-4 threads on the real ExpiringCache under the deterministic scheduler in virtual time; distinct = "
               "distinct event sequences; non-trivial = an eviction notice, an expired get or a purge occurred")
    # ---- 1. Impl specification
    def mc(dev):
        cfg = os.path.join(ck.work, "mc_%s.cfg" % (dev or "code"))
        c = {"Thr": '{"a", "b"}', "Keys": '{"k1", "k2"}', "Ttl": 1, "MaxT": 3 if thorough and not dev else 2, "MaxOps": 5 if thorough and not dev else 4}
        for d in DEVS:
            c[d] = (d == dev)
        vf.write_cfg(cfg, constants=c, invariants=INVS)
        return dev, vf.run_tlc(IMPL, cfg, tag="X21_%s" % (dev or "code"), workers=3, coverage=dev is None, timeout=1500)
    with cf.ThreadPoolExecutor(max_workers=4) as ex:
        res = list(ex.map(mc, [None] + list(DEVS)))
    for dev, r in res:
        if r.error:
            raise vf.Infra("TLC failed on ExpiringCache.tla (%s): %s" % (dev, r.error))
        ck.states += r.distinct
        ck.transitions += r.generated
        if dev:
            if r.violated not in DEVS[dev]:
                raise vf.Infra("self-test: ExpiringCache.tla with %s should violate %s, got %r" % (dev, DEVS[dev], r.violated))
            continue
        ck.note("ExpiringCache.tla: %s" % r.summary())
        for a, (tk, gn) in r.coverage.items():
            ck.cov[a] = gn
        for a in ACTIONS:
            if ck.cov.get(a, 0) == 0:
                raise vf.Infra("self-test: Impl action %s never taken" % a)
        if r.violated:
            rp = ck.save_replay("impl_cache", {"tlc.out": r.out})
            ck.violation("ExpiringCache.tla (the design the code follows) violates %s" % r.violated, rp)
    # ---- 2. the real class
    rng = random.Random(ck.seed * 9176 + 5)
    lines = []
    for p in DIRECTED:
        for k in range(12 if thorough else 5):
            lines.append("%s | random %d" % (p, ck.seed * 313 + k))
    for i in range(1500 if thorough else 300):
        lines.append("%s | random %d" % (rand_prog(rng), ck.seed * 7717 + i))
    cp = os.path.join(ck.work, "cases.txt")
    open(cp, "w").write("\n".join(lines) + "\n")
    outp = os.path.join(ck.work, "cache.ndjson")
    rc, out = vf.run_driver("drv_s_expcache", ["run", cp, outp], timeout=1200)
    if rc != 0:
        raise vf.Infra("drv_s_expcache failed: " + out[-2000:])
    execs = split_text(outp)
    if len(execs) != len(lines):
        raise vf.Infra("drv_s_expcache returned %d executions for %d cases" % (len(execs), len(lines)))
    keep, kept_lines, moved, crashed, keys = [], [], 0, 0, set()
    for i, ex in enumerate(execs):
        evs = [json.loads(x) for x in ex]
        if any(e["e"] in ("Crashed", "HarnessTimeout") for e in evs):
            crashed += 1
            rp = ck.save_replay("crash_%d" % i, {"trace.ndjson": "".join(ex), "case.txt": lines[i] + "\n"})
            ck.violation("execution crashed (abort / signal) - %s" % lines[i], rp)
            continue
        calls = {}
        drift = False
        for e in evs:
            if e["e"] == "Call":
                calls[e["t"]] = e["vt"]
            elif e["e"] == "Ret" and calls.get(e["t"]) != e["vt"]:
                drift = True
        if drift or any(e["e"] == "End" and e["outcome"] == "other" for e in evs):
            moved += 1          # virtual time moved during a call (unfair jump) / step limit: decides nothing
            continue
        keep.append(ex)
        kept_lines.append(lines[i])
        if any(e["e"] == "Evict" for e in evs):
            keys.add("".join(ex))
    ck.evaluations += len(keep)
    ck.nontrivial = len(keys)
    if moved * 5 > len(execs):
        raise vf.Infra("%d of %d executions were inconclusive (time moved during a call / step limit)" % (moved, len(execs)))
    tp = os.path.join(ck.work, "cache.keep.ndjson")
    open(tp, "w").write("".join("".join(ex) for ex in keep))
    v = ck.validate(os.path.join(SPECDIR, "CacheTrace.tla"), os.path.join(SPECDIR, "CacheTrace.cfg"), tp, n_exec=len(keep))
    ck.note("real cache: %d executions (%d inconclusive dropped, %d crashed), %d with eviction notices" % (len(keep), moved, crashed, len(keys)))
    if keep:
        ck.sample({"kind": "cache", "case": kept_lines[0], "events": [json.loads(x) for x in keep[0][:14]]})
    if not v.accepted:
        n = 0
        for x, ex in enumerate(keep):
            if n + len(ex) >= v.maxl:
                bad = ex[v.maxl - n - 1] if 0 < v.maxl - n <= len(ex) else "?"
                rp = ck.save_replay("cache_reject_%d" % x, {"trace.ndjson": "".join(ex), "case.txt": kept_lines[x] + "\n",
                                                              "why.txt": "CacheTrace.tla cannot match event %d of this execution: %s\n" % (v.maxl - n, bad)})
                ck.violation("cache execution not explainable by CacheTrace.tla (%s): first unmatched event %s" % (kept_lines[x][:200], bad.strip()), rp)
                break
            n += len(ex)
        return
    # ---- 3. the oracle rejects corrupted traces
    def corrupt(pred, change, what):
        for ex in keep:
            evs = [json.loads(x) for x in ex]
            for j, e in enumerate(evs):
                if pred(e, evs, j):
                    new = change([dict(x) for x in evs], j)
                    p = os.path.join(ck.work, "corrupt.ndjson")
                    open(p, "w").write("\n".join(json.dumps(x) for x in new) + "\n")
                    vv = vf.validate_trace(os.path.join(SPECDIR, "CacheTrace.tla"), os.path.join(SPECDIR, "CacheTrace.cfg"), p, tag="X21_corrupt")
                    if vv.error:
                        raise vf.Infra("self-test validation error: " + vv.error)
                    if vv.accepted:
                        raise vf.Infra("self-test: CacheTrace.tla accepts a corrupted trace (%s)" % what)
                    return True
        raise vf.Infra("self-test: no execution to build the corrupted trace '%s' from" % what)

    def drop(evs, j):
        return evs[:j] + evs[j + 1:]

    def dup(evs, j):
        return evs[:j + 1] + [evs[j]] + evs[j + 1:]

    def flip_hit(evs, j):
        evs[j]["hit"] = not evs[j]["hit"]
        evs[j]["rv"] = 1 if evs[j]["hit"] else -1
        return evs

    def late(evs, j):
        e = evs[j]
        k = max(i for i, x in enumerate(evs) if x["e"] == "DtorRet")
        return evs[:j] + evs[j + 1:k + 1] + [e] + evs[k + 1:]
    corrupt(lambda e, evs, j: e["e"] == "Evict", drop, "dropped eviction notice")
    corrupt(lambda e, evs, j: e["e"] == "Evict", dup, "duplicated eviction notice")
    corrupt(lambda e, evs, j: e["e"] == "Ret" and e["op"] == "get", flip_hit, "get result flipped")
    corrupt(lambda e, evs, j: e["e"] == "Evict" and e["th"] == "purge", late, "purge notice after the destructor returned")
    corrupt(lambda e, evs, j: e["e"] == "Ret" and e["op"] == "size" and e["rv"] == 0 and any(x["e"] == "Call" and x.get("quiet") for x in evs[:j]),
            lambda evs, j: [dict(x, rv=1) if i == j else x for i, x in enumerate(evs)], "an entry survives the purge")
    ck.note("oracle self-test: 5 corrupted traces rejected")


def replay(ck, path):
    ck.make("drv_s_expcache")
    case = open(os.path.join(path, "case.txt")).read().strip()
    cp = os.path.join(ck.work, "replay.txt")
    open(cp, "w").write(case + "\n")
    outp = os.path.join(ck.work, "replay.ndjson")
    rc, out = vf.run_driver("drv_s_expcache", ["run", cp, outp], timeout=300)
    if rc != 0:
        raise vf.Infra("drv_s_expcache failed: " + out[-2000:])
    v = ck.validate(os.path.join(SPECDIR, "CacheTrace.tla"), os.path.join(SPECDIR, "CacheTrace.cfg"), outp)
    if not v.accepted:
        ck.violation("replayed cache execution not explainable by CacheTrace.tla (%s)" % case[:200], path)
