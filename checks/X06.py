"""X06 (extra, beyond the listed properties; not registered in MANIFEST.json) — iora::core::Signal / ScopedConnection: slots run
in connection order, exactly once per emit, from ONE snapshot of the list (connected-during-emit does not run, disconnected-
before-emit never runs), slots may call the signal, expired weak slots never run and are pruned, ids are fresh and no
concurrent update is lost, a throwing slot does not stop the emit, ScopedConnection disconnects exactly when it must.

  1. spec/extra/Signal.tla (Impl of the copy-on-write list: one action per critical section / atomic step / slot invocation,
     slot bodies that disconnect themselves, disconnect the next slot, connect a new slot) is model-checked with two threads;
     every Dev_* flag must make TLC report a violation (self-test).
  2. Behaviours of its state graph (VIEW without ghosts) are replayed step by step on the real signal under the deterministic
     scheduler (every slot body starts with a schedule point), the same programs - also rewritten to use ScopedConnection,
     throwing / re-emitting slots, an exception handler and connectionCount() - run under seeded random schedules, and a
     preemption-bounded DFS explores one program.
  3. Every recorded execution is judged by spec/extra/SignalTrace.tla.
Observation (note; the check stays green): a slot can run after its disconnect()/~ScopedConnection returned (snapshot)."""
import os, re, json
import vf
from checks import xcore_common as xc

SPECDIR = xc.SPECDIR
TRACE = os.path.join(SPECDIR, "SignalTrace.tla")
TRACE_CFG = os.path.join(SPECDIR, "SignalTrace.cfg")
KINDS = ["plain", "selfdisc", "killnext", "connector", "weak"]
DEVS = {"Dev_IterateLive": ("Snapshot", "ExactlyOnce", "Order"), "Dev_CowNoLock": ("NoLostUpdate",), "Dev_PushFront": ("Order",),
        "Dev_PruneAllWeak": ("PruneKeepsLive",), "Dev_NoExpiryCheck": ("NeverInvokeExpired",), "Dev_NoPrune": ("PrunedAfterEmit",),
        "Dev_EmitHoldsMutex": ("NoSelfDeadlock",)}
INVS = ["Order", "Snapshot", "NeverInvokeExpired", "ExactlyOnce", "NoLostUpdate", "UniqueIds", "PruneKeepsLive", "PruneRemovesExpired",
        "PrunedAfterEmit", "NoSelfDeadlock"]
ACTIONS = ["ConnectCS", "DisconnectCS", "DisconnectAllCS", "Expire", "EmitLoad", "EmitSkip", "EmitInvoke", "NestedCS", "EmitEnd",
           "PruneCS", "PruneClear", "EmitRet"]
U = lambda t, n: [t + "*unlock", t] * n


def consts(procs, max_ops, max_ids=3, devs=(), kinds=KINDS, objs=(1,)):
    c = {"Procs": set(procs), "Kinds": set(kinds), "Objs": set(objs), "MaxOps": max_ops, "MaxIds": max_ids}
    for d in DEVS:
        c[d] = d in devs
    return c


def to_case(labels):
    """[(action, [args])] of a Signal.tla behaviour -> (thread programs, step-grain replay plan)"""
    prog, plan = {}, ["main*"]
    for act, a in labels:
        t = a[0]
        prog.setdefault(t, [])
        if act == "ConnectCS":
            prog[t].append("conn:%s%s" % (a[1], ":%d" % a[2] if a[1] == "weak" else "")); plan += U(t, 3)
        elif act == "DisconnectCS":
            prog[t].append("disc:%d" % a[1]); plan += U(t, 3)
        elif act == "DisconnectAllCS":
            prog[t].append("discall"); plan += U(t, 2)
        elif act == "Expire":
            prog[t].append("expire:%d" % a[1]); plan += [t]
        elif act == "EmitLoad":
            prog[t].append("emit"); plan += U(t, 2)        # two atomic loads: the list, the exception handler
        elif act == "EmitInvoke":
            plan += [t]                                     # the schedule point at the start of the slot body
        elif act in ("NestedCS", "PruneCS"):
            plan += U(t, 3)
        elif act in ("EmitSkip", "EmitEnd", "PruneClear", "EmitRet"):
            pass                                            # no synchronisation operation of their own
        else:
            break                                           # CloneNoLock / StoreCS: only in the deviating design
    return ";".join("%s=%s" % (t, ",".join(o)) for t, o in sorted(prog.items()) if o), plan


def variant(rng, progs):
    """the same thread programs with ScopedConnection, throwing / re-emitting slots, a handler and connectionCount() mixed in"""
    out = []
    for part in progs.split(";"):
        name, ops = part.split("=")
        new, h = [], 0
        for o in ops.split(","):
            r = rng.random()
            if o.startswith("conn:") and not o.startswith("conn:weak") and r < 0.45 and h < 4:
                h += 1
                new.append("sconn:%d:%s" % (h, o[5:]))
                new.append(rng.choice(["count", "emit", "sdrop:%d" % h, "sreset:%d" % h, "srel:%d" % h, "smove:%d:%d" % (h, h % 4 + 1)] +
                                      (["smove:%d:%d" % (h, h - 1), "smove:%d:%d" % (h - 1, h)] * 2 if h > 1 else [])))
            elif o.startswith("conn:plain") and r < 0.7:
                new.append(rng.choice(["conn:thrower", "conn:reemit"]))
                if rng.random() < 0.6:
                    new.append("sethandler:%d" % rng.choice([1, 1, 0]))
            else:
                new.append(o)
            if rng.random() < 0.2:
                new.append("count")
        if h and rng.random() < 0.5:
            new.append("sdrop:%d" % rng.randint(1, h))
        out.append(name + "=" + ",".join(new))
    return ";".join(out)


def run(ck):
    thorough = ck.tier == "thorough"
    ck.make("drv_s_signal")
    ck.rule = ("Signal: behaviours of the TLC state graph of Signal.tla replayed step by step on the real signal + the same programs "
               "(also with ScopedConnection / throwing / re-emitting slots) under random schedules + DFS; non-trivial = distinct event "
               "sequences in which a slot list changes while an emit is in flight")
    jobs = {}
    t, c = xc.write_mc(ck, "MCSig", "Signal", consts("ab", 5 if thorough else 4), INVS)
    jobs["mc"] = dict(module_path=t, cfg_path=c, workers=6, coverage=True)
    t, c = xc.write_mc(ck, "MCSig2w", "Signal", consts("ab", 4, kinds=["weak", "plain"], objs=(1, 2)), INVS)
    jobs["mc_2weak"] = dict(module_path=t, cfg_path=c, workers=2, coverage=True)
    dot = os.path.join(ck.work, "g.dot")
    t, c = xc.write_mc(ck, "GenSig", "Signal", consts("ab", 4 if thorough else 3), INVS, view="GenView")
    jobs["gen"] = dict(module_path=t, cfg_path=c, workers=2, dump_dot=dot)
    dot1 = os.path.join(ck.work, "g1.dot")
    t, c = xc.write_mc(ck, "GenSig1", "Signal", consts("a", 5), INVS, view="GenView")
    jobs["gen1"] = dict(module_path=t, cfg_path=c, workers=2, dump_dot=dot1)
    for d in DEVS:
        kw = dict(kinds=["weak", "plain"], objs=(1, 2)) if d == "Dev_PruneAllWeak" else {}
        t, c = xc.write_mc(ck, "MC_" + d, "Signal", consts("ab" if d == "Dev_CowNoLock" else "a", 4, devs=[d], **kw), INVS)
        jobs[d] = dict(module_path=t, cfg_path=c, workers=1, dump_trace=os.path.join(ck.work, d + ".json"))
    t, c = xc.write_mc(ck, "MC_Obs", "Signal", consts("a", 4), ["NoCallAfterDisconnect"])
    jobs["obs"] = dict(module_path=t, cfg_path=c, workers=1, dump_trace=os.path.join(ck.work, "obs.json"))
    t, c = xc.write_mc(ck, "MC_Obs2", "Signal", consts("ab", 4, kinds=["plain"]), ["NoCallAfterDisconnect"])
    jobs["obs2"] = dict(module_path=t, cfg_path=c, workers=1, dump_trace=os.path.join(ck.work, "obs2.json"))
    res = xc.tlc_many(jobs, max_parallel=6)
    for k in ("mc", "mc_2weak", "gen", "gen1"):
        r = res[k]
        if r.error:
            raise vf.Infra("TLC %s: %s" % (k, r.error))
        if k.startswith("mc"):
            xc.account(ck, r, "" if k == "mc" else "2weak.")
        ck.note("Signal.tla %s: %s" % (k, r.summary()))
        if r.violated:
            ck.violation("Signal.tla (%s) violates %s" % (k, r.violated), ck.save_replay("impl_" + k, {"tlc.out": r.out[-20000:]}))
            return
    xc.require_actions(ck, res["mc"], ACTIONS, "Signal.tla")
    ck.exhaustive = True
    for d, invs in DEVS.items():
        if res[d].violated not in invs:
            raise vf.Infra("self-test: Signal.tla with %s should violate %s, got %r %s" % (d, invs, res[d].violated, (res[d].error or "")[-400:]))
    for k in ("obs", "obs2"):
        if res[k].violated != "NoCallAfterDisconnect":
            raise vf.Infra("self-test: NoCallAfterDisconnect should fail in the model of the code as it is (%s), got %r" % (k, res[k].violated))
    ck.note("self-test: %d deviation flags each violate their invariant; NoCallAfterDisconnect fails with one thread and with two" % len(DEVS))
    # ---------------------------------------------------------------- behaviours -> the real signal
    lines, kinds = [], []

    def add(labels, kind, sched=None, var=False, max_ids=3):
        progs, plan = to_case(labels)
        if not progs:
            return
        if var:
            progs = variant(ck.rng, progs)
        lines.append("%d | %s | %s" % (max_ids, progs, sched if sched else "replay " + " ".join(plan)))
        kinds.append(kind)
    for d in DEVS:
        add(xc.cex_labels(res[d]), "probe:" + d)
    add(xc.cex_labels(res["obs"]), "probe:obs")
    add(xc.cex_labels(res["obs2"]), "probe:obs2")
    g1 = vf.Graph.load(dot1); os.remove(dot1)
    paths, covered, total = g1.transition_cover(ck.rng, maxlen=60, limit=1200 if thorough else 200)
    walks = g1.random_walks(ck.rng, 300 if thorough else 60, maxlen=60)
    ck.note("one-thread graph: %d nodes, %d edges; %d cover behaviours (%d edges) + %d walks" % (len(g1.nodes), total, len(paths), covered, len(walks)))
    for i, p in enumerate(paths + walks):
        labs = xc.graph_labels(p)
        add(labs, "seq", sched="random %d" % (ck.seed + i))
        if i % 2 == 0:
            add(labs, "seqvar", sched="random %d" % (ck.seed + i), var=True, max_ids=5)
    g = vf.Graph.load(dot); os.remove(dot)
    paths, covered, total = g.transition_cover(ck.rng, maxlen=80, limit=2500 if thorough else 400)
    walks = g.random_walks(ck.rng, 500 if thorough else 100, maxlen=80)
    ck.note("two-thread graph: %d nodes, %d edges; %d cover behaviours (%d edges) + %d walks" % (len(g.nodes), total, len(paths), covered, len(walks)))
    for i, p in enumerate(paths + walks):
        labs = xc.graph_labels(p)
        add(labs, "replay")
        if i % 2 == 0:
            add(labs, "random", sched="random %d" % (ck.seed * 23 + i))
        if i % 3 == 0:
            add(labs, "var", sched="random %d" % (ck.seed * 27 + i), var=True, max_ids=5)
    outp = xc.run_driver_cases(ck, "drv_s_signal", lines, "sig")
    dfs_out = os.path.join(ck.work, "dfs.ndjson")
    rc, out = vf.run_driver("drv_s_signal", ["dfs", "3 | a=conn:plain,conn:selfdisc,emit;b=conn:weak:1,expire:1,emit", 2,
                                             3000 if thorough else 500, dfs_out, 12], timeout=900)
    if rc != 0:
        raise vf.Infra("drv_s_signal dfs failed: " + out[-1000:])
    ck.note("dfs (preemption bound 2): " + out.strip().splitlines()[-1])
    allp = os.path.join(ck.work, "all.ndjson")
    with open(allp, "w") as f:
        f.write(open(outp).read()); f.write(open(dfs_out).read())
    raw = open(allp).read().splitlines()
    execs = xc.exec_texts(allp)
    ck.evaluations += len(execs)
    case_of = lambda x: lines[x] if x < len(lines) else "dfs"
    for x, e in enumerate(execs):
        if any('"e":"Crashed"' in y or '"e":"HarnessTimeout"' in y for y in e):
            ck.violation("signal execution crashed or hung", ck.save_replay("crash", {"trace.ndjson": "\n".join(e) + "\n", "case.txt": case_of(x) + "\n"}))
            return

    def nontrivial(e):
        depth = 0
        for y in e:
            if '"e":"EmitCall"' in y: depth += 1
            elif '"e":"EmitRet"' in y: depth -= 1
            elif depth > 0 and '"e":"Ret"' in y and ('"op":"connect"' in y or '"op":"disconnect' in y): return True
            elif depth > 0 and '"e":"Expire"' in y: return True
        return False
    ck.nontrivial = len({"\n".join(e) for e in execs if nontrivial(e)})
    i0 = kinds.index("replay")
    ck.sample({"kind": "two-thread behaviour (TLC) replayed", "case": lines[i0], "events": [json.loads(y) for y in execs[i0][1:12]]})
    ok, bad, obs = xc.validate_sharded(ck, TRACE, TRACE_CFG, allp, nshards=6 if thorough else 4)
    if not ok:
        x = bad["exec"]
        rp = ck.save_replay("reject_%d" % x, {"trace.ndjson": "\n".join(execs[x]) + "\n", "case.txt": case_of(x) + "\n"})
        ck.violation("signal execution rejected by SignalTrace.tla at %s (%s)" % (json.dumps(bad["event"]), case_of(x)), rp)
        return
    isrep = lambda k: k == "replay"   # (probes derived from a deviating design may be infeasible on the real code: their drift is expected)
    nrep = sum(1 for k in kinds if isrep(k))
    drift = sum(1 for i, e in enumerate(execs) if i < len(kinds) and isrep(kinds[i]) and '"drift":true' in e[-1])
    ck.note("replayed %d TLC behaviours step by step, %d drifted" % (nrep, drift))
    if drift > nrep // 10:
        raise vf.Infra("too many replays drifted (%d of %d): the plan mapping no longer matches the code's synchronisation" % (drift, nrep))
    cad = sorted({xc.exec_of_line(raw, ln) for ln in obs.get("CallAfterDisconnect", [])})
    p1, p2 = kinds.index("probe:obs"), kinds.index("probe:obs2")
    if p1 in cad or p2 in cad:
        ck.note("OBSERVATION O-06a (CallAfterDisconnect): a slot still runs AFTER disconnect(id) / ~ScopedConnection has returned, because emit "
                "walks the snapshot it took before: one thread: '%s' (%s); two threads: '%s' (%s); %d executions show it" % (
                    lines[p1].split(" | ")[1], "shown" if p1 in cad else "not shown", lines[p2].split(" | ")[1], "shown" if p2 in cad else "not shown", len(cad)))
    else:
        ck.note("observation O-06a (slot runs after its disconnect returned) not reproduced by the TLC-derived probes; %d other executions show it" % len(cad))
    # oracle self-tests
    base = next(e for e in execs if '"ReCall"' not in "".join(e) and any(
        '"e":"Slot"' in e[i] and '"e":"Slot"' in e[i + 1] and json.loads(e[i])["x"] == json.loads(e[i + 1])["x"] and json.loads(e[i]).get("thr", 0) == 0
        for i in range(len(e) - 1)))
    i = next(i for i in range(len(base) - 1) if '"e":"Slot"' in base[i] and '"e":"Slot"' in base[i + 1] and json.loads(base[i])["x"] == json.loads(base[i + 1])["x"] and json.loads(base[i]).get("thr", 0) == 0)
    sw = list(base); sw[i], sw[i + 1] = sw[i + 1], sw[i]
    xc.must_reject(ck, TRACE, TRACE_CFG, "\n".join(sw) + "\n", "slots out of order")
    xc.must_reject(ck, TRACE, TRACE_CFG, "\n".join(base[:i] + base[i + 1:]) + "\n", "slot skipped")
    xc.must_reject(ck, TRACE, TRACE_CFG, "\n".join(base[:i + 1] + [base[i]] + base[i + 1:]) + "\n", "slot run twice")
    ck.note("oracle self-test: slots out of order / skipped / run twice are rejected")


def replay(ck, path):
    run(ck)
