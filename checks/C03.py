"""C03 — synchronous receive is a lossless ordered stream that drains before EOF.

1. TLC checks spec/transport/SyncRecv.tla (Impl of onData / onClose / receiveSync) exhaustively for several chunk patterns and
   caps: AbsOk (in order, each byte once, error only after the pre-overflow bytes, PeerClosed only after everything before the
   close) and NoLostWake.  Self-test: DropAfterOverflow = FALSE (the code before the fix) must violate AbsOk.
2. Every distinct (chunk pattern, sequence of receive buffer lengths, close position) TLC visited becomes a program for the
   real Transport on the scripted engine; each runs under seeded random schedules and a preemption-bounded DFS of the real
   code; plus hand-shaped programs for the clauses the small model does not have (switch back to async while data arrives,
   Disabled, two readers, late receive after close, timeouts).  Traces are validated against TransportTrace.tla.
"""
import os, re, json, concurrent.futures as cf
import vf
from checks import transport_common as tc

SPECDIR = tc.SPECDIR


def nontrivial(evs):
    return any(e["e"] == "RecvRet" and e["res"] in ("BufferOverflow", "PeerClosed", "Cancelled", "Timeout") for e in evs) or \
        any(e["e"] == "Data" and e["th"] != "io" for e in evs)


def gen_mc(ck, name, chunks, cap, buflens, maxrecv, drop=True):
    d = os.path.join(ck.work, name)
    os.makedirs(d, exist_ok=True)
    open(os.path.join(d, "MCSR.tla"), "w").write("---- MODULE MCSR ----\nEXTENDS SyncRecv\nChunksDef == %s\n====\n" % vf.tla(chunks))
    cfg = os.path.join(d, "MCSR.cfg")
    vf.write_cfg(cfg, constants={"Chunks": "<- ChunksDef", "Cap": cap, "BufLens": "{" + ", ".join(map(str, buflens)) + "}",
                                 "MaxRecv": maxrecv, "DropAfterOverflow": drop}, invariants=["AbsOk", "NoLostWake"])
    return os.path.join(d, "MCSR.tla"), cfg, os.path.join(d, "g.dot")


def program_from_path(chunks, cap, labels):
    """a TLC behaviour -> io / reader programs: the arrival pattern, the buffer lengths the reader used, where the close fell"""
    io, rd = ["accept:1", "waitflag:s"], ["mode:1:sync", "setflag:s"]
    ci = 0
    for lab in labels:
        act, args = vf.label_thread(lab)
        if act == "OnData":
            io.append("data:1:%d" % chunks[ci]); ci += 1
        elif act == "OnClose":
            io.append("close:1")
        elif act == "RecvEnter":
            rd.append("recv:1:%s:200" % args[0])
    return "%d | io=%s ; main=%s" % (cap, ",".join(io), ",".join(rd))


def run(ck):
    thorough = ck.tier == "thorough"
    ck.make(tc.DRV)
    ck.rule = ("programs = distinct (arrival pattern, receive buffer lengths, close position) tuples visited by TLC on SyncRecv.tla "
               "+ hand-shaped mode-switch/Disabled/two-reader/timeout programs, each under seeded random schedules and "
               "preemption-bounded DFS of the real Transport; non-trivial = overflow, peer-closed, cancelled, timeout or a flush "
               "delivery occurred")
    models = [("m1", [2, 2, 1, 1], 3, [1, 2, 3], 5), ("m2", [1, 3, 1], 3, [2, 4], 4)]
    if thorough:
        models += [("m3", [3, 1, 2, 1], 4, [1, 3], 5), ("m4", [1, 1, 1, 1, 1], 2, [1, 2], 5)]
    jobs = [(m, True) for m in models] + [(models[0], False)]

    def go(job):
        (name, chunks, cap, bl, mr), drop = job
        t, c, dot = gen_mc(ck, name + ("" if drop else "_nodrop"), chunks, cap, bl, mr, drop)
        return job, dot, vf.run_tlc(t, c, tag="C03_" + name, workers=3, coverage=drop, dump_dot=(dot if drop else None),
                                    lib_dirs=[SPECDIR], timeout=900)
    with cf.ThreadPoolExecutor(max_workers=5) as ex:
        res = list(ex.map(go, jobs))
    progs = []
    for ((name, chunks, cap, bl, mr), drop), dot, r in res:
        if r.error:
            raise vf.Infra("TLC failed on SyncRecv %s: %s" % (name, r.error))
        ck.states += r.distinct
        ck.transitions += r.generated
        if not drop:
            if r.violated != "AbsOk":
                raise vf.Infra("self-test: SyncRecv.tla with DropAfterOverflow=FALSE should violate AbsOk, got %r" % r.violated)
            continue
        for a, (tk, gn) in r.coverage.items():
            ck.cov[a] = ck.cov.get(a, 0) + gn
        ck.note("SyncRecv %s chunks=%s cap=%d: %s" % (name, chunks, cap, r.summary()))
        if r.violated:
            rp = ck.save_replay("impl_" + name, {"tlc.out": r.out})
            ck.violation("SyncRecv.tla (the design the code follows) violates %s" % r.violated, rp)
            continue
        g = vf.Graph.load(dot)
        os.remove(dot)
        paths, covered, total = g.transition_cover(ck.rng, maxlen=60, limit=(400 if thorough else 60))
        seen = set()
        for pth in paths + g.random_walks(ck.rng, 200 if thorough else 30, maxlen=60):
            p = program_from_path(chunks, cap, pth)
            if p not in seen:
                seen.add(p); progs.append(p)
        ck.note("  %d behaviours -> %d distinct programs" % (len(paths), len(seen)))
    for a in ["OnData", "OnClose", "RecvEnter", "RecvPark", "RecvWake", "RecvTimeout", "RecvDrain", "RecvOverflow", "RecvClosed"]:
        if ck.cov.get(a, 0) == 0:
            raise vf.Infra("self-test: SyncRecv action %s never taken" % a)
    hand = [
        # switch back to async while data keeps arriving: buffered bytes first, then the later ones, nothing missing
        "8 | io=accept:1,waitflag:s,data:1:2,data:1:2,data:1:2,data:1:1,setflag:d ; main=mode:1:sync,setflag:s,recv:1:1:200,mode:1:async,waitflag:d,expectall:1",
        "16 | io=accept:1,waitflag:s,data:1:3,data:1:2,setflag:d ; main=mode:1:sync,setflag:s,waitflag:d ; a=waitflag:s,recv:1:2:200 ; b=waitflag:s,mode:1:async",
        # (the flush starts while the engine still has chunks to deliver: the second flag releases them right before the switch)
        "16 | io=accept:1,waitflag:s,data:1:2,data:1:1,waitflag:s2,data:1:2,data:1:2,data:1:1,setflag:d ; main=mode:1:sync,setflag:s,recv:1:1:200,setflag:s2,mode:1:async,waitflag:d,expectall:1",
        # Disabled delivers nothing; what arrives afterwards is delivered
        "8 | io=accept:1,waitflag:s,data:1:2:dis,data:1:3:dis,setflag:d1,waitflag:s2,data:1:2,data:1:1,setflag:d ; main=mode:1:disabled,setflag:s,waitflag:d1,mode:1:async,setflag:s2,waitflag:d,expectall:1",
        "8 | io=accept:1,waitflag:s,data:1:2:dis,setflag:d1,waitflag:s2,data:1:2,close:1 ; main=mode:1:disabled,setflag:s,waitflag:d1,mode:1:sync,setflag:s2,recv:1:4:200,recv:1:4:200",
        # Sync -> Disabled with bytes still buffered: nothing is handed to the callback, what arrives while disabled is dropped,
        # and the buffered bytes are still there for the reader after Disabled -> Sync (also: -> Async hands them over first)
        "8 | io=accept:1,waitflag:s,data:1:2,setflag:d1,waitflag:s2,data:1:2:dis,setflag:d2,waitflag:s3,data:1:2,setflag:d ; main=mode:1:sync,setflag:s,waitflag:d1,mode:1:disabled,setflag:s2,waitflag:d2,mode:1:sync,setflag:s3,waitflag:d,recv:1:8:200,recv:1:8:200,expectall:1",
        "8 | io=accept:1,waitflag:s,data:1:3,setflag:d1,waitflag:s2,data:1:1:dis,data:1:2:dis,setflag:d2,waitflag:s3,data:1:2,setflag:d ; main=mode:1:sync,setflag:s,waitflag:d1,mode:1:disabled,setflag:s2,waitflag:d2,mode:1:async,setflag:s3,waitflag:d,expectall:1",
        # overflow: distinct, sticky, after the bytes buffered before it
        "6 | io=accept:1,waitflag:s,data:1:4,data:1:4,data:1:2,data:1:1,close:1 ; main=mode:1:sync,setflag:s,recv:1:3:200,recv:1:3:200,recv:1:3:200,recv:1:3:200,recv:1:3:200",
        "4 | io=accept:1,waitflag:s,data:1:3,data:1:3,data:1:1,setflag:d ; main=mode:1:sync,setflag:s,waitflag:d,recv:1:8:200,recv:1:8:200,recv:1:8:50",
        # close while the reader is parked, late receive after the close, timeout
        "8 | io=accept:1,waitflag:s,data:1:2,close:1 ; main=mode:1:sync,setflag:s,recv:1:8:1000,recv:1:8:1000,recv:1:8:50",
        "8 | io=accept:1,close:1 ; main=sleep:5,mode:1:sync,recv:1:8:50",
        "8 | io=accept:1 ; main=mode:1:sync,recv:1:8:30,recv:1:8:40",
        # two readers on one session (single-waiter contract)
        "8 | io=accept:1,waitflag:s,data:1:2,data:1:2,close:1 ; main=mode:1:sync,setflag:s ; a=waitflag:s,recv:1:2:200,recv:1:4:200 ; b=waitflag:s,recv:1:2:200,recv:1:4:200",
        # buffers of closed sessions that still hold unread bytes survive the tombstone GC (threshold 2) and a late reader drains them
        "16/2 | io=accept:1,accept:2,accept:3,accept:4,accept:5,waitflag:s,data:1:5,close:1,close:2,close:3,close:4,close:5,setflag:d ; main=mode:1:sync,setflag:s,waitflag:d,recv:1:3:200,recv:1:3:200,recv:1:3:200,expectall:1",
        "16/1 | io=accept:1,accept:2,waitflag:s,data:1:2,data:2:3,close:2,close:1,accept:3,close:3,setflag:d ; main=mode:1:sync,mode:2:sync,setflag:s,waitflag:d,recv:2:8:200,recv:1:8:200,recv:2:8:100,expectall:1,expectall:2",
        # two sessions: streams do not mix
        "8 | io=accept:1,accept:2,waitflag:s,data:1:2,data:2:3,data:1:1,close:2,close:1 ; main=mode:1:sync,mode:2:sync,setflag:s ; a=waitflag:s,recv:1:4:200,recv:1:4:200,recv:1:4:200 ; b=waitflag:s,recv:2:2:200,recv:2:2:200,recv:2:2:200",
        # the tombstone GC (threshold 1) runs while a LIVE Sync-mode session has an empty buffer and no reader parked: its buffer is
        # not a tombstone - bytes that arrive afterwards are still buffered and returned, a second GC round included
        "16/1 | io=accept:1,accept:2,accept:3,waitflag:s,close:2,close:3,data:1:4,setflag:d,waitflag:s2,accept:4,close:4,data:1:2,setflag:d2 ; main=mode:1:sync,setflag:s,waitflag:d,recv:1:4:200,setflag:s2,waitflag:d2,recv:1:4:200,expectall:1",
        # data that the I/O thread delivers after stop() was called (the rest of its batch) still reaches the parked reader
        "8 | io=accept:1,waitflag:s,data:1:2,atstop,data:1:3,data:1:1 ; main=mode:1:sync,setflag:s,waitparked:a,stop,join ; a=waitflag:s,recv:1:2:100000,recv:1:8:100000,recv:1:8:50",
    ]
    lines = []
    nsched = 40 if thorough else 6
    for i, p in enumerate(progs + hand):
        for k in range(nsched if p not in hand else nsched * 25):
            lines.append("%s | random %d" % (p, ck.seed * 1000003 + i * 101 + k))
    tc.run_cases(ck, lines, "random", nontrivial)
    dfs = [hand[0], hand[2], hand[7], hand[12]] if not thorough else hand
    for j, p in enumerate(dfs):
        tc.run_dfs(ck, p, 2 if thorough else 1, 30000 if thorough else 3000, "dfs%d" % j, nontrivial)


def replay(ck, path):
    tc.replay(ck, path, nontrivial)
